//! C06 — a crash at any point of a save leaves old or new state.
//!
//! The save routines of the repository run for real while this executable's
//! interposed libc entry points (interpose.rs) observe every mutating I/O call
//! on the store directory. Each call is a crash point; from the directory
//! model at that point (content + "dirty since last fsync" per file) the
//! harness derives the states a process death could leave (dirty files
//! replaced by prefixes, zeros, or their last synced content), materialises
//! each one and opens a *fresh* instance on it. Oracle: the fresh instance
//! loads, and every object equals its complete old or its complete new state.

mod interpose;

use bytes::Bytes;
use cascette_cache::config::DiskCacheConfig;
use cascette_cache::key::CacheKey;
use cascette_cache::traits::AsyncCache;
use cascette_cache::DiskCache;
use cascette_client_storage::index::IndexManager;
use cascette_client_storage::kmt::key_state::ResidencyDb;
use cascette_client_storage::lru::LruManager;
use cascette_client_storage::storage::compaction::ExtractorCompactorBackup;
use cascette_crypto::EncodingKey;
use interpose::{CrashPoint, FileState};
use serde_json::{Value, json};
use std::collections::{BTreeMap, BTreeSet};
use std::path::{Path, PathBuf};
use std::sync::Arc;
use std::sync::atomic::{AtomicU64, Ordering};
use vh::{Ctx, Rng, fnv64, mix64};

#[derive(Debug, Clone, PartialEq, Eq, Hash)]
struct SKey(String);
impl CacheKey for SKey {
    fn as_cache_key(&self) -> &str {
        &self.0
    }
}

/// What a fresh instance shows: object name -> rendered state.
type Obs = BTreeMap<String, String>;

fn rt() -> tokio::runtime::Runtime {
    tokio::runtime::Builder::new_current_thread().enable_all().build().expect("runtime")
}

fn role(p: &Path) -> &'static str {
    let name = p.file_name().and_then(|n| n.to_str()).unwrap_or("");
    if name.ends_with(".tmp") {
        "temp"
    } else if name.ends_with(".idx") {
        "index-file"
    } else if name.ends_with(".lru") {
        "lru-generation-file"
    } else if name.contains("residency") {
        "residency-file"
    } else if name.contains("backup") || name.contains("compact") {
        "journal"
    } else {
        "cache-entry-file"
    }
}

fn mark(what: &str) {
    // recognisable no-op syscall for the strace cross-check (thorough tier)
    if std::env::var_os("VH_C06_PROBE").is_some() {
        let _ = std::fs::metadata(format!("/VH_C06_MARK/{what}"));
    }
}

fn arm(store: &Path) {
    mark("begin");
    interpose::arm(store, role);
}

fn disarm() -> Option<interpose::Monitor> {
    let m = interpose::disarm();
    mark("end");
    m
}

// ------------------------------------------------------------------ scenarios

#[derive(Clone, Copy, Debug, PartialEq, Eq)]
enum Kind {
    IndexSaveAll,
    IndexFlushBucket,
    ResidencySave,
    LruCheckpoint,
    LruShutdown,
    DiskCachePut,
    DiskCachePutSubdirs,
    JournalRecord,
}

impl Kind {
    fn name(self) -> &'static str {
        match self {
            Kind::IndexSaveAll => "index.save_all",
            Kind::IndexFlushBucket => "index.flush_updates_for_bucket",
            Kind::ResidencySave => "residency.save",
            Kind::LruCheckpoint => "lru.checkpoint_to_disk",
            Kind::LruShutdown => "lru.shutdown",
            Kind::DiskCachePut => "diskcache.put",
            Kind::DiskCachePutSubdirs => "diskcache.put(subdirs)",
            Kind::JournalRecord => "compaction-journal.record_segment",
        }
    }
    fn object(self) -> &'static str {
        match self {
            Kind::IndexSaveAll | Kind::IndexFlushBucket => "index-bucket",
            Kind::ResidencySave => "residency-db",
            Kind::LruCheckpoint | Kind::LruShutdown => "lru-checkpoint",
            Kind::DiskCachePut | Kind::DiskCachePutSubdirs => "disk-cache-entry",
            Kind::JournalRecord => "compaction-journal",
        }
    }
}

struct Recorded {
    kind: Kind,
    /// description of the history for samples / replay
    history: Value,
    old: Obs,
    new: Obs,
    points: Vec<CrashPoint>,
    calls: BTreeMap<String, u64>,
    /// relative path of the store inside the scenario dir
    sub: PathBuf,
}

fn ekey_in_bucket(rng: &mut Rng, bucket: u8) -> [u8; 16] {
    // bucket = nibble-fold of XOR of first 9 bytes: fix byte 8 so that the fold hits `bucket`
    loop {
        let mut k = rng.array::<16>();
        let x = k[..8].iter().fold(0u8, |a, b| a ^ b);
        // choose k[8] so that ((x^k8)&0xf) ^ ((x^k8)>>4) == bucket: take high nibble 0 => low nibble = bucket
        k[8] = x ^ bucket;
        if k[..9] != [0u8; 9] {
            return k;
        }
    }
}

fn render_index(m: &IndexManager, universe: &[[u8; 16]]) -> Obs {
    let mut per_bucket: BTreeMap<u8, Vec<String>> = BTreeMap::new();
    for k in universe {
        let ek = EncodingKey::from_bytes(*k);
        let b = IndexManager::bucket_for_key(&ek);
        let e = per_bucket.entry(b).or_default();
        if let Some(ent) = m.lookup(&ek) {
            e.push(format!("{}=>{}:{}:{}", hex::encode(&k[..9]), ent.archive_id(), ent.archive_offset(), ent.size));
        }
    }
    per_bucket.into_iter().map(|(b, v)| (format!("bucket-{b:02x}"), v.join(","))).collect()
}

fn scenario_index(rng: &mut Rng, dir: &Path, flush: bool) -> Result<Recorded, String> {
    let store = dir.join("idx");
    std::fs::create_dir_all(&store).map_err(|e| e.to_string())?;
    let buckets: Vec<u8> = if rng.bool() { vec![rng.below(16) as u8] } else { vec![rng.below(16) as u8, rng.below(16) as u8] };
    let universe: Vec<[u8; 16]> = (0..rng.urange(3, 10)).map(|i| ekey_in_bucket(rng, buckets[i % buckets.len()])).collect();
    let mut m = IndexManager::new(&store);
    let mut hist = Vec::new();
    let step = |m: &mut IndexManager, rng: &mut Rng, hist: &mut Vec<Value>| {
        let k = *rng.pick(&universe);
        let ek = EncodingKey::from_bytes(k);
        match rng.below(5) {
            0..=2 => {
                let (a, o, s) = (rng.below(1024) as u16, rng.below(1 << 30) as u32, rng.range(1, 100_000) as u32);
                let _ = m.add_entry(&ek, a, o, s);
                hist.push(json!(["add", hex::encode(&k[..9]), a, o, s]));
            }
            3 => {
                let r = m.remove_entry(&ek);
                hist.push(json!(["remove", hex::encode(&k[..9]), r]));
            }
            _ => {
                let b = IndexManager::bucket_for_key(&ek);
                let _ = m.flush_updates_for_bucket(b);
                hist.push(json!(["flush_bucket", b]));
            }
        }
    };
    for _ in 0..rng.urange(1, 6) {
        step(&mut m, rng, &mut hist);
    }
    // one history in three monitors the very FIRST save (no earlier file on disk: old state = empty store)
    if rng.chance(2, 3) {
        m.save_all().map_err(|e| format!("first save_all failed: {e}"))?;
        hist.push(json!(["save_all (completed)"]));
    } else {
        hist.push(json!(["(no earlier save: the monitored save is the first one)"]));
    }
    for _ in 0..rng.urange(1, 6) {
        step(&mut m, rng, &mut hist);
    }
    // old state = what a fresh instance sees right before the monitored save
    // (flush_updates_for_bucket persists on its own, so this can be later than the explicit save above)
    let old = observe_copy(&store, |d| recover_index(d, &universe))?;
    let flush_bucket = buckets[0];
    arm(&store);
    let r = if flush { m.flush_updates_for_bucket(flush_bucket) } else { m.save_all() };
    let mon = disarm().ok_or("monitor lost")?;
    r.map_err(|e| format!("monitored save failed: {e}"))?;
    // new state: the in-memory state for the buckets the routine persists
    let mut new = render_index(&m, &universe);
    if flush {
        // only the flushed bucket is written; the others keep their old on-disk state
        let name = format!("bucket-{flush_bucket:02x}");
        for (k, v) in &old {
            if *k != name {
                new.insert(k.clone(), v.clone());
            }
        }
        new.retain(|k, _| *k == name || old.contains_key(k));
    }
    hist.push(json!([if flush { "flush_updates_for_bucket (monitored)" } else { "save_all (monitored)" }, flush_bucket]));
    // recovery needs the universe: stash it in the history
    hist.push(json!({"universe": universe.iter().map(hex::encode).collect::<Vec<_>>()}));
    Ok(Recorded { kind: if flush { Kind::IndexFlushBucket } else { Kind::IndexSaveAll }, history: Value::Array(hist), old, new, points: mon.points, calls: mon.calls, sub: PathBuf::from("idx") })
}

fn recover_index(store: &Path, universe: &[[u8; 16]]) -> Result<Obs, String> {
    let mut m = IndexManager::new(store);
    rt().block_on(m.load_all()).map_err(|e| e.to_string())?;
    Ok(render_index(&m, universe))
}

fn render_residency(db: &ResidencyDb, universe: &[[u8; 16]]) -> Obs {
    let v: Vec<String> = universe.iter().filter(|k| db.is_resident(k)).map(|k| hex::encode(&k[..6])).collect();
    BTreeMap::from([("residency-db".to_string(), v.join(","))])
}

fn scenario_residency(rng: &mut Rng, dir: &Path) -> Result<Recorded, String> {
    let store = dir.join("res");
    std::fs::create_dir_all(&store).map_err(|e| e.to_string())?;
    let path = store.join("residency.db");
    let universe: Vec<[u8; 16]> = (0..rng.urange(3, 40)).map(|_| rng.array::<16>()).collect();
    let mut db = ResidencyDb::new(path);
    let mut hist = Vec::new();
    let step = |db: &mut ResidencyDb, rng: &mut Rng, hist: &mut Vec<Value>| {
        let k = *rng.pick(&universe);
        match rng.below(4) {
            0 | 1 => {
                db.mark_resident(&k);
                hist.push(json!(["mark_resident", hex::encode(&k[..6])]));
            }
            2 => {
                db.mark_non_resident(&k);
                hist.push(json!(["mark_non_resident", hex::encode(&k[..6])]));
            }
            _ => {
                db.delete_keys(&[k]);
                hist.push(json!(["delete_keys", hex::encode(&k[..6])]));
            }
        }
    };
    for _ in 0..rng.urange(1, 30) {
        step(&mut db, rng, &mut hist);
    }
    if rng.chance(2, 3) {
        db.save().map_err(|e| format!("first save failed: {e}"))?;
        hist.push(json!(["save (completed)"]));
    } else {
        hist.push(json!(["(no earlier save: the monitored save is the first one)"]));
    }
    for _ in 0..rng.urange(1, 30) {
        step(&mut db, rng, &mut hist);
    }
    let new = render_residency(&db, &universe);
    let old = observe_copy(&store, |d| recover_residency(d, &universe))?;
    arm(&store);
    let r = db.save();
    let mon = disarm().ok_or("monitor lost")?;
    r.map_err(|e| format!("monitored save failed: {e}"))?;
    hist.push(json!(["save (monitored)"]));
    hist.push(json!({"universe": universe.iter().map(hex::encode).collect::<Vec<_>>()}));
    Ok(Recorded { kind: Kind::ResidencySave, history: Value::Array(hist), old, new, points: mon.points, calls: mon.calls, sub: PathBuf::from("res") })
}

fn recover_residency(store: &Path, universe: &[[u8; 16]]) -> Result<Obs, String> {
    let db = ResidencyDb::load(&store.join("residency.db")).map_err(|e| e.to_string())?;
    Ok(render_residency(&db, universe))
}

fn render_lru(l: &LruManager) -> Obs {
    let mut keys = Vec::new();
    l.for_each_entry(|k| keys.push(hex::encode(&k[..4])));
    BTreeMap::from([("lru-checkpoint".to_string(), keys.join(">"))])
}

fn scenario_lru(rng: &mut Rng, dir: &Path, shutdown: bool) -> Result<Recorded, String> {
    let store = dir.join("lru");
    std::fs::create_dir_all(&store).map_err(|e| e.to_string())?;
    let cap = rng.urange(2, 12) as u32;
    let universe: Vec<[u8; 9]> = (0..cap as usize + 3).map(|_| { let mut k = rng.array::<9>(); k[0] |= 1; k }).collect();
    let mut l = LruManager::new(cap, store.clone());
    let mut hist = vec![json!(["new", cap])];
    let runtime = rt();
    let step = |l: &mut LruManager, rng: &mut Rng, hist: &mut Vec<Value>| {
        let k = *rng.pick(&universe);
        match rng.below(5) {
            0..=2 => {
                l.touch(&k);
                hist.push(json!(["touch", hex::encode(&k[..4])]));
            }
            3 => {
                l.remove(&k);
                hist.push(json!(["remove", hex::encode(&k[..4])]));
            }
            _ => {
                l.evict_tail();
                hist.push(json!(["evict_tail"]));
            }
        }
    };
    for _ in 0..rng.urange(1, 12) {
        step(&mut l, rng, &mut hist);
    }
    // a completed checkpoint defines the old state (sometimes after a generation bump)
    if rng.bool() {
        l.bump_generation();
        hist.push(json!(["bump_generation"]));
    }
    if rng.chance(2, 3) {
        runtime.block_on(l.checkpoint_to_disk()).map_err(|e| format!("first checkpoint failed: {e}"))?;
        hist.push(json!(["checkpoint_to_disk (completed)"]));
    } else {
        hist.push(json!(["(no earlier checkpoint: the monitored one is the first)"]));
    }
    for _ in 0..rng.urange(1, 12) {
        step(&mut l, rng, &mut hist);
    }
    let new = render_lru(&l);
    let same_generation = !shutdown && rng.chance(1, 3);
    if !shutdown && !same_generation {
        l.bump_generation();
        hist.push(json!(["bump_generation"]));
    }
    let old = observe_copy(&store, |d| recover_lru(d, cap))?;
    arm(&store);
    let r = if shutdown { runtime.block_on(l.shutdown()) } else { runtime.block_on(l.checkpoint_to_disk()) };
    let mon = disarm().ok_or("monitor lost")?;
    r.map_err(|e| format!("monitored checkpoint failed: {e}"))?;
    hist.push(json!([if shutdown { "shutdown (monitored)" } else { "checkpoint_to_disk (monitored)" }]));
    hist.push(json!({"capacity": cap}));
    Ok(Recorded {
        kind: if shutdown { Kind::LruShutdown } else { Kind::LruCheckpoint },
        history: Value::Array(hist),
        old,
        new,
        points: mon.points,
        calls: mon.calls,
        sub: PathBuf::from("lru"),
    })
}

fn recover_lru(store: &Path, cap: u32) -> Result<Obs, String> {
    let mut l = LruManager::new(cap, store.to_path_buf());
    rt().block_on(l.run_cycle(0, 0)).map_err(|e| e.to_string())?;
    Ok(render_lru(&l))
}

fn disk_cfg(store: &Path, subdirs: bool) -> DiskCacheConfig {
    DiskCacheConfig::new(store).with_max_files(1000).with_subdirectories(subdirs, if subdirs { 2 } else { 0 })
}

fn scenario_diskcache(rng: &mut Rng, dir: &Path, subdirs: bool) -> Result<Recorded, String> {
    let store = dir.join("cache");
    std::fs::create_dir_all(&store).map_err(|e| e.to_string())?;
    let runtime = rt();
    let cache: DiskCache<SKey> = DiskCache::new(disk_cfg(&store, subdirs)).map_err(|e| e.to_string())?;
    let keys = ["alpha", "beta.bin", "gamma"];
    let mut model: BTreeMap<&str, Vec<u8>> = BTreeMap::new();
    let mut hist = Vec::new();
    for _ in 0..rng.urange(0, 4) {
        let k = *rng.pick(&keys);
        let n = rng.size_biased(20_000);
        let v = rng.bytes(n);
        runtime.block_on(cache.put(SKey(k.to_string()), Bytes::from(v.clone()))).map_err(|e| e.to_string())?;
        hist.push(json!(["put", k, v.len()]));
        model.insert(k, v);
    }
    let render = |m: &BTreeMap<&str, Vec<u8>>| -> Obs {
        keys.iter().map(|k| (format!("entry-{k}"), m.get(k).map_or("absent".to_string(), |v| format!("{}:{:016x}", v.len(), fnv64(v))))).collect()
    };
    let old = observe_copy(&store, |d| recover_diskcache(d, subdirs))?;
    if old != render(&model) {
        return Err("disk cache: a fresh instance does not show the completed puts (judged by C10, not here)".to_string());
    }
    let k = *rng.pick(&keys);
    let n = rng.size_biased(40_000).max(1);
    let v = rng.bytes(n);
    model.insert(k, v.clone());
    let new = render(&model);
    arm(&store);
    let r = runtime.block_on(cache.put(SKey(k.to_string()), Bytes::from(v.clone())));
    let mon = disarm().ok_or("monitor lost")?;
    r.map_err(|e| format!("monitored put failed: {e}"))?;
    hist.push(json!(["put (monitored)", k, v.len()]));
    Ok(Recorded {
        kind: if subdirs { Kind::DiskCachePutSubdirs } else { Kind::DiskCachePut },
        history: Value::Array(hist),
        old,
        new,
        points: mon.points,
        calls: mon.calls,
        sub: PathBuf::from("cache"),
    })
}

fn recover_diskcache(store: &Path, subdirs: bool) -> Result<Obs, String> {
    let cache: DiskCache<SKey> = DiskCache::new(disk_cfg(store, subdirs)).map_err(|e| e.to_string())?;
    let runtime = rt();
    let mut o = Obs::new();
    for k in ["alpha", "beta.bin", "gamma"] {
        let got = runtime.block_on(cache.get(&SKey(k.to_string()))).map_err(|e| format!("get({k}): {e}"))?;
        o.insert(format!("entry-{k}"), got.map_or("absent".to_string(), |v| format!("{}:{:016x}", v.len(), fnv64(&v))));
    }
    Ok(o)
}

fn scenario_journal(rng: &mut Rng, dir: &Path) -> Result<Recorded, String> {
    let store = dir.join("journal");
    std::fs::create_dir_all(&store).map_err(|e| e.to_string())?;
    let mut b = ExtractorCompactorBackup::new(&store);
    let mut hist = Vec::new();
    let mut segs: Vec<u16> = Vec::new();
    for _ in 0..rng.urange(0, 5) {
        let s = rng.below(1023) as u16;
        b.record_segment(s).map_err(|e| e.to_string())?;
        segs.push(s);
        hist.push(json!(["record_segment", s]));
    }
    let render = |s: &[u16]| -> Obs { BTreeMap::from([("compaction-journal".to_string(), format!("{s:?}"))]) };
    let old = render(&segs);
    let s = rng.below(1023) as u16;
    segs.push(s);
    let new = render(&segs);
    arm(&store);
    let r = b.record_segment(s);
    let mon = disarm().ok_or("monitor lost")?;
    r.map_err(|e| format!("monitored record_segment failed: {e}"))?;
    hist.push(json!(["record_segment (monitored)", s]));
    Ok(Recorded { kind: Kind::JournalRecord, history: Value::Array(hist), old, new, points: mon.points, calls: mon.calls, sub: PathBuf::from("journal") })
}

fn recover_journal(store: &Path) -> Result<Obs, String> {
    let loaded = ExtractorCompactorBackup::load(store).map_err(|e| e.to_string())?;
    let segs: Vec<u16> = loaded.map(|b| b.segments().to_vec()).unwrap_or_default();
    Ok(BTreeMap::from([("compaction-journal".to_string(), format!("{segs:?}"))]))
}

fn copy_dir(from: &Path, to: &Path) -> std::io::Result<()> {
    std::fs::create_dir_all(to)?;
    for e in std::fs::read_dir(from)? {
        let e = e?;
        let p = e.path();
        let t = to.join(e.file_name());
        if p.is_dir() {
            copy_dir(&p, &t)?;
        } else {
            std::fs::copy(&p, &t)?;
        }
    }
    Ok(())
}

/// What a fresh instance sees on a copy of `store` (recovery may delete stale files, so never run it in place).
fn observe_copy(store: &Path, f: impl FnOnce(&Path) -> Result<Obs, String>) -> Result<Obs, String> {
    let base = if Path::new("/dev/shm").is_dir() { "/dev/shm" } else { "/tmp" };
    let td = tempfile::Builder::new().prefix("vh-c06-pre-").tempdir_in(base).map_err(|e| e.to_string())?;
    let copy = td.path().join("s");
    copy_dir(store, &copy).map_err(|e| e.to_string())?;
    f(&copy)
}

// ------------------------------------------------------------------ crash-state derivation

#[derive(Clone)]
struct CrashState {
    point_label: String,
    point_class: String,
    /// "as-is" | "prefix" | "zeros" | "stale" | "empty"
    variant: &'static str,
    variant_detail: String,
    files: BTreeMap<PathBuf, Arc<Vec<u8>>>,
    /// true when taken strictly inside the routine (not the initial or final point)
    inside: bool,
}

fn prefixes(len: usize, thorough: bool) -> Vec<usize> {
    let mut v = BTreeSet::new();
    if len == 0 {
        return vec![];
    }
    v.insert(0);
    v.insert(1.min(len - 1));
    v.insert(len - 1);
    if thorough {
        let mut p = 512;
        while p < len {
            v.insert(p);
            p += 512;
        }
    } else {
        v.insert((len / 2) & !511);
        v.insert((len - 1) & !511);
        if len > 4096 {
            v.insert(4096);
        }
    }
    v.into_iter().filter(|&p| p < len).collect()
}

fn derive_states(points: &[CrashPoint], thorough: bool) -> Vec<CrashState> {
    let mut out = Vec::new();
    let mut seen: BTreeSet<u64> = BTreeSet::new();
    let n = points.len();
    for (i, p) in points.iter().enumerate() {
        let base: BTreeMap<PathBuf, Arc<Vec<u8>>> = p.files.iter().map(|(k, v)| (k.clone(), Arc::clone(&v.content))).collect();
        let inside = i > 0 && i + 1 < n;
        let mut push = |variant: &'static str, detail: String, files: BTreeMap<PathBuf, Arc<Vec<u8>>>| {
            let h = files.iter().fold(0u64, |h, (k, v)| mix64(h, mix64(fnv64(k.to_string_lossy().as_bytes()), fnv64(v))));
            if seen.insert(h) {
                out.push(CrashState { point_label: p.label.clone(), point_class: p.class.clone(), variant, variant_detail: detail, files, inside });
            }
        };
        push("as-is", String::new(), base.clone());
        let dirty: Vec<(&PathBuf, &FileState)> = p.files.iter().filter(|(_, f)| f.dirty).collect();
        for (path, fs) in &dirty {
            let r = role(path);
            let len = fs.content.len();
            for cut in prefixes(len, thorough) {
                let mut f = base.clone();
                f.insert((*path).clone(), Arc::new(fs.content[..cut].to_vec()));
                push("prefix", format!("{r} cut to {cut} of {len} bytes"), f);
            }
            if len > 0 {
                let mut f = base.clone();
                f.insert((*path).clone(), Arc::new(vec![0u8; len]));
                push("zeros", format!("{r} all {len} bytes zero"), f);
            }
            match &fs.durable {
                Some(d) if **d != *fs.content => {
                    let mut f = base.clone();
                    f.insert((*path).clone(), Arc::clone(d));
                    push("stale", format!("{r} back to its last synced content ({} bytes)", d.len()), f);
                    // stale bytes under the new length (size update reached the disk, data did not)
                    if d.len() < len {
                        let mut mixed = d.to_vec();
                        mixed.resize(len, 0);
                        let mut f = base.clone();
                        f.insert((*path).clone(), Arc::new(mixed));
                        push("stale", format!("{r} old bytes padded with zeros to the new length {len}"), f);
                    }
                }
                _ => {}
            }
        }
        // all dirty files lose their un-synced data at once
        if dirty.len() > 1 {
            let mut f = base.clone();
            for (path, fs) in &dirty {
                f.insert((*path).clone(), fs.durable.clone().unwrap_or_else(|| Arc::new(Vec::new())));
            }
            push("stale", "every dirty file back to its last synced content".to_string(), f);
        }
    }
    out
}

static SCRATCH_SEQ: AtomicU64 = AtomicU64::new(0);

fn materialise(state: &CrashState, sub: &Path) -> Result<tempfile::TempDir, String> {
    let base = if Path::new("/dev/shm").is_dir() { "/dev/shm" } else { "/tmp" };
    let _ = SCRATCH_SEQ.fetch_add(1, Ordering::Relaxed);
    let td = tempfile::Builder::new().prefix("vh-c06-").tempdir_in(base).map_err(|e| e.to_string())?;
    let store = td.path().join(sub);
    std::fs::create_dir_all(&store).map_err(|e| e.to_string())?;
    for (rel, content) in &state.files {
        let p = store.join(rel);
        if let Some(parent) = p.parent() {
            std::fs::create_dir_all(parent).map_err(|e| e.to_string())?;
        }
        std::fs::write(&p, &***content).map_err(|e| e.to_string())?;
    }
    Ok(td)
}

fn parse_universe16(history: &Value) -> Vec<[u8; 16]> {
    history
        .as_array()
        .and_then(|a| a.iter().find_map(|v| v.get("universe")))
        .and_then(Value::as_array)
        .map(|a| {
            a.iter()
                .filter_map(|s| {
                    let b = hex::decode(s.as_str()?).ok()?;
                    <[u8; 16]>::try_from(b.as_slice()).ok()
                })
                .collect()
        })
        .unwrap_or_default()
}

fn recover(rec: &Recorded, store: &Path) -> Result<Obs, String> {
    match rec.kind {
        Kind::IndexSaveAll | Kind::IndexFlushBucket => recover_index(store, &parse_universe16(&rec.history)),
        Kind::ResidencySave => recover_residency(store, &parse_universe16(&rec.history)),
        Kind::LruCheckpoint | Kind::LruShutdown => {
            let cap = rec.history.as_array().and_then(|a| a.iter().find_map(|v| v.get("capacity"))).and_then(Value::as_u64).unwrap_or(4) as u32;
            recover_lru(store, cap)
        }
        Kind::DiskCachePut => recover_diskcache(store, false),
        Kind::DiskCachePutSubdirs => recover_diskcache(store, true),
        Kind::JournalRecord => recover_journal(store),
    }
}

fn judge_state(ctx: &Ctx, rec: &Recorded, st: &CrashState) {
    let td = match materialise(st, &rec.sub) {
        Ok(t) => t,
        Err(e) => {
            ctx.inconclusive(&format!("could not materialise a crash state: {e}"));
            return;
        }
    };
    let store = td.path().join(&rec.sub);
    let got = std::panic::catch_unwind(std::panic::AssertUnwindSafe(|| recover(rec, &store)));
    let object = rec.kind.object();
    let routine = rec.kind.name();
    let detail = |extra: Value| {
        json!({
            "routine": routine,
            "history": rec.history,
            "crash_point": st.point_label,
            "variant": st.variant,
            "variant_detail": st.variant_detail,
            "files": st.files.iter().map(|(k, v)| json!({"path": k, "len": v.len(), "fnv": format!("{:016x}", fnv64(v))})).collect::<Vec<_>>(),
            "old": rec.old,
            "new": rec.new,
            "observed": extra,
        })
    };
    let h = st.files.iter().fold(fnv64(routine.as_bytes()), |h, (k, v)| mix64(h, mix64(fnv64(k.to_string_lossy().as_bytes()), fnv64(v))));
    if st.inside {
        ctx.eval_nontrivial(h);
    } else {
        ctx.eval();
    }
    ctx.obs(&format!("recoveries.{routine}"), 1);
    ctx.obs(&format!("variant.{}", st.variant), 1);
    match got {
        Err(p) => {
            let msg = vh::monitor::watchdog::panic_message(&p);
            ctx.violation(
                &format!("C06|{object}|{routine}|crash-at={}|variant={}|outcome=recovery-panics", st.point_class, st.variant),
                &format!("reopening after a simulated crash panicked: {msg}"),
                detail(json!({"panic": msg})),
            );
        }
        Ok(Err(e)) if rec.kind == Kind::JournalRecord => {
            ctx.obs("journal.reopen-error", 1);
            let _ = e;
        }
        Ok(Err(e)) => {
            ctx.obs("outcome.reopen-error", 1);
            ctx.violation(
                &format!("C06|{object}|{routine}|crash-at={}|variant={}|outcome=reopen-fails", st.point_class, st.variant),
                &format!("reopening after a simulated crash failed: {e}"),
                detail(json!({"error": e})),
            );
        }
        Ok(Ok(obs)) => {
            let mut bad = Vec::new();
            let mut saw_old = false;
            let mut saw_new = false;
            let names: BTreeSet<&String> = rec.old.keys().chain(rec.new.keys()).chain(obs.keys()).collect();
            for name in names {
                let empty = String::new();
                let o = rec.old.get(name).unwrap_or(&empty);
                let n = rec.new.get(name).unwrap_or(&empty);
                let g = obs.get(name).unwrap_or(&empty);
                if g == n && n != o {
                    saw_new = true;
                } else if g == o && n != o {
                    saw_old = true;
                }
                if g != o && g != n {
                    bad.push(json!({"object": name, "old": o, "new": n, "got": g}));
                }
            }
            if saw_old {
                ctx.obs("outcome.old-state", 1);
            }
            if saw_new {
                ctx.obs("outcome.new-state", 1);
            }
            if !bad.is_empty() && rec.kind == Kind::JournalRecord {
                // the compaction journal is not one of the objects the statement names:
                // recorded as an observation only
                ctx.obs(&format!("journal.neither-old-nor-new.{}", st.variant), 1);
            } else if !bad.is_empty() {
                ctx.violation(
                    &format!("C06|{object}|{routine}|crash-at={}|variant={}|outcome=neither-old-nor-new", st.point_class, st.variant),
                    "after a simulated crash a fresh instance shows an object that is neither its complete old nor its complete new state",
                    detail(json!({"mismatches": bad})),
                );
            }
        }
    }
}

/// Probe mode (child of the strace cross-check): run a few histories of every kind and print
/// what the interposer counted inside the armed windows.
fn probe_main(seed: u64) {
    let kinds = [Kind::IndexSaveAll, Kind::IndexFlushBucket, Kind::ResidencySave, Kind::LruCheckpoint, Kind::LruShutdown, Kind::DiskCachePut, Kind::DiskCachePutSubdirs, Kind::JournalRecord];
    let mut total: BTreeMap<String, u64> = BTreeMap::new();
    for h in 0..(kinds.len() as u64 * 3) {
        let kind = kinds[(h % kinds.len() as u64) as usize];
        let mut rng = Rng::derive(seed, mix64(h, 0xc06));
        let dir = tempfile::Builder::new().prefix("vh-c06-probe-").tempdir().expect("tempdir");
        if let Ok(rec) = run_scenario(kind, &mut rng, dir.path()) {
            for (k, v) in rec.calls {
                *total.entry(k).or_insert(0) += v;
            }
        }
    }
    println!("PROBE {}", json!(total));
}

fn run_scenario(kind: Kind, rng: &mut Rng, dir: &Path) -> Result<Recorded, String> {
    match kind {
        Kind::IndexSaveAll => scenario_index(rng, dir, false),
        Kind::IndexFlushBucket => scenario_index(rng, dir, true),
        Kind::ResidencySave => scenario_residency(rng, dir),
        Kind::LruCheckpoint => scenario_lru(rng, dir, false),
        Kind::LruShutdown => scenario_lru(rng, dir, true),
        Kind::DiskCachePut => scenario_diskcache(rng, dir, false),
        Kind::DiskCachePutSubdirs => scenario_diskcache(rng, dir, true),
        Kind::JournalRecord => scenario_journal(rng, dir),
    }
}

/// Thorough tier: run the probe under strace and compare the mutating syscalls strace saw on
/// store paths inside the armed windows with what the interposer counted. A syscall class the
/// interposer does not cover, or a count mismatch, makes the run inconclusive (never a violation).
fn strace_crosscheck(ctx: &Ctx) {
    let exe = match std::env::current_exe() {
        Ok(e) => e,
        Err(e) => {
            ctx.inconclusive(&format!("current_exe: {e}"));
            return;
        }
    };
    let td = tempfile::tempdir().expect("tempdir");
    let log = td.path().join("strace.log");
    let out = std::process::Command::new("strace")
        .args(["-f", "-qq", "-y", "-o"])
        .arg(&log)
        .args(["-e", "trace=open,openat,creat,write,pwrite64,writev,pwritev,pwritev2,truncate,ftruncate,fallocate,fsync,fdatasync,sync_file_range,rename,renameat,renameat2,unlink,unlinkat,link,linkat,symlink,symlinkat,copy_file_range,sendfile,stat,newfstatat,statx"])
        .arg(&exe)
        .arg("--probe")
        .arg(ctx.seed.to_string())
        .env("VH_C06_PROBE", "1")
        .output();
    let out = match out {
        Ok(o) => o,
        Err(e) => {
            ctx.inconclusive(&format!("strace could not be started: {e}"));
            return;
        }
    };
    let stdout = String::from_utf8_lossy(&out.stdout);
    let Some(line) = stdout.lines().find_map(|l| l.strip_prefix("PROBE ")) else {
        ctx.inconclusive("strace probe produced no PROBE line");
        return;
    };
    let interposed: BTreeMap<String, u64> = serde_json::from_str(line).unwrap_or_default();
    let Ok(text) = std::fs::read_to_string(&log) else {
        ctx.inconclusive("strace log unreadable");
        return;
    };
    let mut inside = false;
    let mut seen: BTreeMap<String, u64> = BTreeMap::new();
    for l in text.lines() {
        // "<pid> syscall(args) = ret"
        let rest = l.split_once(' ').map_or(l, |x| x.1).trim_start();
        if rest.contains("/VH_C06_MARK/begin") {
            inside = true;
            continue;
        }
        if rest.contains("/VH_C06_MARK/end") {
            inside = false;
            continue;
        }
        if !inside || !rest.contains("vh-c06-probe-") {
            continue;
        }
        let Some(name) = rest.split('(').next() else { continue };
        // failed calls are counted on both sides (the interposer counts a call before forwarding it)
        let class = match name {
            "open" | "openat" | "creat" => {
                if rest.contains("O_CREAT") || rest.contains("O_TRUNC") || name == "creat" { "open" } else { continue }
            }
            "write" => "write",
            "pwrite64" => "pwrite",
            "writev" => "writev",
            "ftruncate" => "ftruncate",
            "fsync" => "fsync",
            "fdatasync" => "fdatasync",
            "rename" | "renameat" | "renameat2" => "rename",
            "unlink" => "unlink",
            "unlinkat" => {
                if rest.contains("AT_REMOVEDIR") { continue } else { "unlink" }
            }
            "stat" | "newfstatat" | "statx" => continue,
            other => other, // not covered by the interposer
        };
        *seen.entry(class.to_string()).or_insert(0) += 1;
    }
    ctx.set_extra("strace_crosscheck", json!({"strace": seen, "interposer": interposed}));
    if seen.is_empty() {
        ctx.inconclusive("strace saw no mutating syscall on the probe directories");
        return;
    }
    if seen != interposed {
        ctx.inconclusive(&format!("mutating syscalls on the store seen by strace {seen:?} differ from those seen by the interposer {interposed:?}"));
    } else {
        ctx.obs("strace_crosscheck.syscalls_matched", seen.values().sum());
    }
}

fn main() {
    // the index loader prints debug lines for bucket 0 on stderr: keep the check's output readable
    if std::env::var_os("VH_KEEP_STDERR").is_none() {
        if let Ok(f) = std::fs::OpenOptions::new().write(true).open("/dev/null") {
            use std::os::unix::io::AsRawFd;
            #[allow(unsafe_code)]
            unsafe {
                libc::dup2(f.as_raw_fd(), 2);
            }
        }
    }
    let argv: Vec<String> = std::env::args().collect();
    if let Some(i) = argv.iter().position(|a| a == "--probe") {
        probe_main(argv.get(i + 1).and_then(|s| s.parse().ok()).unwrap_or(1));
        return;
    }
    let ctx = Ctx::init("C06", "fault_enumeration");
    ctx.set_rule("short operation histories lead to a completed save (old state), further operations, and a second save that runs under I/O interposition; every intercepted open(create/trunc)/write/pwrite/writev/ftruncate/fsync/fdatasync/rename/unlink on the store directory is a crash point; per point the as-is directory plus, for every file dirty since its last fsync, prefixes (0, 1, 512-byte boundaries, len-1), zeros, and last-synced (stale) content; each derived directory is opened by a fresh instance; non-trivial = crash point strictly inside the routine; distinct by hash of the derived directory content");
    ctx.assume("renames and unlinks are atomic, ordered and durable (directory-entry durability is not modelled); un-synced file content may be lost as a prefix, zeroed, or revert to the last synced content");
    ctx.assume("only process death / loss of un-synced data is simulated, not torn sectors inside fsynced files");

    // the interposer must really be in the call path
    let td = tempfile::tempdir().expect("tempdir");
    match interpose::selftest(td.path()) {
        Ok(calls) => ctx.set_extra("interposer_selftest_calls", json!(calls)),
        Err(e) => {
            ctx.inconclusive(&format!("I/O interposition self-test failed: {e}"));
            ctx.finish();
        }
    }

    let histories: u64 = ctx.pick(1200, 24_000);
    let thorough = !ctx.quick();
    let kinds = [Kind::IndexSaveAll, Kind::IndexFlushBucket, Kind::ResidencySave, Kind::LruCheckpoint, Kind::LruShutdown, Kind::DiskCachePut, Kind::DiskCachePutSubdirs, Kind::JournalRecord];
    let deadline = std::time::Instant::now() + std::time::Duration::from_secs(ctx.pick(50, 540));
    let mut all_calls: BTreeMap<String, u64> = BTreeMap::new();
    let mut classes: BTreeMap<String, u64> = BTreeMap::new();

    for h in 0..histories {
        if std::time::Instant::now() > deadline {
            ctx.obs("stopped_by_time_budget", 1);
            break;
        }
        let kind = kinds[(h % kinds.len() as u64) as usize];
        let mut rng = ctx.rng(mix64(h, 0xc06));
        let dir = tempfile::tempdir().expect("tempdir");
        let rec = match run_scenario(kind, &mut rng, dir.path()) {
            Ok(r) => r,
            Err(e) => {
                ctx.inconclusive(&format!("scenario {} could not run: {e}", kind.name()));
                continue;
            }
        };
        ctx.obs(&format!("histories.{}", kind.name()), 1);
        for (k, v) in &rec.calls {
            *all_calls.entry(format!("{}:{k}", kind.name())).or_insert(0) += v;
        }
        for p in &rec.points {
            *classes.entry(format!("{}:{}", kind.name(), p.class)).or_insert(0) += 1;
        }
        if rec.points.len() < 2 {
            // nothing to persist in this history (e.g. no pending updates): the routine did no I/O
            ctx.obs(&format!("histories_without_io.{}", kind.name()), 1);
            continue;
        }
        ctx.obs(&format!("histories_with_io.{}", kind.name()), 1);
        ctx.obs("crash_points", rec.points.len() as u64);
        let states = derive_states(&rec.points, thorough);
        ctx.obs("derived_states", states.len() as u64);
        if ctx.want_sample() {
            ctx.sample(json!({
                "routine": kind.name(),
                "history": rec.history,
                "crash_points": rec.points.iter().map(|p| p.label.clone()).collect::<Vec<_>>(),
                "derived_states": states.len(),
            }));
        }
        std::thread::scope(|s| {
            let chunk = states.len().div_ceil(16).max(1);
            for part in states.chunks(chunk) {
                let ctx = &ctx;
                let rec = &rec;
                s.spawn(move || {
                    for st in part {
                        judge_state(ctx, rec, st);
                    }
                });
            }
        });
    }
    for k in kinds {
        if ctx.get_obs(&format!("histories.{}", k.name())) > 0 && ctx.get_obs(&format!("histories_with_io.{}", k.name())) == 0 {
            ctx.inconclusive(&format!("routine {} never produced intercepted I/O (interposer missed its calls?)", k.name()));
        }
    }
    if thorough || std::env::var_os("VH_C06_STRACE").is_some() {
        strace_crosscheck(&ctx);
    }
    ctx.set_extra("intercepted_calls", json!(all_calls));
    ctx.set_extra("crash_point_classes", json!(classes));
    ctx.finish();
}
