//! C06 — a crash at any point of a save leaves old or new state.
//!
//! The save routines of the repository run for real while this executable's
//! interposed libc entry points (interpose.rs) observe every mutating I/O call
//! on the store directory. Each call is a crash point; from the directory
//! model at that point (content + "dirty since last fsync" per file) the
//! harness derives the states a process death could leave (dirty files
//! replaced by prefixes, zeros, or their last synced content), materialises
//! each one and opens a *fresh* instance on it. Oracle: the fresh instance
//! loads, and every object equals its complete old or its complete new state.
//!
//! Round 4: in the kinds `*.save-after-interrupted-save` a history continues FROM a
//! crash state: the save before the monitored one dies at one of its derived
//! states (mostly one that leaves its temporary file behind), a fresh instance
//! loads that directory, works, and its next save is monitored and judged.

mod interpose;

use bytes::Bytes;
use cascette_cache::config::DiskCacheConfig;
use cascette_cache::key::CacheKey;
use cascette_cache::traits::AsyncCache;
use cascette_cache::DiskCache;
use cascette_client_storage::container::{AccessMode, Container, DynamicContainer, ResidencyContainer};
use cascette_client_storage::index::{IndexManager, UpdateStatus};
use cascette_client_storage::kmt::key_state::ResidencyDb;
use cascette_client_storage::lru::LruManager;
use cascette_client_storage::storage::compaction::ExtractorCompactorBackup;
use cascette_crypto::EncodingKey;
use interpose::{CrashPoint, FileState};
use serde_json::{Value, json};
use std::collections::{BTreeMap, BTreeSet};
use std::path::{Path, PathBuf};
use std::sync::Arc;
use std::sync::atomic::{AtomicU64, Ordering};
use vh::{Ctx, Rng, fnv64, mix64};

#[derive(Debug, Clone, PartialEq, Eq, Hash)]
struct SKey(String);
impl CacheKey for SKey {
    fn as_cache_key(&self) -> &str {
        &self.0
    }
}

/// What a fresh instance shows: object name -> rendered state.
type Obs = BTreeMap<String, String>;

fn rt() -> tokio::runtime::Runtime {
    tokio::runtime::Builder::new_current_thread().enable_all().build().expect("runtime")
}

fn role(p: &Path) -> &'static str {
    let name = p.file_name().and_then(|n| n.to_str()).unwrap_or("");
    if name.ends_with(".tmp") {
        "temp"
    } else if name == ".residency" {
        "residency-token"
    } else if name.starts_with("key_state") {
        "residency-file"
    } else if name.starts_with("data.") {
        "archive-data-file"
    } else if name.ends_with(".idx") {
        "index-file"
    } else if name.ends_with(".lru") {
        "lru-generation-file"
    } else if name.contains("residency") {
        "residency-file"
    } else if name.contains("backup") || name.contains("compact") || name == "extract_bu" {
        "journal"
    } else {
        "cache-entry-file"
    }
}

fn mark(what: &str) {
    // recognisable no-op syscall for the strace cross-check (thorough tier)
    if std::env::var_os("VH_C06_PROBE").is_some() {
        let _ = std::fs::metadata(format!("/VH_C06_MARK/{what}"));
    }
}

fn arm(store: &Path) {
    mark("begin");
    interpose::arm(store, role);
}

fn disarm() -> Option<interpose::Monitor> {
    let m = interpose::disarm();
    mark("end");
    m
}

// ------------------------------------------------------------------ scenarios

#[derive(Clone, Copy, Debug, PartialEq, Eq)]
enum Kind {
    IndexSaveAll,
    IndexFlushBucket,
    ResidencySave,
    LruCheckpoint,
    LruShutdown,
    DiskCachePut,
    DiskCachePutSubdirs,
    JournalRecord,
    // --- coverage-driven extension: the other entry points that run the same save routines, and the branches of the
    // monitored ones that never ran under the monitor
    IndexFlushAll,
    IndexMutatorOnFullSection,
    ContainerWrite,
    ContainerRemove,
    ResidencyContainerFlush,
    LruAfterReload,
    LruRunCycle,
    DiskCacheRemove,
    DiskCacheClear,
    DiskCachePutReopened,
    JournalSave,
    // --- round 4: the save that follows an interrupted save (the directory still holds what the crash left)
    IndexAfterInterruptedSave,
    ResidencyAfterInterruptedSave,
}

const ALL_KINDS: [Kind; 21] = [
    Kind::IndexSaveAll,
    Kind::IndexFlushBucket,
    Kind::ResidencySave,
    Kind::LruCheckpoint,
    Kind::LruShutdown,
    Kind::DiskCachePut,
    Kind::DiskCachePutSubdirs,
    Kind::JournalRecord,
    Kind::IndexFlushAll,
    Kind::IndexMutatorOnFullSection,
    Kind::ContainerWrite,
    Kind::ContainerRemove,
    Kind::ResidencyContainerFlush,
    Kind::LruAfterReload,
    Kind::LruRunCycle,
    Kind::DiskCacheRemove,
    Kind::DiskCacheClear,
    Kind::DiskCachePutReopened,
    Kind::JournalSave,
    Kind::IndexAfterInterruptedSave,
    Kind::ResidencyAfterInterruptedSave,
];

impl Kind {
    fn name(self) -> &'static str {
        match self {
            Kind::IndexSaveAll => "index.save_all",
            Kind::IndexFlushBucket => "index.flush_updates_for_bucket",
            Kind::ResidencySave => "residency.save",
            Kind::LruCheckpoint => "lru.checkpoint_to_disk",
            Kind::LruShutdown => "lru.shutdown",
            Kind::DiskCachePut => "diskcache.put",
            Kind::DiskCachePutSubdirs => "diskcache.put(subdirs)",
            Kind::JournalRecord => "compaction-journal.record_segment",
            Kind::IndexFlushAll => "index.flush_all_updates",
            Kind::IndexMutatorOnFullSection => "index.mutator-on-full-section(flush+retry)",
            Kind::ContainerWrite => "dynamic-container.write",
            Kind::ContainerRemove => "dynamic-container.remove",
            Kind::ResidencyContainerFlush => "residency-container.flush",
            Kind::LruAfterReload => "lru.save-after-reload",
            Kind::LruRunCycle => "lru.run_cycle",
            Kind::DiskCacheRemove => "diskcache.remove",
            Kind::DiskCacheClear => "diskcache.clear",
            Kind::DiskCachePutReopened => "diskcache.put(reopened)",
            Kind::JournalSave => "compaction-journal.save",
            Kind::IndexAfterInterruptedSave => "index.save-after-interrupted-save",
            Kind::ResidencyAfterInterruptedSave => "residency.save-after-interrupted-save",
        }
    }
    fn is_journal(self) -> bool {
        matches!(self, Kind::JournalRecord | Kind::JournalSave)
    }
    fn object(self) -> &'static str {
        match self {
            Kind::IndexSaveAll | Kind::IndexFlushBucket | Kind::IndexFlushAll | Kind::IndexMutatorOnFullSection | Kind::ContainerWrite | Kind::ContainerRemove | Kind::IndexAfterInterruptedSave => "index-bucket",
            Kind::ResidencySave | Kind::ResidencyContainerFlush | Kind::ResidencyAfterInterruptedSave => "residency-db",
            Kind::LruCheckpoint | Kind::LruShutdown | Kind::LruAfterReload | Kind::LruRunCycle => "lru-checkpoint",
            Kind::DiskCachePut | Kind::DiskCachePutSubdirs | Kind::DiskCacheRemove | Kind::DiskCacheClear | Kind::DiskCachePutReopened => "disk-cache-entry",
            Kind::JournalRecord | Kind::JournalSave => "compaction-journal",
        }
    }
}

struct Recorded {
    kind: Kind,
    /// description of the history for samples / replay
    history: Value,
    old: Obs,
    new: Obs,
    points: Vec<CrashPoint>,
    calls: BTreeMap<String, u64>,
    /// relative path of the store inside the scenario dir
    sub: PathBuf,
}

fn ekey_in_bucket(rng: &mut Rng, bucket: u8) -> [u8; 16] {
    // bucket = nibble-fold of XOR of first 9 bytes: fix byte 8 so that the fold hits `bucket`
    loop {
        let mut k = rng.array::<16>();
        let x = k[..8].iter().fold(0u8, |a, b| a ^ b);
        // choose k[8] so that ((x^k8)&0xf) ^ ((x^k8)>>4) == bucket: take high nibble 0 => low nibble = bucket
        k[8] = x ^ bucket;
        if k[..9] != [0u8; 9] {
            return k;
        }
    }
}

fn render_index(m: &IndexManager, universe: &[[u8; 16]]) -> Obs {
    let mut per_bucket: BTreeMap<u8, Vec<String>> = BTreeMap::new();
    for k in universe {
        let ek = EncodingKey::from_bytes(*k);
        let b = IndexManager::bucket_for_key(&ek);
        let e = per_bucket.entry(b).or_default();
        if let Some(ent) = m.lookup(&ek) {
            e.push(format!("{}=>{}:{}:{}", hex::encode(&k[..9]), ent.archive_id(), ent.archive_offset(), ent.size));
        }
    }
    per_bucket.into_iter().map(|(b, v)| (format!("bucket-{b:02x}"), v.join(","))).collect()
}

fn scenario_index(rng: &mut Rng, dir: &Path, flush: bool) -> Result<Recorded, String> {
    let store = dir.join("idx");
    std::fs::create_dir_all(&store).map_err(|e| e.to_string())?;
    let buckets: Vec<u8> = if rng.bool() { vec![rng.below(16) as u8] } else { vec![rng.below(16) as u8, rng.below(16) as u8] };
    let universe: Vec<[u8; 16]> = (0..rng.urange(3, 10)).map(|i| ekey_in_bucket(rng, buckets[i % buckets.len()])).collect();
    let mut m = IndexManager::new(&store);
    let mut hist = Vec::new();
    let step = |m: &mut IndexManager, rng: &mut Rng, hist: &mut Vec<Value>| {
        let k = *rng.pick(&universe);
        let ek = EncodingKey::from_bytes(k);
        match rng.below(5) {
            0..=2 => {
                let (a, o, s) = (rng.below(1024) as u16, rng.below(1 << 30) as u32, rng.range(1, 100_000) as u32);
                let _ = m.add_entry(&ek, a, o, s);
                hist.push(json!(["add", hex::encode(&k[..9]), a, o, s]));
            }
            3 => {
                let r = m.remove_entry(&ek);
                hist.push(json!(["remove", hex::encode(&k[..9]), r]));
            }
            _ => {
                let b = IndexManager::bucket_for_key(&ek);
                let _ = m.flush_updates_for_bucket(b);
                hist.push(json!(["flush_bucket", b]));
            }
        }
    };
    for _ in 0..rng.urange(1, 6) {
        step(&mut m, rng, &mut hist);
    }
    // one history in three monitors the very FIRST save (no earlier file on disk: old state = empty store)
    if rng.chance(2, 3) {
        m.save_all().map_err(|e| format!("first save_all failed: {e}"))?;
        hist.push(json!(["save_all (completed)"]));
    } else {
        hist.push(json!(["(no earlier save: the monitored save is the first one)"]));
    }
    for _ in 0..rng.urange(1, 6) {
        step(&mut m, rng, &mut hist);
    }
    // old state = what a fresh instance sees right before the monitored save
    // (flush_updates_for_bucket persists on its own, so this can be later than the explicit save above)
    let old = observe_copy(&store, |d| recover_index(d, &universe))?;
    let flush_bucket = buckets[0];
    arm(&store);
    let r = if flush { m.flush_updates_for_bucket(flush_bucket) } else { m.save_all() };
    let mon = disarm().ok_or("monitor lost")?;
    r.map_err(|e| format!("monitored save failed: {e}"))?;
    // new state: the in-memory state for the buckets the routine persists
    let mut new = render_index(&m, &universe);
    if flush {
        // only the flushed bucket is written; the others keep their old on-disk state
        let name = format!("bucket-{flush_bucket:02x}");
        for (k, v) in &old {
            if *k != name {
                new.insert(k.clone(), v.clone());
            }
        }
        new.retain(|k, _| *k == name || old.contains_key(k));
    }
    hist.push(json!([if flush { "flush_updates_for_bucket (monitored)" } else { "save_all (monitored)" }, flush_bucket]));
    // recovery needs the universe: stash it in the history
    hist.push(json!({"universe": universe.iter().map(hex::encode).collect::<Vec<_>>()}));
    Ok(Recorded { kind: if flush { Kind::IndexFlushBucket } else { Kind::IndexSaveAll }, history: Value::Array(hist), old, new, points: mon.points, calls: mon.calls, sub: PathBuf::from("idx") })
}

fn recover_index(store: &Path, universe: &[[u8; 16]]) -> Result<Obs, String> {
    let mut m = IndexManager::new(store);
    rt().block_on(m.load_all()).map_err(|e| e.to_string())?;
    Ok(render_index(&m, universe))
}

fn render_residency(db: &ResidencyDb, universe: &[[u8; 16]]) -> Obs {
    let v: Vec<String> = universe.iter().filter(|k| db.is_resident(k)).map(|k| hex::encode(&k[..6])).collect();
    BTreeMap::from([("residency-db".to_string(), v.join(","))])
}

fn scenario_residency(rng: &mut Rng, dir: &Path) -> Result<Recorded, String> {
    let store = dir.join("res");
    std::fs::create_dir_all(&store).map_err(|e| e.to_string())?;
    let path = store.join("residency.db");
    // one history in five has a population that needs several pages per bucket (more than 25 keys in a bucket)
    let big = rng.chance(1, 5);
    let universe: Vec<[u8; 16]> = (0..if big { rng.urange(450, 900) } else { rng.urange(3, 40) }).map(|_| rng.array::<16>()).collect();
    let mut db = ResidencyDb::new(path);
    let mut hist = Vec::new();
    if big {
        for k in &universe {
            if rng.chance(4, 5) {
                db.mark_resident(k);
            }
        }
        hist.push(json!(["(population)", universe.len()]));
    }
    let step = |db: &mut ResidencyDb, rng: &mut Rng, hist: &mut Vec<Value>| {
        let k = *rng.pick(&universe);
        match rng.below(5) {
            0 | 1 => {
                db.mark_resident(&k);
                hist.push(json!(["mark_resident", hex::encode(&k[..6])]));
            }
            2 => {
                db.mark_non_resident(&k);
                hist.push(json!(["mark_non_resident", hex::encode(&k[..6])]));
            }
            3 => {
                db.mark_span_non_resident(&k, rng.below(4096) as i32, rng.range(1, 4096) as i32);
                hist.push(json!(["mark_span_non_resident", hex::encode(&k[..6])]));
            }
            _ => {
                db.delete_keys(&[k]);
                hist.push(json!(["delete_keys", hex::encode(&k[..6])]));
            }
        }
    };
    for _ in 0..rng.urange(1, 30) {
        step(&mut db, rng, &mut hist);
    }
    if rng.chance(2, 3) {
        db.save().map_err(|e| format!("first save failed: {e}"))?;
        hist.push(json!(["save (completed)"]));
    } else {
        hist.push(json!(["(no earlier save: the monitored save is the first one)"]));
    }
    for _ in 0..rng.urange(1, 30) {
        step(&mut db, rng, &mut hist);
    }
    let new = render_residency(&db, &universe);
    let old = observe_copy(&store, |d| recover_residency(d, &universe))?;
    arm(&store);
    let r = db.save();
    let mon = disarm().ok_or("monitor lost")?;
    r.map_err(|e| format!("monitored save failed: {e}"))?;
    hist.push(json!(["save (monitored)"]));
    hist.push(json!({"universe": universe.iter().map(hex::encode).collect::<Vec<_>>()}));
    Ok(Recorded { kind: Kind::ResidencySave, history: Value::Array(hist), old, new, points: mon.points, calls: mon.calls, sub: PathBuf::from("res") })
}

fn recover_residency(store: &Path, universe: &[[u8; 16]]) -> Result<Obs, String> {
    let db = ResidencyDb::load(&store.join("residency.db")).map_err(|e| e.to_string())?;
    Ok(render_residency(&db, universe))
}

fn render_lru(l: &LruManager) -> Obs {
    let mut keys = Vec::new();
    l.for_each_entry(|k| keys.push(hex::encode(&k[..4])));
    BTreeMap::from([("lru-checkpoint".to_string(), keys.join(">"))])
}

fn scenario_lru(rng: &mut Rng, dir: &Path, shutdown: bool) -> Result<Recorded, String> {
    let store = dir.join("lru");
    std::fs::create_dir_all(&store).map_err(|e| e.to_string())?;
    let cap = rng.urange(2, 12) as u32;
    let universe: Vec<[u8; 9]> = (0..cap as usize + 3).map(|_| { let mut k = rng.array::<9>(); k[0] |= 1; k }).collect();
    let mut l = LruManager::new(cap, store.clone());
    let mut hist = vec![json!(["new", cap])];
    let runtime = rt();
    let step = |l: &mut LruManager, rng: &mut Rng, hist: &mut Vec<Value>| {
        let k = *rng.pick(&universe);
        match rng.below(5) {
            0..=2 => {
                l.touch(&k);
                hist.push(json!(["touch", hex::encode(&k[..4])]));
            }
            3 => {
                l.remove(&k);
                hist.push(json!(["remove", hex::encode(&k[..4])]));
            }
            _ => {
                l.evict_tail();
                hist.push(json!(["evict_tail"]));
            }
        }
    };
    for _ in 0..rng.urange(1, 12) {
        step(&mut l, rng, &mut hist);
    }
    // a completed checkpoint defines the old state (sometimes after a generation bump)
    if rng.bool() {
        l.bump_generation();
        hist.push(json!(["bump_generation"]));
    }
    if rng.chance(2, 3) {
        runtime.block_on(l.checkpoint_to_disk()).map_err(|e| format!("first checkpoint failed: {e}"))?;
        hist.push(json!(["checkpoint_to_disk (completed)"]));
    } else {
        hist.push(json!(["(no earlier checkpoint: the monitored one is the first)"]));
    }
    for _ in 0..rng.urange(1, 12) {
        step(&mut l, rng, &mut hist);
    }
    let new = render_lru(&l);
    let same_generation = !shutdown && rng.chance(1, 3);
    if !shutdown && !same_generation {
        l.bump_generation();
        hist.push(json!(["bump_generation"]));
    }
    let old = observe_copy(&store, |d| recover_lru(d, cap))?;
    arm(&store);
    let r = if shutdown { runtime.block_on(l.shutdown()) } else { runtime.block_on(l.checkpoint_to_disk()) };
    let mon = disarm().ok_or("monitor lost")?;
    r.map_err(|e| format!("monitored checkpoint failed: {e}"))?;
    hist.push(json!([if shutdown { "shutdown (monitored)" } else { "checkpoint_to_disk (monitored)" }]));
    hist.push(json!({"capacity": cap}));
    Ok(Recorded {
        kind: if shutdown { Kind::LruShutdown } else { Kind::LruCheckpoint },
        history: Value::Array(hist),
        old,
        new,
        points: mon.points,
        calls: mon.calls,
        sub: PathBuf::from("lru"),
    })
}

fn recover_lru(store: &Path, cap: u32) -> Result<Obs, String> {
    let mut l = LruManager::new(cap, store.to_path_buf());
    rt().block_on(l.run_cycle(0, 0)).map_err(|e| e.to_string())?;
    Ok(render_lru(&l))
}

fn disk_cfg(store: &Path, subdirs: bool) -> DiskCacheConfig {
    DiskCacheConfig::new(store).with_max_files(1000).with_subdirectories(subdirs, if subdirs { 2 } else { 0 })
}

/// Keys of the disk-cache scenarios: two that differ in the extension only, one below a sub-directory of its own.
const DC_KEYS: [&str; 5] = ["alpha", "beta.bin", "beta.txt", "gamma", "sub/inner.bin"];

/// What a fresh instance must show for a model of the cache: every entry, and a count of the entries on disk
/// (`size()` of an instance that has not indexed anything yet scans the directory) that is the number of entries it
/// then serves — whichever of them are old and new, leftover temporary files are not entries.
fn render_diskcache(m: &BTreeMap<&str, Vec<u8>>) -> Obs {
    let mut o: Obs = DC_KEYS.iter().map(|k| (format!("entry-{k}"), m.get(k).map_or("absent".to_string(), |v| format!("{}:{:016x}", v.len(), fnv64(v))))).collect();
    o.insert("entry-count".to_string(), "as many as entries served".to_string());
    o
}

fn scenario_diskcache(rng: &mut Rng, dir: &Path, subdirs: bool) -> Result<Recorded, String> {
    let store = dir.join("cache");
    std::fs::create_dir_all(&store).map_err(|e| e.to_string())?;
    let runtime = rt();
    let cache: DiskCache<SKey> = DiskCache::new(disk_cfg(&store, subdirs)).map_err(|e| e.to_string())?;
    let keys = DC_KEYS;
    let mut model: BTreeMap<&str, Vec<u8>> = BTreeMap::new();
    let mut hist = Vec::new();
    for _ in 0..rng.urange(0, 4) {
        let k = *rng.pick(&keys);
        let n = rng.size_biased(20_000);
        let v = rng.bytes(n);
        runtime.block_on(cache.put(SKey(k.to_string()), Bytes::from(v.clone()))).map_err(|e| e.to_string())?;
        hist.push(json!(["put", k, v.len()]));
        model.insert(k, v);
    }
    let render = render_diskcache;
    let old = observe_copy(&store, |d| recover_diskcache(d, subdirs))?;
    if old != render(&model) {
        return Err("disk cache: a fresh instance does not show the completed puts (judged by C10, not here)".to_string());
    }
    let k = *rng.pick(&keys);
    let n = rng.size_biased(40_000).max(1);
    let v = rng.bytes(n);
    model.insert(k, v.clone());
    let new = render(&model);
    arm(&store);
    let r = runtime.block_on(cache.put(SKey(k.to_string()), Bytes::from(v.clone())));
    let mon = disarm().ok_or("monitor lost")?;
    r.map_err(|e| format!("monitored put failed: {e}"))?;
    hist.push(json!(["put (monitored)", k, v.len()]));
    Ok(Recorded {
        kind: if subdirs { Kind::DiskCachePutSubdirs } else { Kind::DiskCachePut },
        history: Value::Array(hist),
        old,
        new,
        points: mon.points,
        calls: mon.calls,
        sub: PathBuf::from("cache"),
    })
}

fn recover_diskcache(store: &Path, subdirs: bool) -> Result<Obs, String> {
    let cache: DiskCache<SKey> = DiskCache::new(disk_cfg(store, subdirs)).map_err(|e| e.to_string())?;
    let runtime = rt();
    let mut o = Obs::new();
    // before any get(): a get of a file that is not indexed adopts it, and size() then answers from the index
    let n = runtime.block_on(cache.size()).map_err(|e| format!("size(): {e}"))?;
    let mut served = 0usize;
    for k in DC_KEYS {
        let got = runtime.block_on(cache.get(&SKey(k.to_string()))).map_err(|e| format!("get({k}): {e}"))?;
        served += usize::from(got.is_some());
        o.insert(format!("entry-{k}"), got.map_or("absent".to_string(), |v| format!("{}:{:016x}", v.len(), fnv64(&v))));
    }
    o.insert("entry-count".to_string(), if n == served { "as many as entries served".to_string() } else { format!("{n} entries counted on disk, {served} served") });
    Ok(o)
}

fn scenario_journal(rng: &mut Rng, dir: &Path) -> Result<Recorded, String> {
    let store = dir.join("journal");
    std::fs::create_dir_all(&store).map_err(|e| e.to_string())?;
    let mut b = ExtractorCompactorBackup::new(&store);
    let mut hist = Vec::new();
    let mut segs: Vec<u16> = Vec::new();
    for _ in 0..rng.urange(0, 5) {
        let s = rng.below(1023) as u16;
        b.record_segment(s).map_err(|e| e.to_string())?;
        segs.push(s);
        hist.push(json!(["record_segment", s]));
    }
    let render = |s: &[u16]| -> Obs { BTreeMap::from([("compaction-journal".to_string(), format!("{s:?}"))]) };
    let old = render(&segs);
    let s = rng.below(1023) as u16;
    segs.push(s);
    let new = render(&segs);
    arm(&store);
    let r = b.record_segment(s);
    let mon = disarm().ok_or("monitor lost")?;
    r.map_err(|e| format!("monitored record_segment failed: {e}"))?;
    hist.push(json!(["record_segment (monitored)", s]));
    Ok(Recorded { kind: Kind::JournalRecord, history: Value::Array(hist), old, new, points: mon.points, calls: mon.calls, sub: PathBuf::from("journal") })
}

fn recover_journal(store: &Path) -> Result<Obs, String> {
    let loaded = ExtractorCompactorBackup::load(store).map_err(|e| e.to_string())?;
    let segs: Vec<u16> = loaded.map(|b| b.segments().to_vec()).unwrap_or_default();
    Ok(BTreeMap::from([("compaction-journal".to_string(), format!("{segs:?}"))]))
}

// ------------------------------------------------------------------ coverage-driven extension: further scenarios

/// `flush_all_updates`: several buckets with pending updates are merged and written one after the other
/// (each through `save_index`). Each bucket is an object of its own: old or new, independently.
fn scenario_index_flush_all(rng: &mut Rng, dir: &Path) -> Result<Recorded, String> {
    let store = dir.join("idx");
    std::fs::create_dir_all(&store).map_err(|e| e.to_string())?;
    let mut buckets: Vec<u8> = Vec::new();
    while buckets.len() < rng.urange(2, 4) {
        let b = rng.below(16) as u8;
        if !buckets.contains(&b) {
            buckets.push(b);
        }
    }
    let universe: Vec<[u8; 16]> = (0..rng.urange(4, 12)).map(|i| ekey_in_bucket(rng, buckets[i % buckets.len()])).collect();
    let mut m = IndexManager::new(&store);
    let mut hist = Vec::new();
    let step = |m: &mut IndexManager, rng: &mut Rng, hist: &mut Vec<Value>| {
        let k = *rng.pick(&universe);
        let ek = EncodingKey::from_bytes(k);
        match rng.below(8) {
            0..=3 => {
                let (a, o, s) = (rng.below(1024) as u16, rng.below(1 << 30) as u32, rng.range(1, 100_000) as u32);
                let _ = m.add_entry(&ek, a, o, s);
                hist.push(json!(["add", hex::encode(&k[..9]), a, o, s]));
            }
            4 => hist.push(json!(["remove", hex::encode(&k[..9]), m.remove_entry(&ek)])),
            5 => {
                let (a, o, s) = (rng.below(1024) as u16, rng.below(1 << 30) as u32, rng.range(1, 100_000) as u32);
                hist.push(json!(["update", hex::encode(&k[..9]), a, o, s, m.update_entry(&ek, a, o, s)]));
            }
            6 => hist.push(json!(["status", hex::encode(&k[..9]), m.update_entry_status(&ek, UpdateStatus::DataNonResident)])),
            _ => {
                let b = IndexManager::bucket_for_key(&ek);
                let _ = m.flush_updates_for_bucket(b);
                hist.push(json!(["flush_bucket", b]));
            }
        }
    };
    for _ in 0..rng.urange(2, 8) {
        step(&mut m, rng, &mut hist);
    }
    if rng.chance(2, 3) {
        m.save_all().map_err(|e| format!("first save_all failed: {e}"))?;
        hist.push(json!(["save_all (completed)"]));
    } else {
        hist.push(json!(["(no earlier save_all)"]));
    }
    for _ in 0..rng.urange(2, 10) {
        step(&mut m, rng, &mut hist);
    }
    let old = observe_copy(&store, |d| recover_index(d, &universe))?;
    arm(&store);
    let r = m.flush_all_updates();
    let mon = disarm().ok_or("monitor lost")?;
    r.map_err(|e| format!("monitored flush_all_updates failed: {e}"))?;
    // a bucket without pending updates is not written: its on-disk state stays. Every update enters through the
    // update section, so such a bucket shows in memory what an earlier flush/save already wrote — unless it was never
    // written at all and is empty.
    let new = render_index(&m, &universe);
    hist.push(json!(["flush_all_updates (monitored)"]));
    hist.push(json!({"universe": universe.iter().map(hex::encode).collect::<Vec<_>>()}));
    Ok(Recorded { kind: Kind::IndexFlushAll, history: Value::Array(hist), old, new, points: mon.points, calls: mon.calls, sub: PathBuf::from("idx") })
}

/// A mutator called on a bucket whose update section is full (60 pages x 21 entries): `add_entry` and
/// `append_update_with_flush` (remove / update / status) merge the section into the sorted section, write the bucket
/// through `save_index` and keep the new entry in memory. The state being saved is the one before the call.
fn scenario_index_full_section(rng: &mut Rng, dir: &Path) -> Result<Recorded, String> {
    const CAP: usize = 60 * 21;
    let store = dir.join("idx");
    std::fs::create_dir_all(&store).map_err(|e| e.to_string())?;
    let bucket = rng.below(16) as u8;
    let mut m = IndexManager::new(&store);
    let mut keys: Vec<[u8; 16]> = Vec::with_capacity(CAP);
    let mut seen: BTreeSet<[u8; 9]> = BTreeSet::new();
    while keys.len() < CAP {
        let k = ekey_in_bucket(rng, bucket);
        let mut k9 = [0u8; 9];
        k9.copy_from_slice(&k[..9]);
        if seen.insert(k9) {
            m.add_entry(&EncodingKey::from_bytes(k), (keys.len() % 1024) as u16, (keys.len() as u32) * 64, 64).map_err(|e| format!("prefill: {e}"))?;
            keys.push(k);
        }
    }
    let mut hist = vec![json!(["(prefill)", bucket, CAP])];
    let mut universe: Vec<[u8; 16]> = (0..8).map(|_| *rng.pick(&keys)).collect();
    let fresh = loop {
        let k = ekey_in_bucket(rng, bucket);
        if !keys.iter().any(|x| x[..9] == k[..9]) {
            break k;
        }
    };
    universe.push(fresh);
    universe.sort_unstable();
    universe.dedup();
    if rng.chance(2, 3) {
        m.save_all().map_err(|e| format!("first save_all failed: {e}"))?;
        hist.push(json!(["save_all (completed: 1260 pending update entries on disk)"]));
    } else {
        hist.push(json!(["(no earlier save)"]));
    }
    let old = observe_copy(&store, |d| recover_index(d, &universe))?;
    // what the internal flush persists: the state before the call
    let new = render_index(&m, &universe);
    let victim = *rng.pick(&keys);
    let which = rng.below(4);
    arm(&store);
    let done: Result<bool, String> = match which {
        0 => m.add_entry(&EncodingKey::from_bytes(fresh), 7, 4096, 99).map(|()| true).map_err(|e| e.to_string()),
        1 => Ok(m.remove_entry(&EncodingKey::from_bytes(victim))),
        2 => Ok(m.update_entry(&EncodingKey::from_bytes(victim), 9, 8192, 77)),
        _ => Ok(m.update_entry_status(&EncodingKey::from_bytes(victim), UpdateStatus::HeaderNonResident)),
    };
    let mon = disarm().ok_or("monitor lost")?;
    let name = ["add_entry", "remove_entry", "update_entry", "update_entry_status"][which as usize];
    if !done.map_err(|e| format!("monitored {name} failed: {e}"))? {
        return Err(format!("monitored {name} on the full section returned false"));
    }
    hist.push(json!([format!("{name} on the full section (monitored)")]));
    hist.push(json!({"universe": universe.iter().map(hex::encode).collect::<Vec<_>>()}));
    Ok(Recorded { kind: Kind::IndexMutatorOnFullSection, history: Value::Array(hist), old, new, points: mon.points, calls: mon.calls, sub: PathBuf::from("idx") })
}

fn container_ekey(payload: &[u8]) -> [u8; 16] {
    let mut v = Vec::with_capacity(payload.len() + 9);
    v.extend_from_slice(b"BLTE\0\0\0\0N");
    v.extend_from_slice(payload);
    md5::compute(&v).0
}

fn open_container(store: &Path) -> Result<DynamicContainer, String> {
    let c = DynamicContainer::builder(store.to_path_buf()).build().map_err(|e| e.to_string())?;
    rt().block_on(c.open()).map_err(|e| e.to_string())?;
    Ok(c)
}

fn render_container(c: &DynamicContainer, universe: &[[u8; 16]]) -> Result<Obs, String> {
    let runtime = rt();
    let mut per_bucket: BTreeMap<u8, Vec<String>> = BTreeMap::new();
    for k in universe {
        let b = IndexManager::bucket_for_key(&EncodingKey::from_bytes(*k));
        let e = per_bucket.entry(b).or_default();
        if runtime.block_on(c.query(k)).map_err(|e| e.to_string())? {
            e.push(hex::encode(&k[..9]));
        }
    }
    Ok(per_bucket.into_iter().map(|(b, v)| (format!("bucket-{b:02x}"), v.join(","))).collect())
}

fn recover_container(store: &Path, universe: &[[u8; 16]]) -> Result<Obs, String> {
    let c = open_container(store)?;
    render_container(&c, universe)
}

/// `DynamicContainer::write` / `remove`: the data file is appended (write), then every index bucket is rewritten
/// through `save_all`. The objects judged are the index buckets (which keys the reopened container reports).
fn scenario_container(rng: &mut Rng, dir: &Path, remove: bool) -> Result<Recorded, String> {
    let store = dir.join("dyn");
    std::fs::create_dir_all(&store).map_err(|e| e.to_string())?;
    let runtime = rt();
    let c = open_container(&store)?;
    let mut hist = Vec::new();
    let mut universe: Vec<[u8; 16]> = Vec::new();
    let mut live: Vec<[u8; 16]> = Vec::new();
    let n0 = if remove { rng.urange(1, 4) } else { rng.urange(0, 4) };
    let mut seq = 0u32;
    let mut payload = |rng: &mut Rng| {
        seq += 1;
        let n = *rng.pick(&[0usize, 10, 300, 5000]);
        let mut v = rng.bytes(n);
        v.extend_from_slice(&seq.to_le_bytes());
        v
    };
    for _ in 0..n0 {
        let p = payload(rng);
        let k = container_ekey(&p);
        runtime.block_on(c.write(&rng.array::<16>(), &p)).map_err(|e| format!("write: {e}"))?;
        if !runtime.block_on(c.query(&k)).map_err(|e| e.to_string())? {
            return Err("the derived encoding key is not visible after a write (judged by C04)".to_string());
        }
        hist.push(json!(["write", p.len(), hex::encode(&k[..9])]));
        universe.push(k);
        live.push(k);
    }
    if live.len() >= 2 && rng.chance(1, 3) {
        let k = live.remove(rng.usize_below(live.len()));
        runtime.block_on(c.remove(&k)).map_err(|e| format!("remove: {e}"))?;
        hist.push(json!(["remove", hex::encode(&k[..9])]));
    }
    let p = payload(rng);
    let knew = container_ekey(&p);
    if !remove {
        universe.push(knew);
    }
    let old = observe_copy(&store, |d| recover_container(d, &universe))?;
    arm(&store);
    let r = if remove {
        let k = *rng.pick(&live);
        hist.push(json!(["remove (monitored)", hex::encode(&k[..9])]));
        runtime.block_on(c.remove(&k))
    } else {
        hist.push(json!(["write (monitored)", p.len(), hex::encode(&knew[..9])]));
        runtime.block_on(c.write(&rng.array::<16>(), &p))
    };
    let mon = disarm().ok_or("monitor lost")?;
    r.map_err(|e| format!("monitored container call failed: {e}"))?;
    let new = render_container(&c, &universe)?;
    hist.push(json!({"universe": universe.iter().map(hex::encode).collect::<Vec<_>>()}));
    Ok(Recorded { kind: if remove { Kind::ContainerRemove } else { Kind::ContainerWrite }, history: Value::Array(hist), old, new, points: mon.points, calls: mon.calls, sub: PathBuf::from("dyn") })
}

fn open_res_container(path: &Path) -> Result<ResidencyContainer, String> {
    let mut c = ResidencyContainer::new("wow".to_string(), AccessMode::ReadWrite, path.to_path_buf());
    rt().block_on(c.initialize()).map_err(|e| e.to_string())?;
    Ok(c)
}

fn render_res_container(c: &ResidencyContainer, universe: &[[u8; 16]]) -> Obs {
    let v: Vec<String> = universe.iter().filter(|k| c.is_resident(k)).map(|k| hex::encode(&k[..6])).collect();
    BTreeMap::from([("residency-db".to_string(), v.join(","))])
}

fn recover_res_container(store: &Path, universe: &[[u8; 16]]) -> Result<Obs, String> {
    let c = open_res_container(&store.join("wow"))?;
    Ok(render_res_container(&c, universe))
}

/// The residency database saved through `ResidencyContainer::flush` (file `key_state_v8` in a directory the container
/// created itself) and reopened through `ResidencyContainer::initialize`.
fn scenario_res_container(rng: &mut Rng, dir: &Path) -> Result<Recorded, String> {
    let store = dir.join("resc");
    std::fs::create_dir_all(&store).map_err(|e| e.to_string())?;
    let runtime = rt();
    let c = open_res_container(&store.join("wow"))?;
    let universe: Vec<[u8; 16]> = (0..rng.urange(3, 60)).map(|_| rng.array::<16>()).collect();
    let mut hist = Vec::new();
    let step = |rng: &mut Rng, hist: &mut Vec<Value>| -> Result<(), String> {
        let k = *rng.pick(&universe);
        let (name, r) = match rng.below(6) {
            0..=2 => ("mark_resident", c.mark_resident(&k)),
            3 => ("mark_non_resident", c.mark_non_resident(&k)),
            4 => ("mark_span_non_resident", c.mark_span_non_resident(&k, 30, 100)),
            _ => ("Container::remove", runtime.block_on(c.remove(&k))),
        };
        r.map_err(|e| format!("{name}: {e}"))?;
        hist.push(json!([name, hex::encode(&k[..6])]));
        Ok(())
    };
    for _ in 0..rng.urange(1, 30) {
        step(rng, &mut hist)?;
    }
    if rng.chance(2, 3) {
        c.flush().map_err(|e| format!("first flush failed: {e}"))?;
        hist.push(json!(["flush (completed)"]));
    } else {
        hist.push(json!(["(no earlier flush: the monitored one is the first)"]));
    }
    for _ in 0..rng.urange(1, 30) {
        step(rng, &mut hist)?;
    }
    let new = render_res_container(&c, &universe);
    let old = observe_copy(&store, |d| recover_res_container(d, &universe))?;
    arm(&store);
    let r = c.flush();
    let mon = disarm().ok_or("monitor lost")?;
    r.map_err(|e| format!("monitored flush failed: {e}"))?;
    hist.push(json!(["flush (monitored)"]));
    hist.push(json!({"universe": universe.iter().map(hex::encode).collect::<Vec<_>>()}));
    Ok(Recorded { kind: Kind::ResidencyContainerFlush, history: Value::Array(hist), old, new, points: mon.points, calls: mon.calls, sub: PathBuf::from("resc") })
}

fn lru_step(l: &mut LruManager, universe: &[[u8; 9]], rng: &mut Rng, hist: &mut Vec<Value>) {
    let k = *rng.pick(universe);
    match rng.below(5) {
        0..=2 => {
            l.touch(&k);
            hist.push(json!(["touch", hex::encode(&k[..4])]));
        }
        3 => {
            l.remove(&k);
            hist.push(json!(["remove", hex::encode(&k[..4])]));
        }
        _ => {
            l.evict_tail();
            hist.push(json!(["evict_tail"]));
        }
    }
}

/// The life cycle the earlier scenarios leave out: a checkpoint written by one instance, a second instance (same or
/// another capacity) that loads it through `run_cycle` (optionally evicting), works, and then saves — into the same
/// generation file (no bump: both counters name the loaded file), into the next generation, or through `shutdown`.
fn scenario_lru_after_reload(rng: &mut Rng, dir: &Path) -> Result<Recorded, String> {
    let store = dir.join("lru");
    std::fs::create_dir_all(&store).map_err(|e| e.to_string())?;
    let cap1 = rng.urange(2, 12) as u32;
    let universe: Vec<[u8; 9]> = (0..cap1 as usize + 4).map(|_| { let mut k = rng.array::<9>(); k[0] |= 1; k }).collect();
    let runtime = rt();
    let mut hist = vec![json!(["new", cap1])];
    {
        let mut l1 = LruManager::new(cap1, store.clone());
        for _ in 0..rng.urange(2, 14) {
            lru_step(&mut l1, &universe, rng, &mut hist);
        }
        for _ in 0..rng.urange(0, 3) {
            l1.bump_generation();
        }
        runtime.block_on(l1.checkpoint_to_disk()).map_err(|e| format!("checkpoint of the first instance failed: {e}"))?;
        hist.push(json!(["checkpoint_to_disk (completed)", l1.generation()]));
        if rng.chance(1, 3) {
            for _ in 0..rng.urange(1, 6) {
                lru_step(&mut l1, &universe, rng, &mut hist);
            }
            l1.bump_generation();
            runtime.block_on(l1.checkpoint_to_disk()).map_err(|e| format!("second checkpoint of the first instance failed: {e}"))?;
            hist.push(json!(["bump_generation + checkpoint_to_disk (completed)", l1.generation()]));
        }
    }
    let cap2 = match rng.below(4) {
        0 => cap1 + rng.urange(1, 5) as u32,
        1 if cap1 > 2 => cap1 - 1,
        _ => cap1,
    };
    let mut l2 = LruManager::new(cap2, store.clone());
    let (limit, avg) = if rng.chance(1, 3) { (rng.range(1, u64::from(cap1)) * 100, 100) } else { (0, 0) };
    let st = runtime.block_on(l2.run_cycle(limit, avg)).map_err(|e| format!("run_cycle of the second instance failed: {e}"))?;
    hist.push(json!(["second instance: new + run_cycle", cap2, limit, avg, {"loaded": st.loaded_entries, "evicted": st.entries_evicted}]));
    for _ in 0..rng.urange(0, 10) {
        lru_step(&mut l2, &universe, rng, &mut hist);
    }
    let how = rng.below(4);
    if how == 1 {
        l2.bump_generation();
        hist.push(json!(["bump_generation"]));
    }
    if how == 3 {
        // the generation is bumped and the loaded checkpoint is loaded once more: now the current AND the previous
        // generation counter name the file that the next checkpoint writes (its delete-old step must spare it)
        let g = l2.generation();
        l2.bump_generation();
        runtime.block_on(l2.load_from_disk(g)).map_err(|e| format!("load_from_disk({g}) of the second instance failed: {e}"))?;
        hist.push(json!(["bump_generation + load_from_disk", g, {"generation": l2.generation(), "prev_generation": l2.prev_generation()}]));
        for _ in 0..rng.urange(1, 6) {
            lru_step(&mut l2, &universe, rng, &mut hist);
        }
    }
    let new = render_lru(&l2);
    let old = observe_copy(&store, |d| recover_lru(d, cap2))?;
    arm(&store);
    let r = if how == 2 { runtime.block_on(l2.shutdown()) } else { runtime.block_on(l2.checkpoint_to_disk()) };
    let mon = disarm().ok_or("monitor lost")?;
    r.map_err(|e| format!("monitored save of the second instance failed: {e}"))?;
    let how_name = ["checkpoint_to_disk into the loaded generation (monitored)", "checkpoint_to_disk into the next generation (monitored)", "shutdown (monitored)", "checkpoint_to_disk while both generation counters name the loaded file (monitored)"][how as usize];
    hist.push(json!([how_name, l2.generation()]));
    hist.push(json!({"capacity": cap2}));
    Ok(Recorded { kind: Kind::LruAfterReload, history: Value::Array(hist), old, new, points: mon.points, calls: mon.calls, sub: PathBuf::from("lru") })
}

/// `run_cycle` of a fresh instance on a directory in which an interrupted checkpoint left more than the newest
/// generation: the previous generation file (crash between the rename and the delete-old step), a temporary file,
/// an unrelated file. It loads the newest checkpoint and deletes the stale generations; nothing new is written, so
/// whatever instant it dies at, a later instance must show the same checkpoint.
fn scenario_lru_run_cycle(rng: &mut Rng, dir: &Path) -> Result<Recorded, String> {
    let store = dir.join("lru");
    std::fs::create_dir_all(&store).map_err(|e| e.to_string())?;
    let cap = rng.urange(2, 12) as u32;
    let universe: Vec<[u8; 9]> = (0..cap as usize + 3).map(|_| { let mut k = rng.array::<9>(); k[0] |= 1; k }).collect();
    let runtime = rt();
    let mut hist = vec![json!(["new", cap])];
    let mut l = LruManager::new(cap, store.clone());
    let mut leftovers: Vec<(PathBuf, Vec<u8>)> = Vec::new();
    let rounds = rng.urange(2, 4);
    for round in 0..rounds {
        for _ in 0..rng.urange(1, 10) {
            lru_step(&mut l, &universe, rng, &mut hist);
        }
        if round > 0 {
            for _ in 0..rng.urange(1, 3) {
                l.bump_generation();
            }
        }
        runtime.block_on(l.checkpoint_to_disk()).map_err(|e| format!("checkpoint failed: {e}"))?;
        hist.push(json!(["checkpoint_to_disk (completed)", l.generation()]));
        if round + 1 < rounds {
            // remember this generation file: the next checkpoint deletes it, a crash right before that would not have
            if let Some((_, p)) = LruManager::find_latest_lru_file(&store) {
                if let Ok(d) = std::fs::read(&p) {
                    leftovers.push((p, d));
                }
            }
        }
    }
    drop(l);
    for (p, d) in &leftovers {
        std::fs::write(p, d).map_err(|e| e.to_string())?;
    }
    hist.push(json!(["(older generation files put back, as after a crash before the delete-old step)", leftovers.len()]));
    if rng.bool() {
        std::fs::write(store.join("00000000000000FF.lru.tmp"), rng.bytes(100)).map_err(|e| e.to_string())?;
        hist.push(json!(["(leftover temporary file)"]));
    }
    if rng.bool() {
        std::fs::write(store.join("readme.txt"), b"not a checkpoint").map_err(|e| e.to_string())?;
    }
    let old = observe_copy(&store, |d| recover_lru(d, cap))?;
    let new = old.clone();
    let mut l2 = LruManager::new(cap, store.clone());
    let (limit, avg) = if rng.bool() { (u64::from(cap) * 50, 100) } else { (0, 0) };
    arm(&store);
    let r = runtime.block_on(l2.run_cycle(limit, avg));
    let mon = disarm().ok_or("monitor lost")?;
    let st = r.map_err(|e| format!("monitored run_cycle failed: {e}"))?;
    hist.push(json!(["run_cycle of a fresh instance (monitored)", limit, avg, {"stale_files_removed": st.stale_files_removed}]));
    hist.push(json!({"capacity": cap}));
    Ok(Recorded { kind: Kind::LruRunCycle, history: Value::Array(hist), old, new, points: mon.points, calls: mon.calls, sub: PathBuf::from("lru") })
}

/// Disk-cache routines that the put scenarios leave out: `remove` and `clear` (the delete steps), and `put` /
/// `put_with_ttl` by an instance that has not indexed the files an earlier instance left (overwrite of a file the
/// index does not know, first write below a sub-directory of the key's own).
fn scenario_diskcache_ops(rng: &mut Rng, dir: &Path, kind: Kind) -> Result<Recorded, String> {
    let store = dir.join("cache");
    std::fs::create_dir_all(&store).map_err(|e| e.to_string())?;
    let subdirs = rng.bool();
    let runtime = rt();
    let mut cache: DiskCache<SKey> = DiskCache::new(disk_cfg(&store, subdirs)).map_err(|e| e.to_string())?;
    let mut model: BTreeMap<&str, Vec<u8>> = BTreeMap::new();
    let mut hist = vec![json!({"subdirs": subdirs})];
    let n0 = if kind == Kind::DiskCachePutReopened { rng.urange(0, 5) } else { rng.urange(1, 6) };
    for _ in 0..n0 {
        let k = *rng.pick(&DC_KEYS);
        let n = rng.size_biased(20_000);
        let v = rng.bytes(n);
        runtime.block_on(cache.put(SKey(k.to_string()), Bytes::from(v.clone()))).map_err(|e| e.to_string())?;
        hist.push(json!(["put", k, v.len()]));
        model.insert(k, v);
    }
    let reopened = kind == Kind::DiskCachePutReopened || rng.bool();
    if reopened {
        drop(cache);
        cache = DiskCache::new(disk_cfg(&store, subdirs)).map_err(|e| e.to_string())?;
        hist.push(json!(["(new instance on the same directory: nothing indexed)"]));
        // some of the files get adopted into the index by a get
        for k in DC_KEYS {
            if rng.chance(1, 4) {
                let _ = runtime.block_on(cache.get(&SKey(k.to_string())));
                hist.push(json!(["get", k]));
            }
        }
    }
    let old = observe_copy(&store, |d| recover_diskcache(d, subdirs))?;
    if old != render_diskcache(&model) {
        return Err("disk cache: a fresh instance does not show the completed puts (judged by C10, not here)".to_string());
    }
    let r: Result<(), String> = match kind {
        Kind::DiskCacheRemove => {
            let present: Vec<&str> = model.keys().copied().collect();
            let k = if rng.chance(5, 6) { *rng.pick(&present) } else { *rng.pick(&DC_KEYS) };
            model.remove(k);
            hist.push(json!(["remove (monitored)", k]));
            arm(&store);
            runtime.block_on(cache.remove(&SKey(k.to_string()))).map(|_| ()).map_err(|e| e.to_string())
        }
        Kind::DiskCacheClear => {
            model.clear();
            hist.push(json!(["clear (monitored)"]));
            arm(&store);
            runtime.block_on(cache.clear()).map_err(|e| e.to_string())
        }
        _ => {
            let k = *rng.pick(&DC_KEYS);
            let n = rng.size_biased(40_000).max(1);
            let v = rng.bytes(n);
            let ttl = rng.bool();
            hist.push(json!([if ttl { "put_with_ttl (monitored)" } else { "put (monitored)" }, k, v.len(), {"overwrites_a_file": model.contains_key(k)}]));
            model.insert(k, v.clone());
            arm(&store);
            if ttl {
                runtime.block_on(cache.put_with_ttl(SKey(k.to_string()), Bytes::from(v), std::time::Duration::from_secs(3600))).map_err(|e| e.to_string())
            } else {
                runtime.block_on(cache.put(SKey(k.to_string()), Bytes::from(v))).map_err(|e| e.to_string())
            }
        }
    };
    let mon = disarm().ok_or("monitor lost")?;
    r.map_err(|e| format!("monitored disk-cache call failed: {e}"))?;
    let new = render_diskcache(&model);
    Ok(Recorded { kind, history: Value::Array(hist), old, new, points: mon.points, calls: mon.calls, sub: PathBuf::from("cache") })
}

/// The journal's other writers: `save` (rewrites the whole file in place) and `remove`. Like `record_segment`,
/// observed only (the journal is not one of the objects the statement names); a panic on reopening is still judged.
fn scenario_journal_save(rng: &mut Rng, dir: &Path) -> Result<Recorded, String> {
    let store = dir.join("journal");
    std::fs::create_dir_all(&store).map_err(|e| e.to_string())?;
    let mut b = ExtractorCompactorBackup::new(&store);
    let mut hist = Vec::new();
    let mut segs: Vec<u16> = Vec::new();
    for _ in 0..rng.urange(1, 6) {
        let s = rng.below(1023) as u16;
        b.record_segment(s).map_err(|e| e.to_string())?;
        segs.push(s);
        hist.push(json!(["record_segment", s]));
    }
    let render = |s: &[u16]| -> Obs { BTreeMap::from([("compaction-journal".to_string(), format!("{s:?}"))]) };
    let old = render(&segs);
    let loaded = ExtractorCompactorBackup::load(&store).map_err(|e| e.to_string())?.ok_or("journal not found")?;
    let remove = rng.chance(1, 3);
    let new = if remove { render(&[]) } else { render(&segs) };
    arm(&store);
    let r = if remove { loaded.remove() } else { loaded.save() };
    let mon = disarm().ok_or("monitor lost")?;
    r.map_err(|e| format!("monitored journal call failed: {e}"))?;
    hist.push(json!([if remove { "load + remove (monitored)" } else { "load + save (monitored)" }]));
    Ok(Recorded { kind: Kind::JournalSave, history: Value::Array(hist), old, new, points: mon.points, calls: mon.calls, sub: PathBuf::from("journal") })
}

// ------------------------------------------------------------------ round 4: the save after an interrupted save

/// The process dies inside the routine that just ran under the monitor: one of the directory states that crash can
/// leave (the same derivation the judged crash states come from) becomes the content of `store`. States that leave a
/// temporary file of the routine behind are preferred. A temporary file is recognised by what the routine does with
/// it, not by its name: it exists at some crash point but neither before the routine nor after it completed. Returns
/// the temporary files left, each with the file it would have been renamed to (if the routine got that far).
fn crash_into(rng: &mut Rng, store: &Path, mon: &interpose::Monitor, hist: &mut Vec<Value>) -> Result<Vec<(PathBuf, Option<PathBuf>)>, String> {
    let (Some(first), Some(last)) = (mon.points.first(), mon.points.last()) else { return Ok(Vec::new()) };
    if mon.points.len() < 2 {
        hist.push(json!(["(the routine had nothing to write: the process dies with the directory as it was)"]));
        return Ok(Vec::new());
    }
    let transient = |p: &PathBuf| !first.files.contains_key(p) && !last.files.contains_key(p);
    let rename_target = |t: &PathBuf| -> Option<PathBuf> {
        for w in mon.points.windows(2) {
            if let Some(fs) = w[0].files.get(t) {
                if !w[1].files.contains_key(t) {
                    return w[1].files.iter().find(|(p, g)| *p != t && Arc::ptr_eq(&g.content, &fs.content)).map(|(p, _)| p.clone());
                }
            }
        }
        None
    };
    let states = derive_states(&mon.points, false);
    let with_temp: Vec<&CrashState> = states.iter().filter(|s| s.files.keys().any(&transient)).collect();
    let temp_len = |s: &CrashState| -> usize { s.files.iter().filter(|(p, _)| transient(p)).map(|(_, c)| c.len()).sum() };
    let st: &CrashState = if !with_temp.is_empty() && rng.chance(4, 5) {
        if rng.bool() {
            // the longest leftover this save can produce (the next image of the object is then more likely the shorter one)
            let longest = with_temp.iter().map(|s| temp_len(s)).max().unwrap_or(0);
            let of_that_length: Vec<&CrashState> = with_temp.iter().copied().filter(|s| temp_len(s) == longest).collect();
            *rng.pick(&of_that_length)
        } else {
            *rng.pick(&with_temp)
        }
    } else {
        rng.pick(&states)
    };
    std::fs::remove_dir_all(store).map_err(|e| e.to_string())?;
    std::fs::create_dir_all(store).map_err(|e| e.to_string())?;
    for (rel, content) in &st.files {
        let p = store.join(rel);
        if let Some(parent) = p.parent() {
            std::fs::create_dir_all(parent).map_err(|e| e.to_string())?;
        }
        std::fs::write(&p, &***content).map_err(|e| e.to_string())?;
    }
    let temps: Vec<(PathBuf, Option<PathBuf>)> = st.files.keys().filter(|p| transient(p)).map(|p| (p.clone(), rename_target(p))).collect();
    hist.push(json!(["(the process dies inside this routine)", {
        "crash_point": st.point_label,
        "variant": st.variant,
        "variant_detail": st.variant_detail,
        "files_left": st.files.iter().map(|(k, v)| json!([k, v.len()])).collect::<Vec<_>>(),
    }]));
    Ok(temps)
}

/// Every object a fresh instance shows after the interrupted save must be its old or its new state of THAT save
/// (that is what the kinds monitoring that save judge); it is the old state of the save monitored next.
fn old_or_new(start: &Obs, old0: &Obs, new0: &Obs) -> Result<(), String> {
    let empty = String::new();
    let names: BTreeSet<&String> = old0.keys().chain(new0.keys()).chain(start.keys()).collect();
    for name in names {
        let (g, o, n) = (start.get(name).unwrap_or(&empty), old0.get(name).unwrap_or(&empty), new0.get(name).unwrap_or(&empty));
        if g != o && g != n {
            return Err(format!("after the interrupted save a fresh instance shows {name} as neither old nor new (judged by the kinds that monitor that save, not here)"));
        }
    }
    Ok(())
}

#[derive(Clone, Copy, Debug)]
enum IdxRoutine {
    SaveAll,
    FlushBucket(u8),
    FlushAll,
}

impl IdxRoutine {
    fn label(self) -> String {
        match self {
            IdxRoutine::SaveAll => "save_all".to_string(),
            IdxRoutine::FlushBucket(b) => format!("flush_updates_for_bucket({b})"),
            IdxRoutine::FlushAll => "flush_all_updates".to_string(),
        }
    }
    fn run(self, m: &mut IndexManager) -> Result<(), String> {
        match self {
            IdxRoutine::SaveAll => m.save_all(),
            IdxRoutine::FlushBucket(b) => m.flush_updates_for_bucket(b),
            IdxRoutine::FlushAll => m.flush_all_updates(),
        }
        .map_err(|e| e.to_string())
    }
    /// The state the routine persists, given the instance after the call and the on-disk state before it:
    /// `save_all` writes every bucket in memory, `flush_all_updates` every bucket with pending updates (one without
    /// shows in memory what is on disk already), `flush_updates_for_bucket` one bucket (the others keep their
    /// on-disk state).
    fn new_state(self, m: &IndexManager, universe: &[[u8; 16]], old: &Obs) -> Obs {
        let mut new = render_index(m, universe);
        if let IdxRoutine::FlushBucket(b) = self {
            let name = format!("bucket-{b:02x}");
            for (k, v) in old {
                if *k != name {
                    new.insert(k.clone(), v.clone());
                }
            }
            new.retain(|k, _| *k == name || old.contains_key(k));
        }
        new
    }
}

/// Index saves in a directory that still holds what an EARLIER, interrupted save left: a save (`save_all`,
/// `flush_updates_for_bucket`, `flush_all_updates`) runs under the monitor and the process dies at one of its crash
/// states (mostly one with the bucket's temporary file left behind: complete, cut, zeroed); a fresh instance loads the
/// directory, mutates (adds, removes, relocations, status changes — so the next image of a bucket can be longer or
/// shorter than the leftover), and its NEXT save is monitored and judged as usual, crash states and completed save.
fn scenario_index_after_interrupted_save(rng: &mut Rng, dir: &Path) -> Result<Recorded, String> {
    let store = dir.join("idx");
    std::fs::create_dir_all(&store).map_err(|e| e.to_string())?;
    let buckets: Vec<u8> = if rng.bool() { vec![rng.below(16) as u8] } else { vec![rng.below(16) as u8, rng.below(16) as u8] };
    let universe: Vec<[u8; 16]> = (0..rng.urange(3, 10)).map(|i| ekey_in_bucket(rng, buckets[i % buckets.len()])).collect();
    let mut hist = Vec::new();
    let step = |m: &mut IndexManager, rng: &mut Rng, hist: &mut Vec<Value>, may_flush: bool, prefer: &[u8]| {
        // two picks in three fall into one of the preferred buckets (if the universe has a key there)
        let preferred: Vec<[u8; 16]> = universe.iter().filter(|k| prefer.contains(&IndexManager::bucket_for_key(&EncodingKey::from_bytes(**k)))).copied().collect();
        let k = if !preferred.is_empty() && rng.chance(2, 3) { *rng.pick(&preferred) } else { *rng.pick(&universe) };
        let ek = EncodingKey::from_bytes(k);
        match rng.below(if may_flush { 9 } else { 8 }) {
            0..=3 => {
                let (a, o, s) = (rng.below(1024) as u16, rng.below(1 << 30) as u32, rng.range(1, 100_000) as u32);
                let _ = m.add_entry(&ek, a, o, s);
                hist.push(json!(["add", hex::encode(&k[..9]), a, o, s]));
            }
            4 | 5 => hist.push(json!(["remove", hex::encode(&k[..9]), m.remove_entry(&ek)])),
            6 => {
                let (a, o, s) = (rng.below(1024) as u16, rng.below(1 << 30) as u32, rng.range(1, 100_000) as u32);
                hist.push(json!(["update", hex::encode(&k[..9]), a, o, s, m.update_entry(&ek, a, o, s)]));
            }
            7 => hist.push(json!(["status", hex::encode(&k[..9]), m.update_entry_status(&ek, UpdateStatus::DataNonResident)])),
            _ => {
                let b = IndexManager::bucket_for_key(&ek);
                let _ = m.flush_updates_for_bucket(b);
                hist.push(json!(["flush_bucket", b]));
            }
        }
    };
    let pick_routine = |rng: &mut Rng, bucket: u8, save_all_in_8: u64| match rng.below(8) {
        x if x < save_all_in_8 => IdxRoutine::SaveAll,
        x if x < save_all_in_8 + (8 - save_all_in_8) * 2 / 3 => IdxRoutine::FlushBucket(bucket),
        _ => IdxRoutine::FlushAll,
    };
    let mut m = IndexManager::new(&store);
    for _ in 0..rng.urange(1, 6) {
        step(&mut m, rng, &mut hist, true, &[]);
    }
    if rng.chance(2, 3) {
        m.save_all().map_err(|e| format!("first save_all failed: {e}"))?;
        hist.push(json!(["save_all (completed)"]));
    } else {
        hist.push(json!(["(no completed save before the interrupted one)"]));
    }
    for _ in 0..rng.urange(1, 6) {
        step(&mut m, rng, &mut hist, true, &[]);
    }
    // the save that never completes
    let old0 = observe_copy(&store, |d| recover_index(d, &universe))?;
    let b1 = *rng.pick(&buckets);
    let r1 = pick_routine(rng, b1, 5);
    arm(&store);
    let res = r1.run(&mut m);
    let mon1 = disarm().ok_or("monitor lost")?;
    res.map_err(|e| format!("the save that is to be interrupted failed: {e}"))?;
    let new0 = r1.new_state(&m, &universe, &old0);
    hist.push(json!([format!("{} (interrupted)", r1.label())]));
    let temps = crash_into(rng, &store, &mon1, &mut hist)?;
    drop(m);
    // restart
    let mut m = IndexManager::new(&store);
    rt().block_on(m.load_all()).map_err(|e| format!("reopening after the interrupted save failed (judged by the kinds that monitor that save, not here): {e}"))?;
    let start = render_index(&m, &universe);
    old_or_new(&start, &old0, &new0)?;
    hist.push(json!(["(restart: fresh instance, load_all)", {"temporary_files_left": temps}]));
    // the session goes on, mostly in the bucket(s) whose temporary file was left behind, and the next save is
    // mostly one that writes such a bucket
    // (the bucket of a leftover: index file names start with the bucket number; taken from the file the temporary file
    // was to become, from its own name if the interrupted save was the first one of the bucket)
    let leftover_buckets: Vec<u8> = temps.iter().filter_map(|(t, target)| u8::from_str_radix(target.as_ref().unwrap_or(t).file_name()?.to_str()?.get(0..2)?, 16).ok()).collect();
    for _ in 0..rng.urange(0, 6) {
        step(&mut m, rng, &mut hist, false, &leftover_buckets);
    }
    let bucket = if !leftover_buckets.is_empty() && rng.chance(5, 6) { *rng.pick(&leftover_buckets) } else { *rng.pick(&buckets) };
    let r2 = pick_routine(rng, bucket, 2);
    arm(&store);
    let res = r2.run(&mut m);
    let mon2 = disarm().ok_or("monitor lost")?;
    res.map_err(|e| format!("monitored save failed: {e}"))?;
    let new = r2.new_state(&m, &universe, &start);
    hist.push(json!([format!("{} (monitored)", r2.label())]));
    hist.push(json!({"universe": universe.iter().map(hex::encode).collect::<Vec<_>>()}));
    let mut calls = mon1.calls;
    for (k, v) in mon2.calls {
        *calls.entry(k).or_insert(0) += v;
    }
    Ok(Recorded { kind: Kind::IndexAfterInterruptedSave, history: Value::Array(hist), old: start, new, points: mon2.points, calls, sub: PathBuf::from("idx") })
}

/// The same history shape for the residency database: `save` is interrupted at one of its crash states, a fresh
/// instance loads the directory (leftover temporary file included), works — one history in three deletes a large part
/// of the keys, so that the next image is shorter than the leftover — and its next `save` is monitored.
fn scenario_residency_after_interrupted_save(rng: &mut Rng, dir: &Path) -> Result<Recorded, String> {
    let store = dir.join("res");
    std::fs::create_dir_all(&store).map_err(|e| e.to_string())?;
    let path = store.join("residency.db");
    let big = rng.chance(1, 4);
    let universe: Vec<[u8; 16]> = (0..if big { rng.urange(100, 600) } else { rng.urange(3, 40) }).map(|_| rng.array::<16>()).collect();
    let mut db = ResidencyDb::new(path.clone());
    let mut hist = Vec::new();
    if big {
        for k in &universe {
            if rng.chance(4, 5) {
                db.mark_resident(k);
            }
        }
        hist.push(json!(["(population)", universe.len()]));
    }
    let step = |db: &mut ResidencyDb, rng: &mut Rng, hist: &mut Vec<Value>| {
        let k = *rng.pick(&universe);
        match rng.below(5) {
            0 | 1 => {
                db.mark_resident(&k);
                hist.push(json!(["mark_resident", hex::encode(&k[..6])]));
            }
            2 => {
                db.mark_non_resident(&k);
                hist.push(json!(["mark_non_resident", hex::encode(&k[..6])]));
            }
            3 => {
                db.mark_span_non_resident(&k, rng.below(4096) as i32, rng.range(1, 4096) as i32);
                hist.push(json!(["mark_span_non_resident", hex::encode(&k[..6])]));
            }
            _ => {
                db.delete_keys(&[k]);
                hist.push(json!(["delete_keys", hex::encode(&k[..6])]));
            }
        }
    };
    for _ in 0..rng.urange(1, 30) {
        step(&mut db, rng, &mut hist);
    }
    if rng.chance(2, 3) {
        db.save().map_err(|e| format!("first save failed: {e}"))?;
        hist.push(json!(["save (completed)"]));
    } else {
        hist.push(json!(["(no completed save before the interrupted one)"]));
    }
    for _ in 0..rng.urange(1, 30) {
        step(&mut db, rng, &mut hist);
    }
    // the save that never completes
    let old0 = observe_copy(&store, |d| recover_residency(d, &universe))?;
    let new0 = render_residency(&db, &universe);
    arm(&store);
    let res = db.save();
    let mon1 = disarm().ok_or("monitor lost")?;
    res.map_err(|e| format!("the save that is to be interrupted failed: {e}"))?;
    hist.push(json!(["save (interrupted)"]));
    let temps = crash_into(rng, &store, &mon1, &mut hist)?;
    drop(db);
    // restart
    let mut db = ResidencyDb::load(&path).map_err(|e| format!("reopening after the interrupted save failed (judged by the kinds that monitor that save, not here): {e}"))?;
    let start = render_residency(&db, &universe);
    old_or_new(&start, &old0, &new0)?;
    hist.push(json!(["(restart: fresh instance, load)", {"temporary_files_left": temps}]));
    if rng.chance(1, 3) {
        let victims: Vec<[u8; 16]> = universe.iter().filter(|_| rng.chance(3, 4)).copied().collect();
        db.delete_keys(&victims);
        hist.push(json!(["delete_keys (bulk)", victims.len()]));
    }
    for _ in 0..rng.urange(1, 30) {
        step(&mut db, rng, &mut hist);
    }
    let new = render_residency(&db, &universe);
    arm(&store);
    let res = db.save();
    let mon2 = disarm().ok_or("monitor lost")?;
    res.map_err(|e| format!("monitored save failed: {e}"))?;
    hist.push(json!(["save (monitored)"]));
    hist.push(json!({"universe": universe.iter().map(hex::encode).collect::<Vec<_>>()}));
    let mut calls = mon1.calls;
    for (k, v) in mon2.calls {
        *calls.entry(k).or_insert(0) += v;
    }
    Ok(Recorded { kind: Kind::ResidencyAfterInterruptedSave, history: Value::Array(hist), old: start, new, points: mon2.points, calls, sub: PathBuf::from("res") })
}

fn copy_dir(from: &Path, to: &Path) -> std::io::Result<()> {
    std::fs::create_dir_all(to)?;
    for e in std::fs::read_dir(from)? {
        let e = e?;
        let p = e.path();
        let t = to.join(e.file_name());
        if p.is_dir() {
            copy_dir(&p, &t)?;
        } else {
            std::fs::copy(&p, &t)?;
        }
    }
    Ok(())
}

/// What a fresh instance sees on a copy of `store` (recovery may delete stale files, so never run it in place).
fn observe_copy(store: &Path, f: impl FnOnce(&Path) -> Result<Obs, String>) -> Result<Obs, String> {
    let base = if Path::new("/dev/shm").is_dir() { "/dev/shm" } else { "/tmp" };
    let td = tempfile::Builder::new().prefix("vh-c06-pre-").tempdir_in(base).map_err(|e| e.to_string())?;
    let copy = td.path().join("s");
    copy_dir(store, &copy).map_err(|e| e.to_string())?;
    f(&copy)
}

// ------------------------------------------------------------------ crash-state derivation

#[derive(Clone)]
struct CrashState {
    point_label: String,
    point_class: String,
    /// "as-is" | "prefix" | "zeros" | "stale" | "empty"
    variant: &'static str,
    variant_detail: String,
    files: BTreeMap<PathBuf, Arc<Vec<u8>>>,
    /// true when taken strictly inside the routine (not the initial or final point)
    inside: bool,
}

fn prefixes(len: usize, thorough: bool) -> Vec<usize> {
    let mut v = BTreeSet::new();
    if len == 0 {
        return vec![];
    }
    v.insert(0);
    v.insert(1.min(len - 1));
    v.insert(len - 1);
    if thorough {
        let mut p = 512;
        while p < len {
            v.insert(p);
            p += 512;
        }
    } else {
        v.insert((len / 2) & !511);
        v.insert((len - 1) & !511);
        if len > 4096 {
            v.insert(4096);
        }
    }
    v.into_iter().filter(|&p| p < len).collect()
}

fn derive_states(points: &[CrashPoint], thorough: bool) -> Vec<CrashState> {
    let mut out = Vec::new();
    let mut seen: BTreeSet<u64> = BTreeSet::new();
    let n = points.len();
    for (i, p) in points.iter().enumerate() {
        let base: BTreeMap<PathBuf, Arc<Vec<u8>>> = p.files.iter().map(|(k, v)| (k.clone(), Arc::clone(&v.content))).collect();
        let inside = i > 0 && i + 1 < n;
        let mut push = |variant: &'static str, detail: String, files: BTreeMap<PathBuf, Arc<Vec<u8>>>| {
            let h = files.iter().fold(0u64, |h, (k, v)| mix64(h, mix64(fnv64(k.to_string_lossy().as_bytes()), fnv64(v))));
            if seen.insert(h) {
                out.push(CrashState { point_label: p.label.clone(), point_class: p.class.clone(), variant, variant_detail: detail, files, inside });
            }
        };
        push("as-is", String::new(), base.clone());
        let dirty: Vec<(&PathBuf, &FileState)> = p.files.iter().filter(|(_, f)| f.dirty).collect();
        for (path, fs) in &dirty {
            let r = role(path);
            // the archive data file of the container scenarios is never synced, so it is dirty at every point, and no
            // judged object (index bucket) depends on its content — only reopening does. Its loss variants are derived
            // where its content changes (first point that sees this content) and at the last point, not at every
            // point of the index saves in between.
            if r == "archive-data-file" {
                let same_before = i > 0 && points[i - 1].files.get(*path).is_some_and(|q| q.dirty && Arc::ptr_eq(&q.content, &fs.content));
                if same_before && i + 1 < n {
                    continue;
                }
            }
            let len = fs.content.len();
            for cut in prefixes(len, thorough) {
                let mut f = base.clone();
                f.insert((*path).clone(), Arc::new(fs.content[..cut].to_vec()));
                push("prefix", format!("{r} cut to {cut} of {len} bytes"), f);
            }
            if len > 0 {
                let mut f = base.clone();
                f.insert((*path).clone(), Arc::new(vec![0u8; len]));
                push("zeros", format!("{r} all {len} bytes zero"), f);
            }
            match &fs.durable {
                Some(d) if **d != *fs.content => {
                    let mut f = base.clone();
                    f.insert((*path).clone(), Arc::clone(d));
                    push("stale", format!("{r} back to its last synced content ({} bytes)", d.len()), f);
                    // stale bytes under the new length (size update reached the disk, data did not)
                    if d.len() < len {
                        let mut mixed = d.to_vec();
                        mixed.resize(len, 0);
                        let mut f = base.clone();
                        f.insert((*path).clone(), Arc::new(mixed));
                        push("stale", format!("{r} old bytes padded with zeros to the new length {len}"), f);
                    }
                }
                _ => {}
            }
        }
        // all dirty files lose their un-synced data at once
        if dirty.len() > 1 {
            let mut f = base.clone();
            for (path, fs) in &dirty {
                f.insert((*path).clone(), fs.durable.clone().unwrap_or_else(|| Arc::new(Vec::new())));
            }
            push("stale", "every dirty file back to its last synced content".to_string(), f);
        }
    }
    out
}

static SCRATCH_SEQ: AtomicU64 = AtomicU64::new(0);

fn materialise(state: &CrashState, sub: &Path) -> Result<tempfile::TempDir, String> {
    let base = if Path::new("/dev/shm").is_dir() { "/dev/shm" } else { "/tmp" };
    let _ = SCRATCH_SEQ.fetch_add(1, Ordering::Relaxed);
    let td = tempfile::Builder::new().prefix("vh-c06-").tempdir_in(base).map_err(|e| e.to_string())?;
    let store = td.path().join(sub);
    std::fs::create_dir_all(&store).map_err(|e| e.to_string())?;
    for (rel, content) in &state.files {
        let p = store.join(rel);
        if let Some(parent) = p.parent() {
            std::fs::create_dir_all(parent).map_err(|e| e.to_string())?;
        }
        std::fs::write(&p, &***content).map_err(|e| e.to_string())?;
    }
    Ok(td)
}

fn parse_universe16(history: &Value) -> Vec<[u8; 16]> {
    history
        .as_array()
        .and_then(|a| a.iter().find_map(|v| v.get("universe")))
        .and_then(Value::as_array)
        .map(|a| {
            a.iter()
                .filter_map(|s| {
                    let b = hex::decode(s.as_str()?).ok()?;
                    <[u8; 16]>::try_from(b.as_slice()).ok()
                })
                .collect()
        })
        .unwrap_or_default()
}

fn recover(rec: &Recorded, store: &Path) -> Result<Obs, String> {
    match rec.kind {
        Kind::IndexSaveAll | Kind::IndexFlushBucket => recover_index(store, &parse_universe16(&rec.history)),
        Kind::ResidencySave => recover_residency(store, &parse_universe16(&rec.history)),
        Kind::LruCheckpoint | Kind::LruShutdown => {
            let cap = rec.history.as_array().and_then(|a| a.iter().find_map(|v| v.get("capacity"))).and_then(Value::as_u64).unwrap_or(4) as u32;
            recover_lru(store, cap)
        }
        Kind::DiskCachePut => recover_diskcache(store, false),
        Kind::DiskCachePutSubdirs => recover_diskcache(store, true),
        Kind::JournalRecord | Kind::JournalSave => recover_journal(store),
        Kind::IndexFlushAll | Kind::IndexMutatorOnFullSection | Kind::IndexAfterInterruptedSave => recover_index(store, &parse_universe16(&rec.history)),
        Kind::ResidencyAfterInterruptedSave => recover_residency(store, &parse_universe16(&rec.history)),
        Kind::ContainerWrite | Kind::ContainerRemove => recover_container(store, &parse_universe16(&rec.history)),
        Kind::ResidencyContainerFlush => recover_res_container(store, &parse_universe16(&rec.history)),
        Kind::LruAfterReload | Kind::LruRunCycle => {
            let cap = rec.history.as_array().and_then(|a| a.iter().find_map(|v| v.get("capacity"))).and_then(Value::as_u64).unwrap_or(4) as u32;
            recover_lru(store, cap)
        }
        Kind::DiskCacheRemove | Kind::DiskCacheClear | Kind::DiskCachePutReopened => {
            let subdirs = rec.history.as_array().and_then(|a| a.iter().find_map(|v| v.get("subdirs"))).and_then(Value::as_bool).unwrap_or(false);
            recover_diskcache(store, subdirs)
        }
    }
}

fn judge_state(ctx: &Ctx, rec: &Recorded, st: &CrashState) {
    let td = match materialise(st, &rec.sub) {
        Ok(t) => t,
        Err(e) => {
            ctx.inconclusive(&format!("could not materialise a crash state: {e}"));
            return;
        }
    };
    let store = td.path().join(&rec.sub);
    let got = std::panic::catch_unwind(std::panic::AssertUnwindSafe(|| recover(rec, &store)));
    let object = rec.kind.object();
    let routine = rec.kind.name();
    let detail = |extra: Value| {
        json!({
            "routine": routine,
            "history": rec.history,
            "crash_point": st.point_label,
            "variant": st.variant,
            "variant_detail": st.variant_detail,
            "files": st.files.iter().map(|(k, v)| json!({"path": k, "len": v.len(), "fnv": format!("{:016x}", fnv64(v))})).collect::<Vec<_>>(),
            "old": rec.old,
            "new": rec.new,
            "observed": extra,
        })
    };
    let h = st.files.iter().fold(fnv64(routine.as_bytes()), |h, (k, v)| mix64(h, mix64(fnv64(k.to_string_lossy().as_bytes()), fnv64(v))));
    if st.inside {
        ctx.eval_nontrivial(h);
    } else {
        ctx.eval();
    }
    ctx.obs(&format!("recoveries.{routine}"), 1);
    ctx.obs(&format!("variant.{}", st.variant), 1);
    match got {
        Err(p) => {
            let msg = vh::monitor::watchdog::panic_message(&p);
            ctx.violation(
                &format!("C06|{object}|{routine}|crash-at={}|variant={}|outcome=recovery-panics", st.point_class, st.variant),
                &format!("reopening after a simulated crash panicked: {msg}"),
                detail(json!({"panic": msg})),
            );
        }
        Ok(Err(e)) if rec.kind.is_journal() => {
            ctx.obs("journal.reopen-error", 1);
            let _ = e;
        }
        Ok(Err(e)) => {
            ctx.obs("outcome.reopen-error", 1);
            ctx.violation(
                &format!("C06|{object}|{routine}|crash-at={}|variant={}|outcome=reopen-fails", st.point_class, st.variant),
                &format!("reopening after a simulated crash failed: {e}"),
                detail(json!({"error": e})),
            );
        }
        Ok(Ok(obs)) => {
            let mut bad = Vec::new();
            let mut saw_old = false;
            let mut saw_new = false;
            let names: BTreeSet<&String> = rec.old.keys().chain(rec.new.keys()).chain(obs.keys()).collect();
            for name in names {
                let empty = String::new();
                let o = rec.old.get(name).unwrap_or(&empty);
                let n = rec.new.get(name).unwrap_or(&empty);
                let g = obs.get(name).unwrap_or(&empty);
                if g == n && n != o {
                    saw_new = true;
                } else if g == o && n != o {
                    saw_old = true;
                }
                if g != o && g != n {
                    bad.push(json!({"object": name, "old": o, "new": n, "got": g}));
                }
            }
            if saw_old {
                ctx.obs("outcome.old-state", 1);
                ctx.obs(&format!("outcome.old-state.{routine}"), 1);
            }
            if saw_new {
                ctx.obs("outcome.new-state", 1);
                ctx.obs(&format!("outcome.new-state.{routine}"), 1);
            }
            if !bad.is_empty() && rec.kind.is_journal() {
                // the compaction journal is not one of the objects the statement names:
                // recorded as an observation only
                ctx.obs(&format!("journal.neither-old-nor-new.{}", st.variant), 1);
            } else if !bad.is_empty() {
                ctx.violation(
                    &format!("C06|{object}|{routine}|crash-at={}|variant={}|outcome=neither-old-nor-new", st.point_class, st.variant),
                    "after a simulated crash a fresh instance shows an object that is neither its complete old nor its complete new state",
                    detail(json!({"mismatches": bad})),
                );
            }
        }
    }
}

/// Probe mode (child of the strace cross-check): run a few histories of every kind and print
/// what the interposer counted inside the armed windows.
fn probe_main(seed: u64) {
    let kinds = ALL_KINDS;
    let mut total: BTreeMap<String, u64> = BTreeMap::new();
    for h in 0..(kinds.len() as u64 * 3) {
        let kind = kinds[(h % kinds.len() as u64) as usize];
        let mut rng = Rng::derive(seed, mix64(h, 0xc06));
        let dir = tempfile::Builder::new().prefix("vh-c06-probe-").tempdir().expect("tempdir");
        if let Ok(rec) = run_scenario(kind, &mut rng, dir.path()) {
            for (k, v) in rec.calls {
                *total.entry(k).or_insert(0) += v;
            }
        }
    }
    println!("PROBE {}", json!(total));
}

fn run_scenario(kind: Kind, rng: &mut Rng, dir: &Path) -> Result<Recorded, String> {
    match kind {
        Kind::IndexSaveAll => scenario_index(rng, dir, false),
        Kind::IndexFlushBucket => scenario_index(rng, dir, true),
        Kind::ResidencySave => scenario_residency(rng, dir),
        Kind::LruCheckpoint => scenario_lru(rng, dir, false),
        Kind::LruShutdown => scenario_lru(rng, dir, true),
        Kind::DiskCachePut => scenario_diskcache(rng, dir, false),
        Kind::DiskCachePutSubdirs => scenario_diskcache(rng, dir, true),
        Kind::JournalRecord => scenario_journal(rng, dir),
        Kind::IndexFlushAll => scenario_index_flush_all(rng, dir),
        Kind::IndexMutatorOnFullSection => scenario_index_full_section(rng, dir),
        Kind::ContainerWrite => scenario_container(rng, dir, false),
        Kind::ContainerRemove => scenario_container(rng, dir, true),
        Kind::ResidencyContainerFlush => scenario_res_container(rng, dir),
        Kind::LruAfterReload => scenario_lru_after_reload(rng, dir),
        Kind::LruRunCycle => scenario_lru_run_cycle(rng, dir),
        Kind::DiskCacheRemove | Kind::DiskCacheClear | Kind::DiskCachePutReopened => scenario_diskcache_ops(rng, dir, kind),
        Kind::JournalSave => scenario_journal_save(rng, dir),
        Kind::IndexAfterInterruptedSave => scenario_index_after_interrupted_save(rng, dir),
        Kind::ResidencyAfterInterruptedSave => scenario_residency_after_interrupted_save(rng, dir),
    }
}

/// Thorough tier: run the probe under strace and compare the mutating syscalls strace saw on
/// store paths inside the armed windows with what the interposer counted. A syscall class the
/// interposer does not cover, or a count mismatch, makes the run inconclusive (never a violation).
fn strace_crosscheck(ctx: &Ctx) {
    let exe = match std::env::current_exe() {
        Ok(e) => e,
        Err(e) => {
            ctx.inconclusive(&format!("current_exe: {e}"));
            return;
        }
    };
    let td = tempfile::tempdir().expect("tempdir");
    let log = td.path().join("strace.log");
    let out = std::process::Command::new("strace")
        .args(["-f", "-qq", "-y", "-o"])
        .arg(&log)
        .args(["-e", "trace=open,openat,creat,write,pwrite64,writev,pwritev,pwritev2,truncate,ftruncate,fallocate,fsync,fdatasync,sync_file_range,rename,renameat,renameat2,unlink,unlinkat,link,linkat,symlink,symlinkat,copy_file_range,sendfile,stat,newfstatat,statx"])
        .arg(&exe)
        .arg("--probe")
        .arg(ctx.seed.to_string())
        .env("VH_C06_PROBE", "1")
        .output();
    let out = match out {
        Ok(o) => o,
        Err(e) => {
            ctx.inconclusive(&format!("strace could not be started: {e}"));
            return;
        }
    };
    let stdout = String::from_utf8_lossy(&out.stdout);
    let Some(line) = stdout.lines().find_map(|l| l.strip_prefix("PROBE ")) else {
        ctx.inconclusive("strace probe produced no PROBE line");
        return;
    };
    let interposed: BTreeMap<String, u64> = serde_json::from_str(line).unwrap_or_default();
    let Ok(text) = std::fs::read_to_string(&log) else {
        ctx.inconclusive("strace log unreadable");
        return;
    };
    let mut inside = false;
    let mut seen: BTreeMap<String, u64> = BTreeMap::new();
    for l in text.lines() {
        // "<pid> syscall(args) = ret"
        let rest = l.split_once(' ').map_or(l, |x| x.1).trim_start();
        if rest.contains("/VH_C06_MARK/begin") {
            inside = true;
            continue;
        }
        if rest.contains("/VH_C06_MARK/end") {
            inside = false;
            continue;
        }
        if !inside || !rest.contains("vh-c06-probe-") {
            continue;
        }
        // the second half of a call that strace split into "name(args <unfinished ...>" and "<... name resumed>) = ret"
        // (another thread's call came in between): the first half carries the name and the arguments and was counted
        if rest.starts_with("<... ") {
            continue;
        }
        let Some(name) = rest.split('(').next() else { continue };
        // failed calls are counted on both sides (the interposer counts a call before forwarding it)
        let class = match name {
            "open" | "openat" | "creat" => {
                if rest.contains("O_CREAT") || rest.contains("O_TRUNC") || name == "creat" { "open" } else { continue }
            }
            "write" => "write",
            "pwrite64" => "pwrite",
            "writev" => "writev",
            "ftruncate" => "ftruncate",
            "fsync" => "fsync",
            "fdatasync" => "fdatasync",
            "rename" | "renameat" | "renameat2" => "rename",
            "unlink" => "unlink",
            "unlinkat" => {
                if rest.contains("AT_REMOVEDIR") { continue } else { "unlink" }
            }
            "stat" | "newfstatat" | "statx" => continue,
            other => other, // not covered by the interposer
        };
        *seen.entry(class.to_string()).or_insert(0) += 1;
    }
    ctx.set_extra("strace_crosscheck", json!({"strace": seen, "interposer": interposed}));
    if seen.is_empty() {
        ctx.inconclusive("strace saw no mutating syscall on the probe directories");
        return;
    }
    if seen != interposed {
        ctx.inconclusive(&format!("mutating syscalls on the store seen by strace {seen:?} differ from those seen by the interposer {interposed:?}"));
    } else {
        ctx.obs("strace_crosscheck.syscalls_matched", seen.values().sum());
    }
}

fn main() {
    // the index loader prints debug lines for bucket 0 on stderr: keep the check's output readable
    if std::env::var_os("VH_KEEP_STDERR").is_none() {
        if let Ok(f) = std::fs::OpenOptions::new().write(true).open("/dev/null") {
            use std::os::unix::io::AsRawFd;
            #[allow(unsafe_code)]
            unsafe {
                libc::dup2(f.as_raw_fd(), 2);
            }
        }
    }
    let argv: Vec<String> = std::env::args().collect();
    if let Some(i) = argv.iter().position(|a| a == "--probe") {
        probe_main(argv.get(i + 1).and_then(|s| s.parse().ok()).unwrap_or(1));
        return;
    }
    let ctx = Ctx::init("C06", "fault_enumeration");
    ctx.set_rule("short operation histories lead to a completed save (old state), further operations, and a second save that runs under I/O interposition; every intercepted open(create/trunc)/write/pwrite/writev/ftruncate/fsync/fdatasync/rename/unlink on the store directory is a crash point; per point the as-is directory plus, for every file dirty since its last fsync, prefixes (0, 1, 512-byte boundaries, len-1), zeros, and last-synced (stale) content; each derived directory is opened by a fresh instance; non-trivial = crash point strictly inside the routine; distinct by hash of the derived directory content; in the kinds '*.save-after-interrupted-save' the save before the monitored one runs under the monitor too and the process dies at one of its derived crash states (mostly one that leaves the temporary file behind), a fresh instance loads that directory, mutates, and its next save is the monitored one (old state = what the fresh instance loaded, which must be the old or the new state of the interrupted save)");
    ctx.assume("renames and unlinks are atomic, ordered and durable (directory-entry durability is not modelled); un-synced file content may be lost as a prefix, zeroed, or revert to the last synced content");
    ctx.assume("only process death / loss of un-synced data is simulated, not torn sectors inside fsynced files");

    // the interposer must really be in the call path
    let td = tempfile::tempdir().expect("tempdir");
    match interpose::selftest(td.path()) {
        Ok(calls) => ctx.set_extra("interposer_selftest_calls", json!(calls)),
        Err(e) => {
            ctx.inconclusive(&format!("I/O interposition self-test failed: {e}"));
            ctx.finish();
        }
    }

    let histories: u64 = ctx.pick(2400, 48_000);
    let thorough = !ctx.quick();
    let kinds = ALL_KINDS;
    // round-robin schedule; the three kinds whose histories produce many more (and, with every 512-byte prefix in the
    // thorough tier, much larger) crash states than the others take every third turn only
    let heavy = [Kind::IndexMutatorOnFullSection, Kind::ContainerWrite, Kind::ContainerRemove];
    let mut schedule: Vec<Kind> = Vec::new();
    for round in 0..3 {
        schedule.extend(kinds.iter().copied().filter(|k| round == 0 || !heavy.contains(k)));
        // the history shape with the most stages (save, crash, restart, save) gets a second turn per round
        schedule.push(Kind::IndexAfterInterruptedSave);
    }
    // development aid: VH_C06_ONLY=<routine name> runs the histories of one kind only
    if let Ok(only) = std::env::var("VH_C06_ONLY") {
        schedule.retain(|k| k.name() == only);
        if schedule.is_empty() {
            ctx.inconclusive("VH_C06_ONLY names no routine");
            ctx.finish();
        }
    }
    let deadline = std::time::Instant::now() + std::time::Duration::from_secs(ctx.pick(50, 540));
    let mut all_calls: BTreeMap<String, u64> = BTreeMap::new();
    let mut classes: BTreeMap<String, u64> = BTreeMap::new();

    for h in 0..histories {
        if std::time::Instant::now() > deadline {
            ctx.obs("stopped_by_time_budget", 1);
            break;
        }
        let kind = schedule[(h % schedule.len() as u64) as usize];
        let mut rng = ctx.rng(mix64(h, 0xc06));
        let dir = tempfile::tempdir().expect("tempdir");
        let t0 = std::time::Instant::now();
        let rec = match run_scenario(kind, &mut rng, dir.path()) {
            Ok(r) => r,
            Err(e) => {
                ctx.inconclusive(&format!("scenario {} could not run: {e}", kind.name()));
                continue;
            }
        };
        let t_scenario = t0.elapsed();
        ctx.obs(&format!("histories.{}", kind.name()), 1);
        for (k, v) in &rec.calls {
            *all_calls.entry(format!("{}:{k}", kind.name())).or_insert(0) += v;
        }
        for p in &rec.points {
            *classes.entry(format!("{}:{}", kind.name(), p.class)).or_insert(0) += 1;
        }
        if rec.points.len() < 2 {
            // nothing to persist in this history (e.g. no pending updates): the routine did no I/O
            ctx.obs(&format!("histories_without_io.{}", kind.name()), 1);
            continue;
        }
        ctx.obs(&format!("histories_with_io.{}", kind.name()), 1);
        ctx.obs("crash_points", rec.points.len() as u64);
        // monitored routines that start in a directory holding a temporary file of an earlier, interrupted save; and
        // those that write the file the leftover was to become, which ends up shorter than / as long as / longer than it
        let left: Vec<(PathBuf, Option<PathBuf>)> = rec
            .history
            .as_array()
            .and_then(|a| a.iter().find_map(|v| v.get(1).and_then(|o| o.get("temporary_files_left"))))
            .and_then(|v| serde_json::from_value(v.clone()).ok())
            .unwrap_or_default();
        if let (Some(first), Some(last)) = (rec.points.first(), rec.points.last()) {
            if left.iter().any(|(t, _)| first.files.contains_key(t)) {
                ctx.obs(&format!("leftover.routine_starts_with_a_temporary_file_of_an_interrupted_save.{}", kind.name()), 1);
            }
            for (t, target) in &left {
                let (Some(tmp), Some(target)) = (first.files.get(t), target) else { continue };
                let Some(f) = last.files.get(target) else { continue };
                if first.files.get(target).is_none_or(|g| !Arc::ptr_eq(&g.content, &f.content)) {
                    let rel = match f.content.len().cmp(&tmp.content.len()) {
                        std::cmp::Ordering::Less => "shorter_than",
                        std::cmp::Ordering::Equal => "as_long_as",
                        std::cmp::Ordering::Greater => "longer_than",
                    };
                    ctx.obs(&format!("leftover.file_written_is_{rel}_the_leftover_temporary_file.{}", kind.name()), 1);
                }
            }
        }
        let states = derive_states(&rec.points, thorough);
        ctx.obs("derived_states", states.len() as u64);
        if ctx.want_sample() {
            ctx.sample(json!({
                "routine": kind.name(),
                "history": rec.history,
                "crash_points": rec.points.iter().map(|p| p.label.clone()).collect::<Vec<_>>(),
                "derived_states": states.len(),
            }));
        }
        if std::env::var_os("VH_C06_TIMING").is_some() {
            ctx.obs(&format!("timing_ms.scenario.{}", kind.name()), t_scenario.as_millis() as u64);
            ctx.obs(&format!("timing.states.{}", kind.name()), states.len() as u64);
        }
        let t1 = std::time::Instant::now();
        std::thread::scope(|s| {
            let chunk = states.len().div_ceil(16).max(1);
            for part in states.chunks(chunk) {
                let ctx = &ctx;
                let rec = &rec;
                s.spawn(move || {
                    for st in part {
                        judge_state(ctx, rec, st);
                    }
                });
            }
        });
        if std::env::var_os("VH_C06_TIMING").is_some() {
            ctx.obs(&format!("timing_ms.recoveries.{}", kind.name()), t1.elapsed().as_millis() as u64);
        }
    }
    for k in kinds {
        // whether a mutator on a full update section does I/O depends on WHEN the implementation merges a full section
        // (inside the next mutator, as the pinned code does, or as soon as the section fills): an implementation of the
        // second kind leaves nothing to monitor in this routine, which is an observation, not a harness failure
        if k == Kind::IndexMutatorOnFullSection && ctx.get_obs(&format!("histories.{}", k.name())) > 0 && ctx.get_obs(&format!("histories_with_io.{}", k.name())) == 0 {
            ctx.obs("index.mutator-on-full-section.no-io(the section is merged before the mutator runs)", 1);
            continue;
        }
        if ctx.get_obs(&format!("histories.{}", k.name())) > 0 && ctx.get_obs(&format!("histories_with_io.{}", k.name())) == 0 {
            ctx.inconclusive(&format!("routine {} never produced intercepted I/O (interposer missed its calls?)", k.name()));
        }
    }
    // the situations the after-interrupted-save kinds exist for must have been reached
    for k in [Kind::IndexAfterInterruptedSave, Kind::ResidencyAfterInterruptedSave] {
        if ctx.get_obs(&format!("histories.{}", k.name())) >= 20 {
            for what in ["routine_starts_with_a_temporary_file_of_an_interrupted_save", "file_written_is_shorter_than_the_leftover_temporary_file"] {
                if ctx.get_obs(&format!("leftover.{what}.{}", k.name())) == 0 {
                    ctx.inconclusive(&format!("situation never reached: leftover.{what}.{}", k.name()));
                }
            }
        }
    }
    if thorough || std::env::var_os("VH_C06_STRACE").is_some() {
        strace_crosscheck(&ctx);
    }
    ctx.set_extra("intercepted_calls", json!(all_calls));
    ctx.set_extra("crash_point_classes", json!(classes));
    ctx.finish();
}
