//! I/O symbol interposition: this executable defines the libc entry points
//! that mutate files; every call made by library code (std::fs, tokio::fs on
//! its blocking pool, direct libc::fsync …) lands here first and is forwarded
//! through dlsym(RTLD_NEXT). When a monitor is armed for a store directory,
//! every mutating call on a path below it becomes a crash point: the
//! monitor's model of the directory (content + dirty flag per file) is
//! snapshotted before the call and updated after it.
#![allow(unsafe_code, clippy::missing_safety_doc)]

use std::cell::Cell;
use std::collections::BTreeMap;
use std::ffi::{CStr, CString, OsStr};
use std::os::raw::{c_char, c_int, c_uint, c_void};
use std::os::unix::ffi::OsStrExt;
use std::path::{Path, PathBuf};
use std::sync::atomic::{AtomicBool, AtomicUsize, Ordering};
use std::sync::{Arc, Mutex};

#[derive(Clone, Debug)]
pub struct FileState {
    /// what a reader would see now (page cache)
    pub content: Arc<Vec<u8>>,
    /// content at the last fsync of this file (None: never synced since it was created/truncated)
    pub durable: Option<Arc<Vec<u8>>>,
    /// written / truncated / created since its last fsync
    pub dirty: bool,
}

#[derive(Clone, Debug)]
pub struct CrashPoint {
    /// e.g. "before write(temp)#2", "after rename(temp->final)"
    pub label: String,
    /// canonical class of the point: syscall + role of the file(s), no counters
    pub class: String,
    pub files: BTreeMap<PathBuf, FileState>,
}

pub struct Monitor {
    root: PathBuf,
    files: BTreeMap<PathBuf, FileState>,
    pub points: Vec<CrashPoint>,
    pub calls: BTreeMap<String, u64>,
    role: fn(&Path) -> &'static str,
    seq: u64,
}

static ARMED: AtomicBool = AtomicBool::new(false);
static MON: Mutex<Option<Monitor>> = Mutex::new(None);

thread_local! {
    static INSIDE: Cell<bool> = const { Cell::new(false) };
}

struct Reentry;
impl Reentry {
    fn enter() -> Option<Self> {
        INSIDE.with(|c| {
            if c.get() {
                None
            } else {
                c.set(true);
                Some(Reentry)
            }
        })
    }
}
impl Drop for Reentry {
    fn drop(&mut self) {
        INSIDE.with(|c| c.set(false));
    }
}

fn read_dir_model(root: &Path) -> BTreeMap<PathBuf, FileState> {
    fn walk(dir: &Path, root: &Path, out: &mut BTreeMap<PathBuf, FileState>) {
        let Ok(rd) = std::fs::read_dir(dir) else { return };
        for e in rd.flatten() {
            let p = e.path();
            if p.is_dir() {
                walk(&p, root, out);
            } else if let Ok(data) = std::fs::read(&p) {
                let rel = p.strip_prefix(root).unwrap_or(&p).to_path_buf();
                let c = Arc::new(data);
                out.insert(rel, FileState { content: Arc::clone(&c), durable: Some(c), dirty: false });
            }
        }
    }
    let mut m = BTreeMap::new();
    walk(root, root, &mut m);
    m
}

/// Arm the monitor for `root`. Files already present are taken as durable.
pub fn arm(root: &Path, role: fn(&Path) -> &'static str) {
    let _g = Reentry::enter();
    let root = root.canonicalize().unwrap_or_else(|_| root.to_path_buf());
    let files = read_dir_model(&root);
    let mut g = MON.lock().unwrap_or_else(std::sync::PoisonError::into_inner);
    *g = Some(Monitor { root, files, points: Vec::new(), calls: BTreeMap::new(), role, seq: 0 });
    ARMED.store(true, Ordering::SeqCst);
}

/// Disarm and return what was recorded (a final "after last call" point is appended).
pub fn disarm() -> Option<Monitor> {
    ARMED.store(false, Ordering::SeqCst);
    let _g = Reentry::enter();
    let mut g = MON.lock().unwrap_or_else(std::sync::PoisonError::into_inner);
    let mut m = g.take()?;
    let files = m.files.clone();
    m.points.push(CrashPoint { label: "after the last call of the routine".into(), class: "after-routine-returned".into(), files });
    Some(m)
}

impl Monitor {
    fn rel(&self, p: &Path) -> Option<PathBuf> {
        let abs = if p.is_absolute() { p.to_path_buf() } else { std::env::current_dir().ok()?.join(p) };
        // lexical normalisation is enough: library code passes plain joined paths
        let abs = abs.parent().and_then(|d| d.canonicalize().ok()).map_or(abs.clone(), |d| d.join(abs.file_name().unwrap_or_default()));
        abs.strip_prefix(&self.root).ok().map(Path::to_path_buf)
    }
    fn before(&mut self, call: &str, class: String) {
        self.seq += 1;
        *self.calls.entry(call.to_string()).or_insert(0) += 1;
        let label = format!("before {class} (call #{})", self.seq);
        self.points.push(CrashPoint { label, class: format!("before-{class}"), files: self.files.clone() });
    }
    fn reread(&mut self, rel: &Path, mark_dirty: bool) {
        let abs = self.root.join(rel);
        match std::fs::read(&abs) {
            Ok(data) => {
                let prev = self.files.get(rel).cloned();
                let durable = prev.as_ref().and_then(|p| p.durable.clone());
                let dirty = mark_dirty || prev.as_ref().is_some_and(|p| p.dirty);
                self.files.insert(rel.to_path_buf(), FileState { content: Arc::new(data), durable, dirty });
            }
            Err(_) => {
                self.files.remove(rel);
            }
        }
    }
}

fn fd_path(fd: c_int) -> Option<PathBuf> {
    let link = format!("/proc/self/fd/{fd}");
    std::fs::read_link(link).ok()
}

fn with_monitor<R>(f: impl FnOnce(&mut Monitor) -> R) -> Option<R> {
    let mut g = MON.lock().unwrap_or_else(std::sync::PoisonError::into_inner);
    g.as_mut().map(f)
}

macro_rules! real {
    ($name:literal, $ty:ty) => {{
        static PTR: AtomicUsize = AtomicUsize::new(0);
        let mut p = PTR.load(Ordering::Relaxed);
        if p == 0 {
            let sym = concat!($name, "\0");
            p = unsafe { libc::dlsym(libc::RTLD_NEXT, sym.as_ptr().cast()) } as usize;
            PTR.store(p, Ordering::Relaxed);
        }
        unsafe { std::mem::transmute::<usize, $ty>(p) }
    }};
}

fn cpath(p: *const c_char) -> PathBuf {
    if p.is_null() {
        return PathBuf::new();
    }
    PathBuf::from(OsStr::from_bytes(unsafe { CStr::from_ptr(p) }.to_bytes()))
}

// ---------------------------------------------------------------- data writes

fn tracked_fd_write(call: &'static str, fd: c_int, doit: impl FnOnce() -> isize) -> isize {
    if !ARMED.load(Ordering::Relaxed) {
        return doit();
    }
    let Some(_g) = Reentry::enter() else { return doit() };
    let rel = fd_path(fd).and_then(|p| with_monitor(|m| m.rel(&p)).flatten());
    let Some(rel) = rel else { return doit() };
    with_monitor(|m| {
        let role = (m.role)(&rel);
        m.before(call, format!("{call}({role})"));
    });
    let r = doit();
    with_monitor(|m| m.reread(&rel, true));
    r
}

#[unsafe(no_mangle)]
pub unsafe extern "C" fn write(fd: c_int, buf: *const c_void, n: usize) -> isize {
    let f = real!("write", unsafe extern "C" fn(c_int, *const c_void, usize) -> isize);
    tracked_fd_write("write", fd, || unsafe { f(fd, buf, n) })
}

#[unsafe(no_mangle)]
pub unsafe extern "C" fn pwrite64(fd: c_int, buf: *const c_void, n: usize, off: i64) -> isize {
    let f = real!("pwrite64", unsafe extern "C" fn(c_int, *const c_void, usize, i64) -> isize);
    tracked_fd_write("pwrite", fd, || unsafe { f(fd, buf, n, off) })
}

#[unsafe(no_mangle)]
pub unsafe extern "C" fn pwrite(fd: c_int, buf: *const c_void, n: usize, off: i64) -> isize {
    let f = real!("pwrite", unsafe extern "C" fn(c_int, *const c_void, usize, i64) -> isize);
    tracked_fd_write("pwrite", fd, || unsafe { f(fd, buf, n, off) })
}

#[unsafe(no_mangle)]
pub unsafe extern "C" fn writev(fd: c_int, iov: *const libc::iovec, cnt: c_int) -> isize {
    let f = real!("writev", unsafe extern "C" fn(c_int, *const libc::iovec, c_int) -> isize);
    tracked_fd_write("writev", fd, || unsafe { f(fd, iov, cnt) })
}

#[unsafe(no_mangle)]
pub unsafe extern "C" fn ftruncate64(fd: c_int, len: i64) -> c_int {
    let f = real!("ftruncate64", unsafe extern "C" fn(c_int, i64) -> c_int);
    tracked_fd_write("ftruncate", fd, || unsafe { f(fd, len) } as isize) as c_int
}

#[unsafe(no_mangle)]
pub unsafe extern "C" fn ftruncate(fd: c_int, len: i64) -> c_int {
    let f = real!("ftruncate", unsafe extern "C" fn(c_int, i64) -> c_int);
    tracked_fd_write("ftruncate", fd, || unsafe { f(fd, len) } as isize) as c_int
}

// ---------------------------------------------------------------- sync

fn tracked_sync(call: &'static str, fd: c_int, doit: impl FnOnce() -> c_int) -> c_int {
    if !ARMED.load(Ordering::Relaxed) {
        return doit();
    }
    let Some(_g) = Reentry::enter() else { return doit() };
    let rel = fd_path(fd).and_then(|p| with_monitor(|m| m.rel(&p)).flatten());
    let Some(rel) = rel else { return doit() };
    with_monitor(|m| {
        let role = (m.role)(&rel);
        m.before(call, format!("{call}({role})"));
    });
    let r = doit();
    if r == 0 {
        with_monitor(|m| {
            m.reread(&rel, false);
            if let Some(fs) = m.files.get_mut(&rel) {
                fs.durable = Some(Arc::clone(&fs.content));
                fs.dirty = false;
            }
        });
    }
    r
}

#[unsafe(no_mangle)]
pub unsafe extern "C" fn fsync(fd: c_int) -> c_int {
    let f = real!("fsync", unsafe extern "C" fn(c_int) -> c_int);
    tracked_sync("fsync", fd, || unsafe { f(fd) })
}

#[unsafe(no_mangle)]
pub unsafe extern "C" fn fdatasync(fd: c_int) -> c_int {
    let f = real!("fdatasync", unsafe extern "C" fn(c_int) -> c_int);
    tracked_sync("fdatasync", fd, || unsafe { f(fd) })
}

// ---------------------------------------------------------------- open (create / truncate)

fn tracked_open(path: PathBuf, flags: c_int, doit: impl FnOnce() -> c_int) -> c_int {
    let mutating = flags & (libc::O_CREAT | libc::O_TRUNC) != 0;
    if !mutating || !ARMED.load(Ordering::Relaxed) {
        return doit();
    }
    let Some(_g) = Reentry::enter() else { return doit() };
    let rel = with_monitor(|m| m.rel(&path)).flatten();
    let Some(rel) = rel else { return doit() };
    with_monitor(|m| {
        let role = (m.role)(&rel);
        let kind = if flags & libc::O_TRUNC != 0 { "open-trunc" } else { "open-create" };
        m.before("open", format!("{kind}({role})"));
    });
    let r = doit();
    with_monitor(|m| {
        let existed = m.files.contains_key(&rel);
        let truncated = flags & libc::O_TRUNC != 0;
        // a plain O_CREAT on an existing file changes nothing
        m.reread(&rel, !existed || truncated);
        if !existed {
            if let Some(fs) = m.files.get_mut(&rel) {
                fs.durable = None;
            }
        }
    });
    r
}

#[unsafe(no_mangle)]
pub unsafe extern "C" fn open(path: *const c_char, flags: c_int, mode: c_uint) -> c_int {
    let f = real!("open", unsafe extern "C" fn(*const c_char, c_int, c_uint) -> c_int);
    tracked_open(cpath(path), flags, || unsafe { f(path, flags, mode) })
}

#[unsafe(no_mangle)]
pub unsafe extern "C" fn open64(path: *const c_char, flags: c_int, mode: c_uint) -> c_int {
    let f = real!("open64", unsafe extern "C" fn(*const c_char, c_int, c_uint) -> c_int);
    tracked_open(cpath(path), flags, || unsafe { f(path, flags, mode) })
}

#[unsafe(no_mangle)]
pub unsafe extern "C" fn openat(dirfd: c_int, path: *const c_char, flags: c_int, mode: c_uint) -> c_int {
    let f = real!("openat", unsafe extern "C" fn(c_int, *const c_char, c_int, c_uint) -> c_int);
    let p = cpath(path);
    let full = if p.is_absolute() || dirfd == libc::AT_FDCWD { p } else { fd_path(dirfd).map_or(p.clone(), |d| d.join(&p)) };
    tracked_open(full, flags, || unsafe { f(dirfd, path, flags, mode) })
}

#[unsafe(no_mangle)]
pub unsafe extern "C" fn openat64(dirfd: c_int, path: *const c_char, flags: c_int, mode: c_uint) -> c_int {
    let f = real!("openat64", unsafe extern "C" fn(c_int, *const c_char, c_int, c_uint) -> c_int);
    let p = cpath(path);
    let full = if p.is_absolute() || dirfd == libc::AT_FDCWD { p } else { fd_path(dirfd).map_or(p.clone(), |d| d.join(&p)) };
    tracked_open(full, flags, || unsafe { f(dirfd, path, flags, mode) })
}

// ---------------------------------------------------------------- rename / unlink

fn tracked_rename(from: PathBuf, to: PathBuf, doit: impl FnOnce() -> c_int) -> c_int {
    if !ARMED.load(Ordering::Relaxed) {
        return doit();
    }
    let Some(_g) = Reentry::enter() else { return doit() };
    let rels = with_monitor(|m| (m.rel(&from), m.rel(&to))).unwrap_or((None, None));
    if rels.0.is_none() && rels.1.is_none() {
        return doit();
    }
    with_monitor(|m| {
        let rf = rels.0.as_deref().map_or("outside", |p| (m.role)(p));
        let rt = rels.1.as_deref().map_or("outside", |p| (m.role)(p));
        m.before("rename", format!("rename({rf}->{rt})"));
    });
    let r = doit();
    if r == 0 {
        with_monitor(|m| {
            let moved = rels.0.as_ref().and_then(|f| m.files.remove(f));
            if let Some(t) = &rels.1 {
                match moved {
                    Some(fs) => {
                        m.files.insert(t.clone(), fs);
                    }
                    None => m.reread(t, true),
                }
            }
        });
    }
    r
}

#[unsafe(no_mangle)]
pub unsafe extern "C" fn rename(from: *const c_char, to: *const c_char) -> c_int {
    let f = real!("rename", unsafe extern "C" fn(*const c_char, *const c_char) -> c_int);
    tracked_rename(cpath(from), cpath(to), || unsafe { f(from, to) })
}

#[unsafe(no_mangle)]
pub unsafe extern "C" fn renameat(fd1: c_int, from: *const c_char, fd2: c_int, to: *const c_char) -> c_int {
    let f = real!("renameat", unsafe extern "C" fn(c_int, *const c_char, c_int, *const c_char) -> c_int);
    tracked_rename(cpath(from), cpath(to), || unsafe { f(fd1, from, fd2, to) })
}

fn tracked_unlink(path: PathBuf, doit: impl FnOnce() -> c_int) -> c_int {
    if !ARMED.load(Ordering::Relaxed) {
        return doit();
    }
    let Some(_g) = Reentry::enter() else { return doit() };
    let rel = with_monitor(|m| m.rel(&path)).flatten();
    let Some(rel) = rel else { return doit() };
    with_monitor(|m| {
        let role = (m.role)(&rel);
        m.before("unlink", format!("unlink({role})"));
    });
    let r = doit();
    if r == 0 {
        with_monitor(|m| {
            m.files.remove(&rel);
        });
    }
    r
}

#[unsafe(no_mangle)]
pub unsafe extern "C" fn unlink(path: *const c_char) -> c_int {
    let f = real!("unlink", unsafe extern "C" fn(*const c_char) -> c_int);
    tracked_unlink(cpath(path), || unsafe { f(path) })
}

#[unsafe(no_mangle)]
pub unsafe extern "C" fn unlinkat(dirfd: c_int, path: *const c_char, flags: c_int) -> c_int {
    let f = real!("unlinkat", unsafe extern "C" fn(c_int, *const c_char, c_int) -> c_int);
    let p = cpath(path);
    let full = if p.is_absolute() || dirfd == libc::AT_FDCWD { p } else { fd_path(dirfd).map_or(p.clone(), |d| d.join(&p)) };
    if flags & libc::AT_REMOVEDIR != 0 {
        return unsafe { f(dirfd, path, flags) };
    }
    tracked_unlink(full, || unsafe { f(dirfd, path, flags) })
}

/// Used by the self-test: is the interposer really in the call path?
pub fn selftest(dir: &Path) -> Result<BTreeMap<String, u64>, String> {
    fn role(_: &Path) -> &'static str {
        "file"
    }
    arm(dir, role);
    let p = dir.join("selftest.bin");
    let t = dir.join("selftest.tmp");
    {
        use std::io::Write;
        let mut f = std::fs::File::create(&t).map_err(|e| e.to_string())?;
        f.write_all(b"hello").map_err(|e| e.to_string())?;
        f.sync_all().map_err(|e| e.to_string())?;
    }
    std::fs::rename(&t, &p).map_err(|e| e.to_string())?;
    std::fs::remove_file(&p).map_err(|e| e.to_string())?;
    let m = disarm().ok_or("monitor vanished")?;
    let _ = CString::new("x");
    for need in ["open", "write", "fsync", "rename", "unlink"] {
        if !m.calls.contains_key(need) {
            return Err(format!("interposer did not see {need}(): calls seen {:?}", m.calls));
        }
    }
    Ok(m.calls)
}
