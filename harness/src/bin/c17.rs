//! C17 — the LRU tracker keeps recency order and its full capacity over any history.
//!
//! Workload
//!   1. EXHAUSTIVE: every operation sequence up to length 5 (quick) / 6 (thorough)
//!      over capacities 1..=3 and 4 keys (one of them all-zero bytes) over the
//!      in-memory alphabet touch(k) / remove(k) / evict_tail /
//!      evict_to_target(1..3 entries worth of bytes) / bump_generation / reset
//!      (14 operations). Prefix-shared DFS; `LruManager` is not `Clone`, so each
//!      node rebuilds the manager from its (already judged) prefix and judges
//!      the last operation.
//!   2. RANDOM: histories of 50..=2000 operations, capacities 1..=64, including
//!      checkpoint_to_disk / load_from_disk / run_cycle / shutdown / re-open on
//!      a temp dir (current-thread tokio runtime per worker).
//!
//!   3. CONTAINER: the shared manager driven through `DynamicContainer::write` / `read`, interleaved with direct
//!      operations on the manager; some reads run on a second thread while the history thread holds the manager's
//!      lock (a successful read is an access whatever else holds the lock).
//!
//! Oracle: a textbook LRU (`VecDeque`, front = least recent) stepped in
//! lock-step. After every operation: raw list order (`verif_list_keys`),
//! `for_each_entry` order, `len`, `is_empty`, `contains`, return values must
//! equal the model's; never more entries than capacity; touch with capacity
//! >= 1 returns true and leaves the key present and most recent; the guarded
//! structural walker `verif_check_invariants` must pass (no leaked slots).
//! Which checkpoint a reload sees is *observed* (directory listing + the
//! generation the manager reports), not modelled: loading file g must yield
//! the state that was checkpointed into file g; `run_cycle` loads the file
//! with the highest generation (documented "latest"), then evicts to limit.
//!
//! Not judged: slot indices, generation numbers, stale-file cleanup counts.

use cascette_client_storage::container::{AccessMode, Container, DynamicContainer};
use cascette_client_storage::lru::{LruManager, lru_file};
use parking_lot::RwLock;
use std::sync::Arc;
use serde_json::{Value, json};
use std::collections::{HashMap, HashSet, VecDeque};
use std::path::{Path, PathBuf};
use std::sync::atomic::{AtomicUsize, Ordering};
use vh::{Ctx, Rng, fnv64, mix64};

type Key = [u8; 9];
const ZERO: Key = [0u8; 9];

// ---------------------------------------------------------------------------
// operations
// ---------------------------------------------------------------------------

#[derive(Clone, Debug, PartialEq, Eq)]
enum Op {
    Touch(usize),
    Remove(usize),
    EvictTail,
    EvictToTarget { target: u64, avg: u64 },
    Bump,
    Reset,
    Checkpoint,
    /// selector among the `.lru` files present (sorted by generation)
    Load(u32),
    RunCycle { limit: u64, avg: u64 },
    Shutdown,
    /// drop the manager and create a fresh one (same capacity, same directory)
    Reopen,
    /// drop the manager and create a fresh one with ANOTHER capacity on the same directory
    ReopenCap(usize),
    /// load_from_disk of a generation that has no file
    LoadMissing,
    /// load_from_disk of a damaged copy of an existing checkpoint (kind of damage)
    LoadCorrupt(u8),
    /// run_cycle while the highest generation in the directory is a damaged file
    CycleCorrupt(u8),
    /// copy an existing checkpoint to generation u64::MAX and load it (the next bump wraps)
    LoadMaxGen(u32),
    /// drop files that are not checkpoints into the directory (bit 0: plain decoys, bit 1: a non-UTF-8 name)
    Decoys(u8),
    /// the data directory is gone while checkpoint (0) / run_cycle (1) / shutdown (2) / load (3) runs
    DirAway(u8),
}

impl Op {
    fn name(&self) -> &'static str {
        match self {
            Op::Touch(_) => "touch",
            Op::Remove(_) => "remove",
            Op::EvictTail => "evict_tail",
            Op::EvictToTarget { .. } => "evict_to_target",
            Op::Bump => "bump_generation",
            Op::Reset => "reset",
            Op::Checkpoint => "checkpoint_to_disk",
            Op::Load(_) => "load_from_disk",
            Op::RunCycle { .. } => "run_cycle",
            Op::Shutdown => "shutdown",
            Op::Reopen | Op::ReopenCap(_) => "reopen",
            Op::LoadMissing | Op::LoadCorrupt(_) | Op::LoadMaxGen(_) => "load_from_disk",
            Op::CycleCorrupt(_) => "run_cycle",
            Op::Decoys(_) => "decoys",
            Op::DirAway(k) => match k % 4 {
                0 => "checkpoint_to_disk",
                1 => "run_cycle",
                2 => "shutdown",
                _ => "load_from_disk",
            },
        }
    }
    fn encode(&self) -> String {
        match self {
            Op::Touch(i) => format!("T{i}"),
            Op::Remove(i) => format!("R{i}"),
            Op::EvictTail => "E".into(),
            Op::EvictToTarget { target, avg } => format!("X{target}/{avg}"),
            Op::Bump => "B".into(),
            Op::Reset => "Z".into(),
            Op::Checkpoint => "C".into(),
            Op::Load(s) => format!("L{s}"),
            Op::RunCycle { limit, avg } => format!("Y{limit}/{avg}"),
            Op::Shutdown => "S".into(),
            Op::Reopen => "O".into(),
            Op::ReopenCap(c) => format!("O{c}"),
            Op::LoadMissing => "M".into(),
            Op::LoadCorrupt(k) => format!("K{k}"),
            Op::CycleCorrupt(k) => format!("J{k}"),
            Op::LoadMaxGen(s) => format!("G{s}"),
            Op::Decoys(k) => format!("D{k}"),
            Op::DirAway(k) => format!("A{k}"),
        }
    }
    fn decode(s: &str) -> Option<Op> {
        let (head, rest) = s.split_at(1.min(s.len()));
        let pair = |r: &str| -> Option<(u64, u64)> {
            let (a, b) = r.split_once('/')?;
            Some((a.parse().ok()?, b.parse().ok()?))
        };
        Some(match head {
            "T" => Op::Touch(rest.parse().ok()?),
            "R" => Op::Remove(rest.parse().ok()?),
            "E" => Op::EvictTail,
            "X" => {
                let (target, avg) = pair(rest)?;
                Op::EvictToTarget { target, avg }
            }
            "B" => Op::Bump,
            "Z" => Op::Reset,
            "C" => Op::Checkpoint,
            "L" => Op::Load(rest.parse().ok()?),
            "Y" => {
                let (limit, avg) = pair(rest)?;
                Op::RunCycle { limit, avg }
            }
            "S" => Op::Shutdown,
            "O" if rest.is_empty() => Op::Reopen,
            "O" => Op::ReopenCap(rest.parse().ok()?),
            "M" => Op::LoadMissing,
            "K" => Op::LoadCorrupt(rest.parse().ok()?),
            "J" => Op::CycleCorrupt(rest.parse().ok()?),
            "G" => Op::LoadMaxGen(rest.parse().ok()?),
            "D" => Op::Decoys(rest.parse().ok()?),
            "A" => Op::DirAway(rest.parse().ok()?),
            _ => return None,
        })
    }
}

// ---------------------------------------------------------------------------
// reference model: textbook LRU
// ---------------------------------------------------------------------------

#[derive(Clone, Debug)]
struct Model {
    cap: usize,
    /// front = least recently used (tail), back = most recently used (head)
    q: VecDeque<Key>,
}

impl Model {
    fn new(cap: usize) -> Self {
        Self { cap, q: VecDeque::new() }
    }
    fn pos(&self, k: &Key) -> Option<usize> {
        self.q.iter().position(|x| x == k)
    }
    /// returns (accepted, evicted-to-make-room)
    fn touch(&mut self, k: &Key) -> (bool, bool) {
        if self.cap == 0 {
            return (false, false);
        }
        if let Some(p) = self.pos(k) {
            self.q.remove(p);
            self.q.push_back(*k);
            return (true, false);
        }
        let mut ev = false;
        if self.q.len() >= self.cap {
            self.q.pop_front();
            ev = true;
        }
        self.q.push_back(*k);
        (true, ev)
    }
    fn remove(&mut self, k: &Key) -> bool {
        if let Some(p) = self.pos(k) {
            self.q.remove(p);
            true
        } else {
            false
        }
    }
    fn evict_tail(&mut self) -> bool {
        self.q.pop_front().is_some()
    }
    /// Exact arithmetic: "evict from the tail until at least `target` bytes are
    /// freed, each entry counting `avg` bytes".
    fn evict_to_target(&mut self, target: u64, avg: u64) -> (usize, u128) {
        let mut n = 0usize;
        let mut freed = 0u128;
        while freed < u128::from(target) {
            if self.q.pop_front().is_none() {
                break;
            }
            n += 1;
            freed += u128::from(avg);
        }
        (n, freed)
    }
    fn keys(&self) -> Vec<Key> {
        self.q.iter().copied().collect()
    }
    fn has_zero(&self) -> bool {
        self.q.iter().any(|k| *k == ZERO)
    }
}

// ---------------------------------------------------------------------------
// findings
// ---------------------------------------------------------------------------

#[derive(Debug, Clone)]
struct Viol {
    sig: String,
    summary: String,
    extra: Value,
}

fn viol(op: &str, relation: &str, summary: &str, extra: Value) -> Viol {
    Viol { sig: format!("C17|{op}|{relation}"), summary: summary.to_string(), extra }
}

const SIG_ZERO_FOREACH: &str = "C17|for_each_entry|zero-key-skipped|all-zero-key-is-treated-as-empty-slot";
const SIG_ZERO_RELOAD: &str = "C17|reload|zero-key-lost|all-zero-key-indistinguishable-from-empty-slot-in-lru-file";

fn invariant_class(msg: &str) -> &'static str {
    if msg.starts_with("slot leak") {
        "slot-leak"
    } else if msg.starts_with("key_map holds") {
        "more-entries-than-capacity"
    } else if msg.contains("revisits slot") {
        "list-cycle"
    } else if msg.contains("prev is") {
        "prev-link-mismatch"
    } else if msg.starts_with("mru_head is") {
        "head-mismatch"
    } else if msg.starts_with("list has") {
        "list-count-differs-from-key-map"
    } else if msg.contains("unmapped slot") {
        "unmapped-slot-on-list"
    } else if msg.contains("both mapped and free") {
        "slot-mapped-and-free"
    } else if msg.contains("free list twice") {
        "slot-on-free-list-twice"
    } else if msg.contains("out of range") {
        "index-out-of-range"
    } else if msg.contains("different key") {
        "slot-key-differs-from-key-map"
    } else if msg.contains("mapped by two keys") {
        "slot-mapped-twice"
    } else {
        "other"
    }
}

fn hexkeys(v: &[Key]) -> Vec<String> {
    v.iter().map(hex::encode).collect()
}

// ---------------------------------------------------------------------------
// state comparison
// ---------------------------------------------------------------------------

/// Compare the manager with the model. `Ok(true)` = equal except that
/// `for_each_entry` skipped the all-zero key (listed finding, not fatal).
fn check_state(lru: &LruManager, model: &Model, pool: &[Key], opname: &str) -> Result<bool, Viol> {
    let want = model.keys();
    let raw = lru.verif_list_keys();
    if raw != want {
        let mut a = raw.clone();
        a.sort_unstable();
        let mut b = want.clone();
        b.sort_unstable();
        let rel = if a == b { "recency-order-differs-from-reference-lru" } else { "key-set-differs-from-reference-lru" };
        return Err(viol(opname, rel, "list order (tail->head) differs from the textbook LRU", json!({"manager": hexkeys(&raw), "model": hexkeys(&want)})));
    }
    if lru.len() != want.len() {
        return Err(viol(opname, "len-differs-from-reference-lru", "len() differs from the textbook LRU", json!({"manager_len": lru.len(), "model": hexkeys(&want)})));
    }
    if lru.len() > model.cap {
        return Err(viol(opname, "more-entries-than-capacity", "manager holds more entries than its capacity", json!({"len": lru.len(), "capacity": model.cap})));
    }
    if lru.capacity() as usize != model.cap {
        return Err(viol(opname, "capacity-accessor-differs-from-configured-capacity", "capacity() no longer reports the capacity the manager was created with", json!({"capacity()": lru.capacity(), "configured": model.cap})));
    }
    if lru.is_empty() != want.is_empty() {
        return Err(viol(opname, "is_empty-differs-from-reference-lru", "is_empty() differs from the model", json!({"model": hexkeys(&want)})));
    }
    for k in pool {
        let m = model.pos(k).is_some();
        if lru.contains(k) != m {
            return Err(viol(opname, "contains-differs-from-reference-lru", "contains() differs from the textbook LRU", json!({"key": hex::encode(k), "manager": !m, "model": m, "model_keys": hexkeys(&want)})));
        }
    }
    let mut seq: Vec<Key> = Vec::with_capacity(want.len());
    lru.for_each_entry(|k| seq.push(*k));
    let mut zero_skipped = false;
    if seq != want {
        let filtered: Vec<Key> = want.iter().copied().filter(|k| *k != ZERO).collect();
        if model.has_zero() && seq == filtered {
            zero_skipped = true;
        } else {
            return Err(viol(opname, "for_each_entry-sequence-differs-from-reference-lru", "for_each_entry (tail->head) differs from the textbook LRU", json!({"manager": hexkeys(&seq), "model": hexkeys(&want)})));
        }
    }
    if let Err(msg) = lru.verif_check_invariants() {
        return Err(viol(opname, &format!("invariant:{}", invariant_class(&msg)), "structural invariant of the LRU manager broken", json!({"invariant": msg, "model": hexkeys(&want)})));
    }
    Ok(zero_skipped)
}

#[derive(Default, Clone, Copy)]
struct StepInfo {
    evicted: bool,
}

/// Apply an in-memory operation to both manager and model and compare the
/// return values. (Disk operations are handled by `History`.)
fn apply_mem(lru: &mut LruManager, model: &mut Model, op: &Op, pool: &[Key], cnt: &mut Cnt) -> Result<StepInfo, Viol> {
    let mut info = StepInfo::default();
    match op {
        Op::Touch(i) => {
            let k = pool[*i];
            let was_present = model.pos(&k).is_some();
            let was_full = model.q.len() >= model.cap;
            let got = lru.touch(&k);
            let (want, ev) = model.touch(&k);
            info.evicted = ev;
            if k == ZERO {
                cnt.add("boundary.touch_zero_key", 1);
            }
            if was_present {
                cnt.add("boundary.touch_existing_key", 1);
            } else if was_full {
                cnt.add("boundary.touch_new_key_at_capacity", 1);
            }
            if got != want {
                let rel = if want { "returns-false-with-capacity>=1" } else { "returns-true-with-capacity-0" };
                return Err(viol("touch", rel, "touch() return value differs from the textbook LRU", json!({"key": hex::encode(k), "got": got, "capacity": model.cap, "model_after": hexkeys(&model.keys())})));
            }
            if want {
                if !lru.contains(&k) {
                    return Err(viol("touch", "key-not-present-after-touch", "touched key is not present afterwards", json!({"key": hex::encode(k)})));
                }
                if lru.verif_list_keys().last() != Some(&k) {
                    return Err(viol("touch", "key-not-most-recent-after-touch", "touched key is not at the MRU head afterwards", json!({"key": hex::encode(k), "list": hexkeys(&lru.verif_list_keys())})));
                }
            }
        }
        Op::Remove(i) => {
            let k = pool[*i];
            let got = lru.remove(&k);
            let want = model.remove(&k);
            if want {
                cnt.add("boundary.remove_present", 1);
            } else {
                cnt.add("boundary.remove_absent", 1);
            }
            if got != want {
                return Err(viol("remove", "return-value-differs-from-reference-lru", "remove() return value differs from the model", json!({"key": hex::encode(k), "got": got, "want": want})));
            }
        }
        Op::EvictTail => {
            let got = lru.evict_tail().is_some();
            let want = model.evict_tail();
            info.evicted = want;
            if want {
                cnt.add("boundary.evict_tail_nonempty", 1);
            } else {
                cnt.add("boundary.evict_tail_empty", 1);
            }
            if got != want {
                return Err(viol("evict_tail", "return-value-differs-from-reference-lru", "evict_tail() Some/None differs from the model", json!({"got_some": got, "want_some": want})));
            }
        }
        Op::EvictToTarget { target, avg } => {
            let before = model.q.len();
            let got = lru.evict_to_target(*target, *avg);
            let want = model.evict_to_target(*target, *avg);
            info.evicted = want.0 > 0;
            if want.0 == 0 {
                cnt.add("boundary.evict_to_target_evicts_nothing", 1);
            } else if want.0 == before {
                cnt.add("boundary.evict_to_target_empties_list", 1);
                if before == model.cap {
                    cnt.add("boundary.evict_to_target_empties_full_list", 1);
                }
            } else {
                cnt.add("boundary.evict_to_target_partial", 1);
            }
            if *avg == 0 && *target > 0 {
                cnt.add("boundary.evict_to_target_avg_zero", 1);
            }
            // the byte total is judged only where it is representable: a u64
            // cannot hold it when avg * evicted exceeds u64::MAX (observed, not judged)
            let freed_fits = want.1 <= u128::from(u64::MAX);
            if !freed_fits {
                cnt.add("boundary.evict_to_target_freed_total_exceeds_u64", 1);
            } else if *avg >= 1 << 62 && want.0 > 0 {
                cnt.add("boundary.evict_to_target_huge_avg", 1);
            }
            if got.0 != want.0 || (freed_fits && u128::from(got.1) != want.1) {
                let rel = if freed_fits { "return-value-differs-from-reference-lru" } else { "evicted-count-differs-from-reference-lru|byte-total-exceeds-u64" };
                return Err(viol("evict_to_target", rel, "evict_to_target() (evicted, freed) differs from the model", json!({"target": target, "avg": avg, "got": [got.0 as u64, got.1], "want": [want.0.to_string(), want.1.to_string()]})));
            }
        }
        Op::Bump => {
            let g0 = lru.generation();
            if g0 == u64::MAX {
                cnt.add("boundary.bump_generation_wraps_at_u64_max", 1);
            }
            lru.bump_generation();
            // generation numbers are not judged beyond "never 0" (documented)
            if lru.generation() == 0 {
                return Err(viol("bump_generation", "generation-became-zero", "generation 0 is reserved", json!({"before": g0})));
            }
        }
        Op::Reset => {
            lru.reset();
            model.q.clear();
        }
        _ => unreachable!("disk operation passed to apply_mem"),
    }
    Ok(info)
}

/// Prefix replay without judging (the prefix was judged when it was a node).
fn apply_raw(lru: &mut LruManager, op: &Op, pool: &[Key]) {
    match op {
        Op::Touch(i) => {
            lru.touch(&pool[*i]);
        }
        Op::Remove(i) => {
            lru.remove(&pool[*i]);
        }
        Op::EvictTail => {
            lru.evict_tail();
        }
        Op::EvictToTarget { target, avg } => {
            lru.evict_to_target(*target, *avg);
        }
        Op::Bump => lru.bump_generation(),
        Op::Reset => lru.reset(),
        _ => {}
    }
}

// ---------------------------------------------------------------------------
// counters
// ---------------------------------------------------------------------------

#[derive(Default)]
struct Cnt {
    m: HashMap<&'static str, u64>,
}
impl Cnt {
    fn add(&mut self, k: &'static str, n: u64) {
        *self.m.entry(k).or_insert(0) += n;
    }
    fn flush(&mut self, ctx: &Ctx, prefix: &str) {
        for (k, v) in self.m.drain() {
            ctx.obs(&format!("{prefix}{k}"), v);
        }
    }
}

fn report(ctx: &Ctx, v: &Viol, part: &str, cap: usize, pool: &[Key], ops: &[Op]) {
    ctx.violation(
        &v.sig,
        &v.summary,
        json!({
            "part": part,
            "capacity": cap,
            "keys": hexkeys(pool),
            "ops": ops.iter().map(Op::encode).collect::<Vec<_>>(),
            "failing_op_index": ops.len().saturating_sub(1),
            "observation": v.extra,
        }),
    );
}

// ---------------------------------------------------------------------------
// part 1: exhaustive enumeration
// ---------------------------------------------------------------------------

fn exhaustive_pool() -> Vec<Key> {
    vec![ZERO, [1u8; 9], [0, 0, 0, 0, 0, 0, 0, 0, 1], [0xff; 9]]
}

fn exhaustive_alphabet() -> Vec<Op> {
    let avg = 100u64;
    let mut a = Vec::new();
    for i in 0..4 {
        a.push(Op::Touch(i));
    }
    for i in 0..4 {
        a.push(Op::Remove(i));
    }
    a.push(Op::EvictTail);
    for n in 1..=3u64 {
        a.push(Op::EvictToTarget { target: n * avg, avg });
    }
    a.push(Op::Bump);
    a.push(Op::Reset);
    a
}

struct Exh<'a> {
    ctx: &'a Ctx,
    cap: usize,
    pool: &'a [Key],
    alpha: &'a [Op],
    max_len: usize,
    cnt: Cnt,
    by_len: [u64; 8],
    nontrivial: u64,
    hashes: Vec<u64>,
    zero_seen: u64,
    aborted_subtrees: u64,
    reported: HashSet<String>,
}

impl Exh<'_> {
    /// Judge `prefix + [op]`; returns the model after the step when the
    /// subtree may be explored.
    fn node(&mut self, prefix: &[usize], model: &Model, oi: usize, count: bool) -> Option<(Model, bool)> {
        let mut lru = LruManager::new(self.cap as u32, PathBuf::new());
        for &p in prefix {
            apply_raw(&mut lru, &self.alpha[p], self.pool);
        }
        let mut m = model.clone();
        let alpha = self.alpha;
        let op = &alpha[oi];
        let mut scratch = Cnt::default();
        let r = apply_mem(&mut lru, &mut m, op, self.pool, if count { &mut self.cnt } else { &mut scratch })
            .and_then(|info| check_state(&lru, &m, self.pool, op.name()).map(|z| (info, z)));
        match r {
            Ok((info, zero_skipped)) => {
                if zero_skipped {
                    self.zero_seen += 1;
                    if self.reported.insert(SIG_ZERO_FOREACH.to_string()) {
                        let mut ops: Vec<Op> = prefix.iter().map(|&p| self.alpha[p].clone()).collect();
                        ops.push(op.clone());
                        let v = Viol { sig: SIG_ZERO_FOREACH.into(), summary: "for_each_entry omits the all-zero key although contains()/len() report it".into(), extra: json!({"model": hexkeys(&m.keys())}) };
                        report(self.ctx, &v, "exhaustive", self.cap, self.pool, &ops);
                    }
                }
                Some((m, info.evicted))
            }
            Err(v) => {
                self.aborted_subtrees += 1;
                let mut ops: Vec<Op> = prefix.iter().map(|&p| self.alpha[p].clone()).collect();
                ops.push(op.clone());
                report(self.ctx, &v, "exhaustive", self.cap, self.pool, &ops);
                None
            }
        }
    }

    fn account(&mut self, len: usize, hash: u64, nontrivial: bool) {
        self.by_len[len] += 1;
        if nontrivial {
            self.nontrivial += 1;
            // every sequence is distinct by construction; to bound memory only
            // sequences up to length 5 (and 1 in 16 of the longer ones) are
            // hashed into the distinct set, the exact count is an observation
            if len <= 5 || hash % 16 == 0 {
                self.hashes.push(hash);
            }
        }
    }

    fn dfs(&mut self, prefix: &mut Vec<usize>, model: &Model, hash: u64, had_evict: bool) {
        if prefix.len() >= self.max_len {
            return;
        }
        for oi in 0..self.alpha.len() {
            let Some((m, ev)) = self.node(prefix, model, oi, true) else { continue };
            let h = mix64(hash, oi as u64 + 1);
            let nt = had_evict || ev;
            self.account(prefix.len() + 1, h, nt);
            prefix.push(oi);
            self.dfs(prefix, &m, h, nt);
            prefix.pop();
        }
    }
}

fn run_exhaustive(ctx: &Ctx, threads: usize) {
    let pool = exhaustive_pool();
    let alpha = exhaustive_alphabet();
    let max_len: usize = ctx.pick(5, 6);
    let caps = [1usize, 2, 3];
    let n_ops = alpha.len();
    // work items: (capacity, first op, second op)
    let mut items = Vec::new();
    for &c in &caps {
        for i in 0..n_ops {
            for j in 0..n_ops {
                items.push((c, i, j));
            }
        }
    }
    let next = AtomicUsize::new(0);
    std::thread::scope(|s| {
        for _ in 0..threads {
            let (items, next, pool, alpha) = (&items, &next, &pool, &alpha);
            s.spawn(move || {
                loop {
                    let ix = next.fetch_add(1, Ordering::Relaxed);
                    let Some(&(cap, i, j)) = items.get(ix) else { break };
                    let mut e = Exh { ctx, cap, pool, alpha, max_len, cnt: Cnt::default(), by_len: [0; 8], nontrivial: 0, hashes: Vec::new(), zero_seen: 0, aborted_subtrees: 0, reported: HashSet::new() };
                    let r = std::panic::catch_unwind(std::panic::AssertUnwindSafe(|| {
                        let root = Model::new(cap);
                        let h0 = mix64(fnv64(b"exh"), cap as u64);
                        // length-1 node [i]: judged by every item, counted once (j == 0)
                        let Some((m1, ev1)) = e.node(&[], &root, i, j == 0) else { return };
                        let h1 = mix64(h0, i as u64 + 1);
                        if j == 0 {
                            e.account(1, h1, ev1);
                        }
                        if max_len < 2 {
                            return;
                        }
                        let Some((m2, ev2)) = e.node(&[i], &m1, j, true) else { return };
                        let h2 = mix64(h1, j as u64 + 1);
                        e.account(2, h2, ev1 || ev2);
                        let mut prefix = vec![i, j];
                        e.dfs(&mut prefix, &m2, h2, ev1 || ev2);
                    }));
                    if let Err(p) = r {
                        let msg = vh::monitor::watchdog::panic_message(&p);
                        ctx.violation("C17|exhaustive|panic-in-lru-manager", "the LRU manager panicked during an in-memory operation sequence", json!({"part":"exhaustive","capacity":cap,"first_ops":[alpha[i].encode(), alpha[j].encode()],"panic":msg}));
                    }
                    let total: u64 = e.by_len.iter().sum();
                    ctx.add_evals(total);
                    ctx.add_nontrivial(e.hashes.drain(..));
                    for (l, n) in e.by_len.iter().enumerate() {
                        if *n > 0 {
                            ctx.obs(&format!("exhaustive.sequences_len{l}"), *n);
                        }
                    }
                    ctx.obs("exhaustive.sequences_total", total);
                    ctx.obs("exhaustive.sequences_nontrivial", e.nontrivial);
                    ctx.obs("exhaustive.subtrees_cut_after_violation", e.aborted_subtrees);
                    ctx.obs("exhaustive.states_where_for_each_entry_skipped_zero_key", e.zero_seen);
                    e.cnt.flush(ctx, "exhaustive.");
                }
            });
        }
    });
    ctx.sample(json!({"part":"exhaustive","example_sequence":["T1","T2","X200/100","T0","T3"],"meaning":"capacity 2: touch k1, touch k2, evict_to_target(2 entries), touch the all-zero key, touch k3 - judged after every prefix; all 14^len sequences of this shape are run for capacities 1,2,3"}));
    let expect: u64 = caps.len() as u64 * (1..=max_len as u32).map(|l| (n_ops as u64).pow(l)).sum::<u64>();
    let got = ctx.get_obs("exhaustive.sequences_total");
    let cut = ctx.get_obs("exhaustive.subtrees_cut_after_violation");
    ctx.set_extra(
        "exhaustive_part",
        json!({"capacities": caps, "keys": hexkeys(&pool), "alphabet": alpha.iter().map(Op::encode).collect::<Vec<_>>(), "max_len": max_len, "sequences_expected": expect, "sequences_judged": got, "subtrees_cut_after_violation": cut}),
    );
    // the space was enumerated completely iff every sequence was judged
    ctx.set_exhaustive(got == expect && cut == 0);
    if got != expect && cut == 0 {
        ctx.inconclusive(&format!("exhaustive part judged {got} sequences, expected {expect}"));
    }
}

// ---------------------------------------------------------------------------
// part 2: histories with persistence
// ---------------------------------------------------------------------------

fn list_lru_gens(dir: &Path) -> Vec<u64> {
    let mut v = Vec::new();
    if let Ok(rd) = std::fs::read_dir(dir) {
        for e in rd.flatten() {
            let name = e.file_name();
            let Some(n) = name.to_str() else { continue };
            if n.len() == 20 && n.ends_with(".lru") && n[..16].bytes().all(|b| b.is_ascii_hexdigit()) {
                if let Ok(g) = u64::from_str_radix(&n[..16], 16) {
                    v.push(g);
                }
            }
        }
    }
    v.sort_unstable();
    v
}

enum Stop {
    /// unlisted or listed finding after which the history cannot continue
    Fatal(Viol),
    /// harness-side problem (I/O error): not a verdict
    Harness(String),
    /// the history cannot be continued in lock-step for a reason that is not
    /// this property's business (e.g. a damaged file was accepted: C07); not a verdict
    Skip(&'static str),
}

/// Number of slots of a checkpoint file (28-byte header, 20 bytes per slot).
fn file_slots(dir: &Path, g: u64) -> Option<usize> {
    let len = std::fs::metadata(lru_file::lru_file_path(dir, g)).ok()?.len() as usize;
    (len >= lru_file::LRU_HEADER_SIZE).then(|| (len - lru_file::LRU_HEADER_SIZE) / lru_file::LRU_ENTRY_SIZE)
}

/// Damage a valid checkpoint image. Kinds 0..=6 leave the stored MD5 stale or
/// the size invalid; kinds 7..=10 re-serialize (fresh MD5) with broken links.
fn damage(valid: &[u8], kind: u8) -> Option<Vec<u8>> {
    let mut d = valid.to_vec();
    match kind {
        0 => {
            let at = (d.len() * 2 / 3).max(20);
            *d.get_mut(at)? ^= 0x10;
        }
        1 => {
            d.pop();
        }
        2 => d.truncate(27),
        3 => d[0] = 2, // version 2 > LRU_MAX_VERSION
        4 => d[7] ^= 0x01, // inside the MD5 field
        5 => d.clear(),
        6 => d.extend_from_slice(&[0u8; 20]),
        _ => {
            let (mut header, mut entries) = lru_file::deserialize(valid)?;
            let n = entries.len() as u32;
            let tail = header.lru_tail;
            if n == 0 || tail == lru_file::LRU_SENTINEL {
                // empty list: only the header links can be broken
                header.mru_head = n + 3;
            } else {
                match kind {
                    7 => header.mru_head = n + 3,
                    8 => entries[tail as usize].next = n + 1,
                    9 => {
                        // cycle: the MRU head points back at the tail
                        let head = header.mru_head;
                        entries[head as usize].next = tail;
                    }
                    _ => entries[tail as usize].prev = tail,
                }
            }
            d = lru_file::serialize(&header, &entries);
        }
    }
    (d != valid).then_some(d)
}
const DAMAGE_KINDS: u8 = 11;

fn decoy_names(kind: u8) -> Vec<std::ffi::OsString> {
    use std::os::unix::ffi::OsStringExt;
    let mut v: Vec<std::ffi::OsString> = Vec::new();
    if kind & 1 != 0 {
        // 19 and 21 characters, 20 characters without .lru, 20 characters with non-hex digits, unrelated names
        for n in ["000000000000001.lru", "0000000000000001.lrux", "00000000000000ff.idx", "00000000000000zz.lru", "data.001", "shmem"] {
            v.push(n.into());
        }
    }
    if kind & 2 != 0 {
        v.push(std::ffi::OsString::from_vec(vec![0xff, 0xfe, b'.', b'l', b'r', b'u']));
    }
    v
}

struct History<'a> {
    rt: &'a tokio::runtime::Runtime,
    dir: PathBuf,
    cap: usize,
    pool: &'a [Key],
    lru: LruManager,
    model: Model,
    /// generation -> model state checkpointed into that file
    snaps: HashMap<u64, Vec<Key>>,
    /// a public eviction emptied slots while the list was full (design-probing witness)
    public_eviction_pending: bool,
    nontrivial: bool,
    zero_foreach_seen: bool,
    zero_reload_seen: Option<Value>,
    ckpts: u64,
    /// a file with a non-UTF-8 name was dropped into the directory
    decoy_non_utf8: bool,
}

impl<'a> History<'a> {
    fn new(rt: &'a tokio::runtime::Runtime, dir: PathBuf, cap: usize, pool: &'a [Key]) -> Self {
        let lru = LruManager::new(cap as u32, dir.clone());
        Self { rt, dir, cap, pool, lru, model: Model::new(cap), snaps: HashMap::new(), public_eviction_pending: false, nontrivial: false, zero_foreach_seen: false, zero_reload_seen: None, ckpts: 0, decoy_non_utf8: false }
    }

    /// What a textbook LRU of this capacity holds after being given the
    /// checkpointed recency list: the most recent `cap` keys, in order.
    fn retained(&self, checkpointed: &[Key]) -> Vec<Key> {
        checkpointed[checkpointed.len().saturating_sub(self.cap)..].to_vec()
    }

    /// A checkpoint written by a manager of ANOTHER capacity was just loaded
    /// (file `g`, `slots` slots): the manager must not hold more than its own
    /// capacity, and it must still be able to hold `cap` keys (judged on a
    /// fresh manager so that the history is not disturbed).
    fn cross_capacity_check(&mut self, opname: &str, g: u64, slots: usize, checkpointed: &[Key], cnt: &mut Cnt) -> Result<(), Stop> {
        if slots == self.cap {
            return Ok(());
        }
        let class = if slots < self.cap { "checkpoint-written-with-smaller-capacity" } else { "checkpoint-written-with-larger-capacity" };
        cnt.add(if slots < self.cap { "boundary.reload_checkpoint_written_with_smaller_capacity" } else { "boundary.reload_checkpoint_written_with_larger_capacity" }, 1);
        if checkpointed.len() > self.cap {
            cnt.add("boundary.reload_checkpoint_holding_more_keys_than_capacity", 1);
        }
        if self.lru.len() > self.cap {
            return Err(Stop::Fatal(viol(opname, &format!("more-entries-than-capacity|{class}"), "after loading a checkpoint written with a larger capacity the manager holds more entries than its own capacity", json!({"generation": g, "file_slots": slots, "capacity": self.cap, "len": self.lru.len(), "checkpointed": hexkeys(checkpointed)}))));
        }
        if checkpointed.contains(&ZERO) {
            // the listed zero-key reload finding leaves the table inconsistent: probe would only repeat it
            cnt.add("capacity_probe.skipped_zero_key_in_checkpoint", 1);
            return Ok(());
        }
        // capacity probe: `cap` touches of brand-new keys on a fresh manager that loaded the same file
        let fresh: Vec<Key> = (0..self.cap).map(|i| { let b = (i as u32).to_be_bytes(); [0xC1, 0x7E, b[0], b[1], b[2], b[3], 0x5A, 0xA5, 0x01] }).collect();
        if fresh.iter().any(|k| self.pool.contains(k)) {
            return Ok(());
        }
        let mut probe = LruManager::new(self.cap as u32, self.dir.clone());
        if let Err(e) = self.rt.block_on(probe.load_from_disk(g)) {
            return Err(Stop::Fatal(viol(opname, &format!("fresh-manager-cannot-load-the-checkpoint|{class}"), "a fresh manager of another capacity could not load a checkpoint the live manager just loaded", json!({"generation": g, "error": e.to_string()}))));
        }
        cnt.add("capacity_probe.runs", 1);
        for k in &fresh {
            if !probe.touch(k) {
                return Err(Stop::Fatal(viol(opname, &format!("capacity-lost|touch-returns-false|{class}"), "after loading a checkpoint written with another capacity touch() refuses a new key", json!({"generation": g, "file_slots": slots, "capacity": self.cap, "len": probe.len()}))));
            }
        }
        let got = probe.verif_list_keys();
        if probe.len() < self.cap {
            return Err(Stop::Fatal(viol(opname, &format!("capacity-lost|{class}"), "after loading a checkpoint written with another capacity the manager no longer holds `capacity` keys: touching `capacity` new keys leaves fewer", json!({"generation": g, "file_slots": slots, "capacity": self.cap, "len_after_touching_capacity_new_keys": probe.len()}))));
        }
        if probe.len() > self.cap {
            return Err(Stop::Fatal(viol(opname, &format!("more-entries-than-capacity|{class}"), "after loading a checkpoint written with another capacity the manager grows beyond its capacity", json!({"generation": g, "file_slots": slots, "capacity": self.cap, "len_after_touching_capacity_new_keys": probe.len()}))));
        }
        if got != fresh {
            return Err(Stop::Fatal(viol(opname, &format!("key-set-differs-from-reference-lru|{class}"), "after loading a checkpoint written with another capacity, touching `capacity` new keys does not leave exactly those keys", json!({"generation": g, "file_slots": slots, "capacity": self.cap, "list": hexkeys(&got)}))));
        }
        if let Err(msg) = probe.verif_check_invariants() {
            return Err(Stop::Fatal(viol(opname, &format!("invariant:{}|{class}", invariant_class(&msg)), "structural invariant broken after loading a checkpoint written with another capacity", json!({"invariant": msg}))));
        }
        Ok(())
    }

    /// load_from_disk(g) of a file the harness knows the checkpointed state of.
    fn do_load(&mut self, g: u64, newest: bool, cnt: &mut Cnt) -> Result<(), Stop> {
        let checkpointed = self.snaps[&g].clone();
        let slots = file_slots(&self.dir, g).unwrap_or(self.cap);
        let r = self.rt.block_on(self.lru.load_from_disk(g));
        if let Err(e) = r {
            return Err(Stop::Fatal(viol("load_from_disk", "error-loading-own-checkpoint", "load_from_disk refused a file written by checkpoint_to_disk", json!({"generation": g, "error": e.to_string(), "checkpointed": hexkeys(&checkpointed)}))));
        }
        self.nontrivial = true;
        self.public_eviction_pending = false;
        if !newest {
            cnt.add("boundary.load_older_generation", 1);
        }
        if checkpointed.contains(&ZERO) {
            cnt.add("boundary.reload_state_with_zero_key", 1);
        }
        let want = self.retained(&checkpointed);
        self.cross_capacity_check("load_from_disk", g, slots, &checkpointed, cnt)?;
        self.model.q = want.iter().copied().collect();
        self.reload_zero_check("load_from_disk", &want)
    }

    /// Write a damaged copy of an existing checkpoint under generation `gx`.
    fn plant_damaged(&self, kind: u8, gx: u64) -> Option<PathBuf> {
        let src = list_lru_gens(&self.dir).into_iter().rev().find(|g| self.snaps.contains_key(g))?;
        let valid = std::fs::read(lru_file::lru_file_path(&self.dir, src)).ok()?;
        let bad = damage(&valid, kind % DAMAGE_KINDS)?;
        let path = lru_file::lru_file_path(&self.dir, gx);
        std::fs::write(&path, bad).ok()?;
        Some(path)
    }

    fn unused_generation(&self) -> u64 {
        let top = list_lru_gens(&self.dir).into_iter().filter(|g| *g != u64::MAX).max().unwrap_or(0).max(self.lru.generation() % (u64::MAX - 16));
        top + 3
    }

    fn reload_zero_check(&mut self, opname: &str, loaded: &[Key]) -> Result<(), Stop> {
        // the checkpointed state held the all-zero key: if it is gone after the
        // reload this is the listed format finding and the history ends here
        if loaded.contains(&ZERO) && !self.lru.contains(&ZERO) {
            return Err(Stop::Fatal(Viol {
                sig: SIG_ZERO_RELOAD.into(),
                summary: "a checkpointed state containing the all-zero key comes back without it".into(),
                extra: json!({"via": opname, "checkpointed": hexkeys(loaded), "after_reload_list": hexkeys(&self.lru.verif_list_keys()), "after_reload_len": self.lru.len()}),
            }));
        }
        Ok(())
    }

    /// "Restart": a fresh manager on the same directory loads generation `g`
    /// and must see exactly the state that was checkpointed into it.
    fn probe_checkpoint(&mut self, opname: &str, g: u64, cnt: &mut Cnt) -> Result<(), Stop> {
        // every 3rd checkpoint (and every one holding the all-zero key): bounds the file I/O
        self.ckpts += 1;
        if self.ckpts % 3 != 1 && !self.model.has_zero() {
            return Ok(());
        }
        let want = self.model.keys();
        let mut probe = LruManager::new(self.cap as u32, self.dir.clone());
        if let Err(e) = self.rt.block_on(probe.load_from_disk(g)) {
            return Err(Stop::Fatal(viol(opname, "fresh-manager-cannot-load-the-checkpoint", "a fresh manager could not load the file just written", json!({"generation": g, "error": e.to_string()}))));
        }
        cnt.add("checkpoint_probe.fresh_manager_reloads", 1);
        if want.contains(&ZERO) && !probe.contains(&ZERO) {
            // listed format finding; the live manager is intact, the history goes on
            self.zero_reload_seen = Some(json!({"via": format!("{opname} + fresh manager load_from_disk"), "checkpointed": hexkeys(&want), "after_reload_list": hexkeys(&probe.verif_list_keys()), "after_reload_len": probe.len()}));
            return Ok(());
        }
        match check_state(&probe, &self.model, self.pool, opname) {
            Ok(_) => Ok(()),
            Err(mut v) => {
                v.sig = format!("{}|seen-by-fresh-manager-after-reload", v.sig);
                Err(Stop::Fatal(v))
            }
        }
    }

    fn step(&mut self, op: &Op, cnt: &mut Cnt) -> Result<(), Stop> {
        match op {
            Op::Touch(_) | Op::Remove(_) | Op::EvictTail | Op::EvictToTarget { .. } | Op::Bump | Op::Reset => {
                let was_full = self.model.q.len() >= self.cap;
                if let Op::Touch(i) = op {
                    if self.public_eviction_pending && self.model.pos(&self.pool[*i]).is_none() {
                        cnt.add("boundary.touch_new_key_after_public_eviction_from_full_list", 1);
                    }
                }
                let info = apply_mem(&mut self.lru, &mut self.model, op, self.pool, cnt).map_err(Stop::Fatal)?;
                if info.evicted {
                    self.nontrivial = true;
                }
                match op {
                    Op::EvictTail | Op::EvictToTarget { .. } if info.evicted && was_full => self.public_eviction_pending = true,
                    Op::Reset => self.public_eviction_pending = false,
                    _ => {}
                }
            }
            Op::Checkpoint => {
                let g = self.lru.generation();
                let r = self.rt.block_on(self.lru.checkpoint_to_disk());
                if let Err(e) = r {
                    return Err(Stop::Harness(format!("checkpoint_to_disk failed on a temp dir: {e}")));
                }
                if !list_lru_gens(&self.dir).contains(&g) {
                    return Err(Stop::Fatal(viol("checkpoint_to_disk", "ok-but-no-file-for-current-generation", "checkpoint returned Ok but the generation file does not exist", json!({"generation": g}))));
                }
                self.snaps.insert(g, self.model.keys());
                self.probe_checkpoint("checkpoint_to_disk", g, cnt)?;
                if self.model.has_zero() {
                    cnt.add("boundary.checkpoint_with_zero_key", 1);
                }
                if self.model.q.len() == self.cap {
                    cnt.add("boundary.checkpoint_full_list", 1);
                }
                if self.model.q.is_empty() {
                    cnt.add("boundary.checkpoint_empty_list", 1);
                }
            }
            Op::Shutdown => {
                let r = self.rt.block_on(self.lru.shutdown());
                if let Err(e) = r {
                    return Err(Stop::Harness(format!("shutdown failed on a temp dir: {e}")));
                }
                let g = self.lru.generation();
                if !list_lru_gens(&self.dir).contains(&g) {
                    return Err(Stop::Fatal(viol("shutdown", "ok-but-no-file-for-current-generation", "shutdown returned Ok but the generation file does not exist", json!({"generation": g}))));
                }
                self.snaps.insert(g, self.model.keys());
                self.probe_checkpoint("shutdown", g, cnt)?;
            }
            Op::Load(sel) => {
                let gens: Vec<u64> = list_lru_gens(&self.dir).into_iter().filter(|g| self.snaps.contains_key(g)).collect();
                if gens.is_empty() {
                    cnt.add("load_from_disk.skipped_no_checkpoint_file", 1);
                    return Ok(());
                }
                let g = gens[*sel as usize % gens.len()];
                self.do_load(g, Some(&g) == gens.last(), cnt)?;
            }
            Op::LoadMaxGen(sel) => {
                let gens: Vec<u64> = list_lru_gens(&self.dir).into_iter().filter(|g| self.snaps.contains_key(g) && *g != u64::MAX).collect();
                if gens.is_empty() {
                    cnt.add("load_from_disk.skipped_no_checkpoint_file", 1);
                    return Ok(());
                }
                let g0 = gens[*sel as usize % gens.len()];
                // a long-lived installation: the same checkpoint under the last generation number
                if let Err(e) = std::fs::copy(lru_file::lru_file_path(&self.dir, g0), lru_file::lru_file_path(&self.dir, u64::MAX)) {
                    return Err(Stop::Harness(format!("copying a checkpoint file failed: {e}")));
                }
                let snap = self.snaps[&g0].clone();
                self.snaps.insert(u64::MAX, snap);
                cnt.add("boundary.load_generation_u64_max", 1);
                self.do_load(u64::MAX, true, cnt)?;
            }
            Op::LoadMissing => {
                let g = self.unused_generation();
                let r = self.rt.block_on(self.lru.load_from_disk(g));
                match r {
                    // a load that reports failure has loaded nothing: the model stays as it is
                    Err(_) => cnt.add("failed_load.missing_file_err_state_judged_unchanged", 1),
                    // not excluded by the statement; the only textbook readings are "nothing happened" or "empty"
                    Ok(()) => {
                        cnt.add("failed_load.missing_file_ok", 1);
                        if self.lru.is_empty() {
                            self.model.q.clear();
                        }
                    }
                }
            }
            Op::LoadCorrupt(kind) => {
                let gx = self.unused_generation();
                let Some(path) = self.plant_damaged(*kind, gx) else {
                    cnt.add("failed_load.skipped_no_checkpoint_file", 1);
                    return Ok(());
                };
                let r = self.rt.block_on(self.lru.load_from_disk(gx));
                let _ = std::fs::remove_file(&path);
                match r {
                    Err(_) => {
                        cnt.add("failed_load.damaged_file_err_state_judged_unchanged", 1);
                        cnt.add(if *kind % DAMAGE_KINDS >= 7 { "failed_load.damage_class.broken_links_valid_md5" } else { "failed_load.damage_class.stale_md5_or_size_or_version" }, 1);
                    }
                    Ok(()) => {
                        // whether damage must be detected is C07/C02; what the manager then holds is not specified here
                        cnt.add("failed_load.damaged_file_accepted_not_judged", 1);
                        return Err(Stop::Skip("damaged checkpoint accepted by load_from_disk"));
                    }
                }
            }
            Op::CycleCorrupt(kind) => {
                if list_lru_gens(&self.dir).contains(&u64::MAX) {
                    cnt.add("failed_load.skipped_max_generation_present", 1);
                    return Ok(());
                }
                let gx = self.unused_generation();
                let Some(path) = self.plant_damaged(*kind, gx) else {
                    cnt.add("failed_load.skipped_no_checkpoint_file", 1);
                    return Ok(());
                };
                let r = self.rt.block_on(self.lru.run_cycle(0, 100));
                let _ = std::fs::remove_file(&path);
                match r {
                    Err(_) => cnt.add("failed_load.run_cycle_damaged_latest_err_state_judged_unchanged", 1),
                    Ok(_) => {
                        // e.g. falling back to an older checkpoint would be legitimate: not modelled
                        cnt.add("failed_load.run_cycle_damaged_latest_ok_not_judged", 1);
                        return Err(Stop::Skip("run_cycle succeeded although the newest checkpoint is damaged"));
                    }
                }
            }
            Op::DirAway(k) => {
                let away = self.dir.with_extension("away");
                if let Err(e) = std::fs::rename(&self.dir, &away) {
                    return Err(Stop::Harness(format!("moving the data directory away failed: {e}")));
                }
                let g_before = self.lru.generation();
                let outcome: Result<(), String> = match k % 4 {
                    0 => self.rt.block_on(self.lru.checkpoint_to_disk()).map_err(|e| e.to_string()),
                    1 => self.rt.block_on(self.lru.run_cycle(0, 100)).map(|_| ()).map_err(|e| e.to_string()),
                    2 => self.rt.block_on(self.lru.shutdown()).map_err(|e| e.to_string()),
                    _ => self.rt.block_on(self.lru.load_from_disk(g_before)).map_err(|e| e.to_string()),
                };
                let recreated = self.dir.exists();
                if recreated {
                    let _ = std::fs::remove_dir_all(&self.dir);
                }
                if let Err(e) = std::fs::rename(&away, &self.dir) {
                    return Err(Stop::Harness(format!("moving the data directory back failed: {e}")));
                }
                if recreated {
                    cnt.add("io_failure.manager_recreated_directory_not_judged", 1);
                    return Err(Stop::Skip("the manager re-created its data directory"));
                }
                // nothing can have been written or loaded: whatever the call returned, the
                // in-memory LRU must still be the textbook LRU of the history so far
                match (&outcome, k % 4) {
                    (Ok(()), 0 | 2) => {
                        let g = self.lru.generation();
                        return Err(Stop::Fatal(viol(op.name(), "ok-but-no-file-for-current-generation|data-directory-missing", "the call returned Ok although the data directory does not exist", json!({"generation": g}))));
                    }
                    (Ok(()), 3) => return Err(Stop::Fatal(viol("load_from_disk", "ok-for-missing-file|data-directory-missing", "load_from_disk returned Ok although the data directory does not exist", json!({"generation": g_before})))),
                    (Ok(()), _) => cnt.add("io_failure.run_cycle_without_directory_ok", 1),
                    (Err(_), 0) => cnt.add("io_failure.checkpoint_err_state_judged_unchanged", 1),
                    (Err(_), 1) => cnt.add("io_failure.run_cycle_err_state_judged_unchanged", 1),
                    (Err(_), 2) => cnt.add("io_failure.shutdown_err_state_judged_unchanged", 1),
                    (Err(_), _) => cnt.add("io_failure.load_err_state_judged_unchanged", 1),
                }
            }
            Op::Decoys(kind) => {
                for name in decoy_names(*kind) {
                    if let Err(e) = std::fs::write(self.dir.join(&name), b"not a checkpoint") {
                        return Err(Stop::Harness(format!("writing a decoy file failed: {e}")));
                    }
                }
                if kind & 2 != 0 {
                    self.decoy_non_utf8 = true;
                }
            }
            Op::RunCycle { limit, avg } => {
                let latest = list_lru_gens(&self.dir).last().copied();
                let mut loaded: Option<Vec<Key>> = None;
                if let Some(g) = latest {
                    let Some(s) = self.snaps.get(&g) else {
                        return Err(Stop::Harness(format!("directory holds generation {g} that the harness never saw checkpointed")));
                    };
                    loaded = Some(s.clone());
                }
                let slots_before = latest.and_then(|g| file_slots(&self.dir, g)).unwrap_or(self.cap);
                let r = self.rt.block_on(self.lru.run_cycle(*limit, *avg));
                let stats = match r {
                    Ok(s) => s,
                    Err(e) => {
                        return Err(Stop::Fatal(viol("run_cycle", "error-loading-own-checkpoint", "run_cycle failed on files written by checkpoint_to_disk", json!({"error": e.to_string()}))));
                    }
                };
                let mut want_loaded = 0usize;
                if let (Some(l), Some(g)) = (&loaded, latest) {
                    self.nontrivial = true;
                    self.public_eviction_pending = false;
                    cnt.add("boundary.run_cycle_reloaded_checkpoint", 1);
                    if self.decoy_non_utf8 {
                        cnt.add("boundary.run_cycle_reload_with_non_utf8_file_name_in_directory", 1);
                    }
                    if l.contains(&ZERO) {
                        cnt.add("boundary.reload_state_with_zero_key", 1);
                    }
                    let want = self.retained(l);
                    if slots_before != self.cap {
                        // (the eviction step of run_cycle has already run: only the capacity probe and
                        // "more than capacity" apply, both independent of the eviction)
                        self.cross_capacity_check("run_cycle", g, slots_before, l, cnt)?;
                    }
                    self.model.q = want.iter().copied().collect();
                    self.reload_zero_check("run_cycle", &want)?;
                    want_loaded = want.len();
                } else {
                    cnt.add("boundary.run_cycle_without_checkpoint_file", 1);
                }
                // "evict to limit": documented as active only when size_limit > 0 (exact arithmetic)
                let mut want_evicted = 0usize;
                if *limit > 0 && *avg > 0 {
                    while self.model.q.len() as u128 * u128::from(*avg) > u128::from(*limit) {
                        self.model.q.pop_front();
                        want_evicted += 1;
                    }
                }
                if *avg == 0 {
                    cnt.add("boundary.run_cycle_avg_zero", 1);
                }
                if *avg >= 1 << 62 {
                    cnt.add("boundary.run_cycle_huge_avg", 1);
                }
                if want_evicted > 0 {
                    self.nontrivial = true;
                    cnt.add("boundary.run_cycle_evicted_to_limit", 1);
                }
                let want_active = self.model.q.len();
                let want_freed = want_evicted as u128 * u128::from(*avg);
                let freed_fits = want_freed <= u128::from(u64::MAX);
                if stats.loaded_entries != want_loaded || stats.entries_evicted != want_evicted || (freed_fits && u128::from(stats.bytes_freed) != want_freed) {
                    let class = if self.decoy_non_utf8 && want_loaded > 0 && stats.loaded_entries == 0 { "stats-differ-from-reference-lru|checkpoint-not-loaded|non-utf8-file-name-in-directory" } else { "stats-differ-from-reference-lru" };
                    return Err(Stop::Fatal(viol("run_cycle", class, "run_cycle statistics (loaded/evicted/freed) differ from the model", json!({"limit": limit, "avg": avg, "got": {"loaded": stats.loaded_entries, "evicted": stats.entries_evicted, "freed": stats.bytes_freed}, "want": {"loaded": want_loaded, "evicted": want_evicted, "freed": want_freed.to_string()}}))));
                }
                if stats.active_entries != want_active {
                    if self.model.has_zero() && stats.active_entries + 1 == want_active {
                        // counted through for_each_entry: same listed finding
                        self.zero_foreach_seen = true;
                    } else {
                        return Err(Stop::Fatal(viol("run_cycle", "active_entries-differs-from-reference-lru", "run_cycle active_entries differs from the model", json!({"got": stats.active_entries, "want": want_active}))));
                    }
                }
            }
            Op::Reopen => {
                self.lru = LruManager::new(self.cap as u32, self.dir.clone());
                self.model.q.clear();
                self.public_eviction_pending = false;
            }
            Op::ReopenCap(c) => {
                // the installation is re-opened with another configured capacity; the checkpoints stay
                self.cap = *c;
                self.lru = LruManager::new(self.cap as u32, self.dir.clone());
                self.model = Model::new(self.cap);
                self.public_eviction_pending = false;
                cnt.add("boundary.reopen_with_other_capacity", 1);
                if *c == 0 {
                    cnt.add("boundary.capacity_zero", 1);
                }
            }
        }
        match check_state(&self.lru, &self.model, self.pool, op.name()) {
            Ok(z) => {
                if z {
                    self.zero_foreach_seen = true;
                }
                Ok(())
            }
            Err(v) => Err(Stop::Fatal(v)),
        }
    }
}

fn gen_pool(rng: &mut Rng, cap: usize, with_zero: bool) -> Vec<Key> {
    let n = cap + rng.urange(1, cap * 2 + 2);
    let mut pool: Vec<Key> = Vec::with_capacity(n);
    if with_zero {
        pool.push(ZERO);
    }
    let base: Key = rng.array::<9>();
    while pool.len() < n {
        let k: Key = match rng.below(6) {
            0 => {
                // differs from a common base in the last byte only
                let mut k = base;
                k[8] = rng.next_u32() as u8;
                k
            }
            1 => {
                // almost zero
                let mut k = ZERO;
                k[rng.usize_below(9)] = 1 + (rng.next_u32() % 255) as u8;
                k
            }
            2 => [0xff; 9],
            _ => rng.array::<9>(),
        };
        if k != ZERO && !pool.contains(&k) {
            pool.push(k);
        }
    }
    pool
}

fn gen_history(rng: &mut Rng, cap: usize, pool: &[Key], len: usize) -> Vec<Op> {
    let mut ops = Vec::with_capacity(len);
    // a hot subset makes re-touches of present keys frequent
    let hot = (cap + 1).min(pool.len());
    let avgs = [1u64, 100, 4096];
    // files that are not checkpoints lie in the directory of every third history
    match rng.below(6) {
        0 => ops.push(Op::Decoys(1)),
        1 => ops.push(Op::Decoys(3)),
        _ => {}
    }
    let huge = [0u64, 1 << 62, 1 << 63, u64::MAX];
    while ops.len() < len {
        let key = |rng: &mut Rng| if rng.chance(2, 3) { rng.usize_below(hot) } else { rng.usize_below(pool.len()) };
        // rare operations: capacity change, failing loads / I/O, last generation number
        let rare = rng.below(1000);
        if rare < 42 {
            match rare {
                0..=9 => {
                    let c = match rng.below(10) {
                        0 => 0,
                        1 => 1,
                        2 | 3 => (cap / 2).max(1),
                        4 | 5 => cap + 1,
                        6 => (cap * 2).min(96),
                        _ => rng.urange(1, pool.len().max(2)),
                    };
                    ops.push(Op::ReopenCap(c));
                    match rng.below(4) {
                        0 => ops.push(Op::Load(rng.next_u32() % 8)),
                        1 | 2 => ops.push(Op::RunCycle { limit: 0, avg: 100 }),
                        _ => {}
                    }
                }
                10..=15 => ops.push(Op::LoadMissing),
                16..=24 => ops.push(Op::LoadCorrupt(rng.below(u64::from(DAMAGE_KINDS)) as u8)),
                25..=30 => ops.push(Op::CycleCorrupt(rng.below(u64::from(DAMAGE_KINDS)) as u8)),
                31..=34 => {
                    ops.push(Op::LoadMaxGen(rng.next_u32() % 8));
                    ops.push(Op::Touch(key(rng)));
                    ops.push(if rng.bool() { Op::Bump } else { Op::Shutdown });
                    ops.push(Op::Checkpoint);
                }
                _ => ops.push(Op::DirAway(rng.below(4) as u8)),
            }
            continue;
        }
        let r = rng.below(100);
        let op = match r {
            0..=51 => Op::Touch(key(rng)),
            52..=59 => Op::Remove(key(rng)),
            60..=64 => Op::EvictTail,
            65..=70 if rng.chance(1, 12) => {
                // degenerate entry sizes: 0 bytes, and sizes whose total exceeds 64 bits
                let avg = *rng.pick(&huge);
                let n = rng.urange(0, cap + 1) as u64;
                let target = match rng.below(4) {
                    0 => 1,
                    1 => u64::MAX,
                    2 => avg.saturating_mul(n),
                    _ => (1u64 << 63) + u64::from(rng.next_u32()),
                };
                Op::EvictToTarget { target, avg }
            }
            65..=70 => {
                let avg = *rng.pick(&avgs);
                let n = rng.urange(0, cap + 1) as u64;
                let target = match rng.below(4) {
                    0 => n * avg,
                    1 => (n * avg).saturating_sub(1),
                    2 => n * avg + 1,
                    _ => u64::from(rng.next_u32()) % (avg * (cap as u64 + 2) + 1),
                };
                Op::EvictToTarget { target, avg }
            }
            88..=92 if rng.chance(1, 12) => {
                let avg = *rng.pick(&huge);
                let k = rng.urange(0, cap + 2) as u64;
                let limit = match rng.below(4) {
                    0 => 1,
                    1 => u64::MAX,
                    2 => avg.saturating_mul(k),
                    _ => 1u64 << 63,
                };
                Op::RunCycle { limit, avg }
            }
            71..=74 => Op::Bump,
            75 => Op::Reset,
            76..=82 => Op::Checkpoint,
            83..=87 => Op::Load(rng.next_u32() % 8),
            88..=92 => {
                let avg = *rng.pick(&avgs[..2]);
                let k = rng.urange(0, cap + 2) as u64;
                let limit = match rng.below(5) {
                    0 => 0,
                    1 => k * avg,
                    2 => k * avg + avg / 2,
                    3 => (k * avg).saturating_sub(1),
                    _ => (cap as u64 + 5) * avg,
                };
                Op::RunCycle { limit, avg }
            }
            93..=95 => Op::Shutdown,
            _ => Op::Reopen,
        };
        ops.push(op);
        // the design-probing witness, planted now and then: fill, trim everything, touch
        if rng.chance(1, 200) && ops.len() + cap + 3 < len {
            for i in 0..cap.min(pool.len()) {
                ops.push(Op::Touch(i));
            }
            ops.push(Op::EvictToTarget { target: cap as u64 * 100, avg: 100 });
            ops.push(Op::Touch(rng.usize_below(pool.len())));
        }
    }
    ops.truncate(len);
    ops
}

struct HistOutcome {
    executed: usize,
    nontrivial: bool,
}

/// Runs one history; reports findings through ctx. Returns how far it got.
fn run_history(ctx: &Ctx, rt: &tokio::runtime::Runtime, part: &str, cap: usize, pool: &[Key], ops: &[Op], cnt: &mut Cnt, reported_zero: &mut bool, reported_zero_reload: &mut bool) -> HistOutcome {
    let tmp = match tempfile::tempdir() {
        Ok(t) => t,
        Err(e) => {
            ctx.inconclusive(&format!("tempdir failed: {e}"));
            return HistOutcome { executed: 0, nontrivial: false };
        }
    };
    let mut h = History::new(rt, tmp.path().to_path_buf(), cap, pool);
    let mut executed = 0usize;
    let mut current = 0usize;
    let r = std::panic::catch_unwind(std::panic::AssertUnwindSafe(|| {
        for (i, op) in ops.iter().enumerate() {
            current = i;
            cnt.add(
                match op {
                    Op::Touch(_) => "op.touch",
                    Op::Remove(_) => "op.remove",
                    Op::EvictTail => "op.evict_tail",
                    Op::EvictToTarget { .. } => "op.evict_to_target",
                    Op::Bump => "op.bump_generation",
                    Op::Reset => "op.reset",
                    Op::Checkpoint => "op.checkpoint_to_disk",
                    Op::Load(_) => "op.load_from_disk",
                    Op::RunCycle { .. } => "op.run_cycle",
                    Op::Shutdown => "op.shutdown",
                    Op::Reopen => "op.reopen",
                    Op::ReopenCap(_) => "op.reopen_with_other_capacity",
                    Op::LoadMissing => "op.load_from_disk_missing_file",
                    Op::LoadCorrupt(_) => "op.load_from_disk_damaged_file",
                    Op::CycleCorrupt(_) => "op.run_cycle_damaged_latest_file",
                    Op::LoadMaxGen(_) => "op.load_from_disk_generation_u64_max",
                    Op::Decoys(_) => "op.decoy_files",
                    Op::DirAway(_) => "op.call_with_data_directory_missing",
                },
                1,
            );
            match h.step(op, cnt) {
                Ok(()) => {
                    executed = i + 1;
                    if h.zero_foreach_seen && !*reported_zero {
                        *reported_zero = true;
                        let v = Viol { sig: SIG_ZERO_FOREACH.into(), summary: "for_each_entry omits the all-zero key although contains()/len() report it".into(), extra: json!({"model": hexkeys(&h.model.keys())}) };
                        report(ctx, &v, part, cap, pool, &ops[..=i]);
                    }
                    if h.zero_foreach_seen {
                        cnt.add("states_where_for_each_entry_skipped_zero_key", 1);
                        h.zero_foreach_seen = false;
                    }
                    if let Some(extra) = h.zero_reload_seen.take() {
                        cnt.add("checkpoint_probe.zero_key_lost_in_fresh_manager", 1);
                        if !*reported_zero_reload {
                            *reported_zero_reload = true;
                            let v = Viol { sig: SIG_ZERO_RELOAD.into(), summary: "a checkpointed state containing the all-zero key comes back without it".into(), extra };
                            report(ctx, &v, part, cap, pool, &ops[..=i]);
                        }
                    }
                }
                Err(Stop::Fatal(v)) => {
                    executed = i + 1;
                    if v.sig == SIG_ZERO_RELOAD {
                        cnt.add("histories_ended_by_zero_key_reload_finding", 1);
                    }
                    report(ctx, &v, part, cap, pool, &ops[..=i]);
                    break;
                }
                Err(Stop::Harness(msg)) => {
                    ctx.inconclusive(&msg);
                    break;
                }
                Err(Stop::Skip(_why)) => {
                    executed = i + 1;
                    cnt.add("histories_ended_early_not_judged", 1);
                    break;
                }
            }
        }
    }));
    if let Err(p) = r {
        let msg = vh::monitor::watchdog::panic_message(&p);
        let op = ops.get(current).map_or("?", Op::name);
        let rel = if msg.contains("overflow") { "panic-in-lru-manager|arithmetic-overflow" } else { "panic-in-lru-manager" };
        let v = viol(op, rel, "the LRU manager panicked", json!({"panic": msg}));
        report(ctx, &v, part, cap, pool, &ops[..=current.min(ops.len().saturating_sub(1))]);
    }
    HistOutcome { executed, nontrivial: h.nontrivial }
}

fn hash_history(cap: usize, pool: &[Key], ops: &[Op]) -> u64 {
    let mut h = mix64(fnv64(b"hist"), cap as u64);
    for k in pool {
        h = mix64(h, fnv64(k));
    }
    for op in ops {
        h = mix64(h, fnv64(op.encode().as_bytes()));
    }
    h
}

fn run_random(ctx: &Ctx, threads: usize) {
    let total: usize = ctx.pick(800, 20_000);
    let next = AtomicUsize::new(0);
    std::thread::scope(|s| {
        for _ in 0..threads {
            let next = &next;
            s.spawn(move || {
                let rt = match tokio::runtime::Builder::new_current_thread().enable_all().build() {
                    Ok(rt) => rt,
                    Err(e) => {
                        ctx.inconclusive(&format!("tokio runtime: {e}"));
                        return;
                    }
                };
                let mut cnt = Cnt::default();
                let mut reported_zero = false;
                let mut reported_zero_reload = false;
                loop {
                    let ix = next.fetch_add(1, Ordering::Relaxed);
                    if ix >= total {
                        break;
                    }
                    // one PRNG stream per history: reproducible independent of scheduling
                    let mut rng = ctx.rng(10_000 + ix as u64);
                    let cap = match rng.below(10) {
                        0 => 1,
                        1 => 2,
                        2 => 3,
                        3 => 4,
                        4 => 64,
                        5 => *rng.pick(&[8usize, 16, 32]),
                        _ => rng.urange(1, 64),
                    };
                    let with_zero = ix % 4 == 0;
                    let pool = gen_pool(&mut rng, cap, with_zero);
                    let len = match rng.below(4) {
                        0 => rng.urange(50, 200),
                        1 => rng.urange(200, 800),
                        _ => rng.urange(800, 2000),
                    };
                    let ops = gen_history(&mut rng, cap, &pool, len);
                    let out = run_history(ctx, &rt, "random", cap, &pool, &ops, &mut cnt, &mut reported_zero, &mut reported_zero_reload);
                    cnt.add("histories", 1);
                    cnt.add("operations_executed", out.executed as u64);
                    if with_zero {
                        cnt.add("histories_with_zero_key_in_pool", 1);
                    }
                    if cap >= 32 {
                        cnt.add("histories_capacity>=32", 1);
                    }
                    if len >= 1500 {
                        cnt.add("histories_len>=1500", 1);
                    }
                    if out.nontrivial {
                        ctx.eval_nontrivial(hash_history(cap, &pool, &ops));
                    } else {
                        ctx.eval();
                    }
                    if ix < 2 {
                        ctx.sample(json!({"part":"random","capacity":cap,"keys":pool.len(),"zero_key_in_pool":with_zero,"len":ops.len(),"executed":out.executed,"first_ops":ops.iter().take(40).map(Op::encode).collect::<Vec<_>>()}));
                    }
                }
                cnt.flush(ctx, "random.");
            });
        }
    });
}


// ---------------------------------------------------------------------------
// part 3: the LRU driven through DynamicContainer (read / write touch the key)
// ---------------------------------------------------------------------------

#[derive(Clone, Debug)]
enum COp {
    /// container.write of payload #id
    Write(u32),
    /// container.read of the i-th key learned so far
    Read(u32),
    /// container.read of the i-th key, issued on a second thread while this thread holds the shared manager's lock
    /// (`true`: exclusive guard, as maintenance does; `false`: shared guard, as a thread inspecting the tracker does);
    /// the guard is released once the read has gone quiet (it waits for the manager, or it returned)
    ReadWhileLocked(u32, bool),
    /// container.read of a key that was never written
    ReadMissing(u32),
    /// container.remove of the i-th key
    CRemove(u32),
    /// direct operations on the shared manager between container calls
    LRemove(u32),
    LEvictTail,
    LEvictTarget(u64),
    /// checkpoint the shared manager and load the same generation again
    Persist,
    /// drop the container and open a new one on the same directory with the same manager
    ReopenContainer,
    /// the same, but the new container is read-only (reads still count as accesses, writes are refused)
    ReopenReadOnly,
}

impl COp {
    fn encode(&self) -> String {
        match self {
            COp::Write(i) => format!("w{i}"),
            COp::Read(i) => format!("r{i}"),
            COp::ReadWhileLocked(i, true) => format!("B{i}"),
            COp::ReadWhileLocked(i, false) => format!("b{i}"),
            COp::ReadMissing(i) => format!("m{i}"),
            COp::CRemove(i) => format!("d{i}"),
            COp::LRemove(i) => format!("R{i}"),
            COp::LEvictTail => "E".into(),
            COp::LEvictTarget(n) => format!("X{n}"),
            COp::Persist => "P".into(),
            COp::ReopenContainer => "o".into(),
            COp::ReopenReadOnly => "q".into(),
        }
    }
    fn decode(s: &str) -> Option<COp> {
        let (head, rest) = s.split_at(1.min(s.len()));
        Some(match head {
            "w" => COp::Write(rest.parse().ok()?),
            "r" => COp::Read(rest.parse().ok()?),
            "B" => COp::ReadWhileLocked(rest.parse().ok()?, true),
            "b" => COp::ReadWhileLocked(rest.parse().ok()?, false),
            "m" => COp::ReadMissing(rest.parse().ok()?),
            "d" => COp::CRemove(rest.parse().ok()?),
            "R" => COp::LRemove(rest.parse().ok()?),
            "E" => COp::LEvictTail,
            "X" => COp::LEvictTarget(rest.parse().ok()?),
            "P" => COp::Persist,
            "o" => COp::ReopenContainer,
            "q" => COp::ReopenReadOnly,
            _ => return None,
        })
    }
}

fn c_payload(pseed: u64, id: u32) -> Vec<u8> {
    let mut r = Rng::derive(pseed, u64::from(id));
    let n = 1 + r.usize_below(700);
    r.bytes(n)
}

fn pad16(k: &Key) -> [u8; 16] {
    let mut o = [0u8; 16];
    o[..9].copy_from_slice(k);
    o
}

fn open_container(rt: &tokio::runtime::Runtime, root: &Path, lru: &Arc<RwLock<LruManager>>, read_only: bool) -> Result<Arc<DynamicContainer>, String> {
    let mut b = DynamicContainer::builder(root.join("store")).lru(lru.clone());
    if read_only {
        b = b.access_mode(AccessMode::ReadOnly);
    }
    let c = b.build().map_err(|e| format!("DynamicContainer build: {e}"))?;
    rt.block_on(c.open()).map_err(|e| format!("DynamicContainer open: {e}"))?;
    Ok(Arc::new(c))
}

/// What a read issued on a second thread reports to the thread that holds the manager's lock.
enum ReaderMsg {
    /// the thread runs and is about to call `read`
    Started,
    /// the read passed one of the container's instrumentation points (between its separately locked steps)
    Progress,
    Done(Result<Vec<u8>, String>),
}

thread_local! {
    /// set on a reader thread of `read_while_locked`: progress reports go here
    static READER_TX: std::cell::RefCell<Option<std::sync::mpsc::Sender<ReaderMsg>>> = const { std::cell::RefCell::new(None) };
}

/// The container's instrumentation points report the progress of reads issued by `read_while_locked` (a no-op on
/// every other thread).
fn install_progress_reporter() {
    cascette_client_storage::verif_hooks::set_controller(Some(Arc::new(|_site: &'static str| {
        READER_TX.with(|t| {
            if let Some(tx) = t.borrow().as_ref() {
                let _ = tx.send(ReaderMsg::Progress);
            }
        });
    })));
}

/// How long a read must have been quiet (no progress report, no result) before the guard is released.
const QUIET: std::time::Duration = std::time::Duration::from_millis(8);
/// Watchdog for the reader thread; its firing is inconclusive.
const READER_WATCHDOG: std::time::Duration = std::time::Duration::from_secs(30);

enum LockedRead {
    /// result of the read, and whether it arrived while the guard was still held
    Done(Result<Vec<u8>, String>, bool),
    Watchdog(&'static str),
}

/// `container.read(k16)` on a second thread while THIS thread holds the manager's lock; the guard is dropped once the
/// read has been quiet for `QUIET` (it waits for the manager) or has returned. Deterministic in what is judged: the
/// read has returned and the guard is gone when this function returns `Done`.
fn read_while_locked(c: &Arc<DynamicContainer>, lru: &Arc<RwLock<LruManager>>, k16: [u8; 16], exclusive: bool) -> LockedRead {
    use std::sync::mpsc::{RecvTimeoutError, channel};
    let (tx, rx) = channel::<ReaderMsg>();
    // the guard first: the read below starts while the manager is held
    let (wguard, rguard) = if exclusive { (Some(lru.write()), None) } else { (None, Some(lru.read())) };
    if let Some(g) = rguard.as_ref() {
        // what the holder does with its shared guard: it looks at the tracker
        let mut n = 0usize;
        g.for_each_entry(|_| n += 1);
        let _ = (n, g.len());
    }
    let c2 = Arc::clone(c);
    let spawned = std::thread::Builder::new().spawn(move || {
        let res = match tokio::runtime::Builder::new_current_thread().enable_all().build() {
            Ok(rt) => {
                READER_TX.with(|t| *t.borrow_mut() = Some(tx.clone()));
                let _ = tx.send(ReaderMsg::Started);
                let r = std::panic::catch_unwind(std::panic::AssertUnwindSafe(|| c_read(&rt, &c2, &k16)));
                READER_TX.with(|t| *t.borrow_mut() = None);
                r.unwrap_or_else(|p| Err(format!("panic: {}", vh::monitor::watchdog::panic_message(&p))))
            }
            Err(e) => Err(format!("tokio runtime: {e}")),
        };
        let _ = tx.send(ReaderMsg::Done(res));
    });
    if spawned.is_err() {
        return LockedRead::Watchdog("could not spawn the reader thread");
    }
    // 1. the reader runs
    let mut early: Option<Result<Vec<u8>, String>> = None;
    match rx.recv_timeout(READER_WATCHDOG) {
        Ok(ReaderMsg::Done(r)) => early = Some(r),
        Ok(_) => {}
        Err(_) => return LockedRead::Watchdog("the reader thread did not start"),
    }
    // 2. hold the guard until the read is quiet or done
    while early.is_none() {
        match rx.recv_timeout(QUIET) {
            Ok(ReaderMsg::Done(r)) => early = Some(r),
            Ok(_) => {}
            Err(RecvTimeoutError::Timeout) => break,
            Err(RecvTimeoutError::Disconnected) => return LockedRead::Watchdog("the reader thread vanished"),
        }
    }
    drop(wguard);
    drop(rguard);
    if let Some(r) = early {
        return LockedRead::Done(r, true);
    }
    // 3. the manager is free: the read completes
    loop {
        match rx.recv_timeout(READER_WATCHDOG) {
            Ok(ReaderMsg::Done(r)) => return LockedRead::Done(r, false),
            Ok(_) => {}
            Err(_) => return LockedRead::Watchdog("the read did not return after the manager's lock was released"),
        }
    }
}

fn c_read(rt: &tokio::runtime::Runtime, c: &DynamicContainer, k16: &[u8; 16]) -> Result<Vec<u8>, String> {
    let mut buf = vec![0u8; 1024];
    let n = rt.block_on(c.read(k16, 0, 0, &mut buf)).map_err(|e| e.to_string())?;
    buf.truncate(n.min(1024));
    Ok(buf)
}

struct CHist<'a> {
    rt: &'a tokio::runtime::Runtime,
    root: PathBuf,
    cap: usize,
    pseed: u64,
    lru: Arc<RwLock<LruManager>>,
    c: Option<Arc<DynamicContainer>>,
    model: Model,
    /// keys learned so far (9-byte prefixes of the encoding keys the container chose), in order of discovery
    known: Vec<Key>,
    payload_of: HashMap<Key, u32>,
    evictions: u64,
}

impl CHist<'_> {
    fn state(&self, opname: &str) -> Result<(), Viol> {
        check_state(&self.lru.read(), &self.model, &self.known, opname).map(|_| ())
    }

    /// The call failed (or the statement leaves its effect on the tracker
    /// open): the tracker must be the textbook LRU either without the access
    /// or with `alt` applied; the model follows what is observed.
    fn either(&mut self, opname: &str, alt: Model, cnt: &mut Cnt, label_same: &'static str, label_alt: &'static str) -> Result<(), Stop> {
        match self.state(opname) {
            Ok(()) => {
                cnt.add(label_same, 1);
                Ok(())
            }
            Err(first) => {
                let keep = std::mem::replace(&mut self.model, alt);
                if self.state(opname).is_ok() {
                    cnt.add(label_alt, 1);
                    Ok(())
                } else {
                    self.model = keep;
                    Err(Stop::Fatal(first))
                }
            }
        }
    }

    fn step(&mut self, op: &COp, cnt: &mut Cnt) -> Result<(), Stop> {
        let rt = self.rt;
        match op {
            COp::Write(id) => {
                let data = c_payload(self.pseed, *id);
                let ckey: [u8; 16] = md5::compute(&data).0;
                let Some(c) = self.c.as_ref() else { return Err(Stop::Harness("no container".into())) };
                let r = rt.block_on(c.write(&ckey, &data));
                if let Err(e) = r {
                    cnt.add("write_err", 1);
                    if matches!(e, cascette_client_storage::StorageError::AccessDenied(_)) {
                        // refused before anything was stored: no access happened
                        cnt.add("write_refused_by_read_only_container_tracker_judged_unchanged", 1);
                        return self.state("container.write").map_err(|mut v| {
                            v.sig = format!("{}|refused-write", v.sig);
                            Stop::Fatal(v)
                        });
                    }
                    // other failures are not this property's business; the tracker must still be a textbook LRU
                    return self.state("container.write").map_err(|_| Stop::Skip("container write failed and the tracker moved"));
                }
                cnt.add("write_ok", 1);
                let list = self.lru.read().verif_list_keys();
                let Some(k) = list.last().copied() else {
                    return Err(Stop::Fatal(viol("container.write", "no-key-tracked-after-write", "a successful write through the container left the tracker empty (capacity >= 1)", json!({"capacity": self.cap}))));
                };
                let was_known = self.model.pos(&k).is_some();
                let was_full = self.model.q.len() >= self.cap;
                let (_, ev) = self.model.touch(&k);
                if ev {
                    self.evictions += 1;
                    cnt.add("write_evicted_lru_tail", 1);
                }
                if was_known {
                    cnt.add("write_of_tracked_object", 1);
                } else if was_full {
                    cnt.add("write_new_key_at_capacity", 1);
                }
                if !self.known.contains(&k) {
                    self.known.push(k);
                }
                // exactly one access happened: everything else keeps its order, the tail went if full
                self.state("container.write").map_err(Stop::Fatal)?;
                // the most recent key must name an object of the container (the write returned Ok, so
                // its object is indexed) ...
                if let Ok(false) = rt.block_on(c.query(&pad16(&k))) {
                    return Err(Stop::Fatal(viol("container.write", "most-recent-key-is-not-a-stored-object", "after a successful write the key at the MRU end of the tracker is not a key of the container's index: the write touched something else than the key it stored the object under", json!({"mru_key": hex::encode(k)}))));
                }
                // ... namely the one just written
                match c_read(rt, c, &pad16(&k)) {
                    Ok(bytes) if bytes == data => cnt.add("write_key_verified_by_read_back", 1),
                    Ok(bytes) => {
                        return Err(Stop::Fatal(viol("container.write", "most-recent-key-does-not-name-the-written-object", "after a write the key at the MRU end reads back other bytes than the ones written: the write did not touch its own key", json!({"mru_key": hex::encode(k), "written_len": data.len(), "read_len": bytes.len()}))));
                    }
                    Err(_) => cnt.add("write_key_unverified_read_failed", 1),
                }
                // (that read touched k, which already was most recent)
                self.state("container.read").map_err(Stop::Fatal)?;
                self.payload_of.insert(k, *id);
            }
            COp::Read(i) => {
                if self.known.is_empty() {
                    return Ok(());
                }
                let k = self.known[*i as usize % self.known.len()];
                let Some(c) = self.c.as_ref() else { return Err(Stop::Harness("no container".into())) };
                let tracked = self.model.pos(&k).is_some();
                let was_full = self.model.q.len() >= self.cap;
                let r = c_read(rt, c, &pad16(&k));
                let mut touched = self.model.clone();
                let (_, ev) = touched.touch(&k);
                match r {
                    Ok(bytes) => {
                        cnt.add("read_ok", 1);
                        if !tracked {
                            cnt.add("read_ok_of_object_evicted_from_tracker", 1);
                            if was_full {
                                cnt.add("read_new_key_at_capacity", 1);
                            }
                        }
                        if self.payload_of.get(&k).is_some_and(|id| c_payload(self.pseed, *id) != bytes) {
                            cnt.add("read_bytes_differ_not_judged_here", 1);
                        }
                        if ev {
                            self.evictions += 1;
                        }
                        self.model = touched;
                        // a successful read is an access: the key is present and most recent afterwards
                        self.state("container.read").map_err(Stop::Fatal)?;
                    }
                    Err(_) => {
                        cnt.add("read_err", 1);
                        self.either("container.read", touched, cnt, "read_err_tracker_unchanged", "read_err_tracker_touched")?;
                    }
                }
            }
            COp::ReadWhileLocked(i, exclusive) => {
                if self.known.is_empty() {
                    return Ok(());
                }
                let k = self.known[*i as usize % self.known.len()];
                let Some(c) = self.c.as_ref() else { return Err(Stop::Harness("no container".into())) };
                let tracked = self.model.pos(&k).is_some();
                let most_recent = self.model.q.back() == Some(&k);
                let (r, while_held) = match read_while_locked(c, &self.lru, pad16(&k), *exclusive) {
                    LockedRead::Done(r, h) => (r, h),
                    LockedRead::Watchdog(why) => return Err(Stop::Harness(format!("read while the manager's lock is held elsewhere: {why} (watchdog)"))),
                };
                let mut touched = self.model.clone();
                let (_, ev) = touched.touch(&k);
                let class = "manager-locked-by-another-thread-during-the-read";
                match r {
                    Ok(_) => {
                        cnt.add(if *exclusive { "read_ok_while_manager_locked_elsewhere.exclusive_guard" } else { "read_ok_while_manager_locked_elsewhere.shared_guard" }, 1);
                        if !most_recent {
                            cnt.add("read_ok_while_manager_locked_elsewhere.of_key_not_most_recent", 1);
                        }
                        if !tracked {
                            cnt.add("read_ok_while_manager_locked_elsewhere.of_object_evicted_from_tracker", 1);
                        }
                        cnt.add(if while_held { "read_while_manager_locked_elsewhere.returned_while_lock_held(observation)" } else { "read_while_manager_locked_elsewhere.returned_after_lock_release(observation)" }, 1);
                        if ev {
                            self.evictions += 1;
                        }
                        self.model = touched;
                        // a successful read is an access, whoever else held the manager meanwhile
                        self.state("container.read").map_err(|mut v| {
                            v.sig = format!("{}|{class}", v.sig);
                            Stop::Fatal(v)
                        })?;
                    }
                    Err(_) => {
                        cnt.add("read_err", 1);
                        self.either("container.read", touched, cnt, "read_err_tracker_unchanged", "read_err_tracker_touched").map_err(|e| match e {
                            Stop::Fatal(mut v) => {
                                v.sig = format!("{}|{class}", v.sig);
                                Stop::Fatal(v)
                            }
                            o => o,
                        })?;
                    }
                }
            }
            COp::ReadMissing(n) => {
                let k16: [u8; 16] = Rng::derive(self.pseed, 1_000_000 + u64::from(*n)).array::<16>();
                let k: Key = k16[..9].try_into().unwrap_or(ZERO);
                let Some(c) = self.c.as_ref() else { return Err(Stop::Harness("no container".into())) };
                let r = c_read(rt, c, &k16);
                let mut touched = self.model.clone();
                touched.touch(&k);
                if r.is_ok() {
                    cnt.add("read_of_unwritten_key_ok_not_judged_here", 1);
                }
                let before = self.model.q.len();
                self.either("container.read", touched, cnt, "read_missing_tracker_unchanged", "read_missing_tracker_touched")?;
                if self.model.q.len() != before || self.model.pos(&k).is_some() {
                    if !self.known.contains(&k) {
                        self.known.push(k);
                    }
                }
            }
            COp::CRemove(i) => {
                if self.known.is_empty() {
                    return Ok(());
                }
                let k = self.known[*i as usize % self.known.len()];
                let Some(c) = self.c.as_ref() else { return Err(Stop::Harness("no container".into())) };
                let _ = rt.block_on(c.remove(&pad16(&k)));
                cnt.add("remove", 1);
                // whether removing an object also forgets its recency record is left open by the statement
                let mut removed = self.model.clone();
                removed.remove(&k);
                self.either("container.remove", removed, cnt, "remove_tracker_unchanged", "remove_tracker_forgot_key")?;
            }
            COp::LRemove(_) | COp::LEvictTail | COp::LEvictTarget(_) => {
                if self.known.is_empty() {
                    return Ok(());
                }
                let mop = match op {
                    COp::LRemove(i) => Op::Remove(*i as usize % self.known.len()),
                    COp::LEvictTail => Op::EvictTail,
                    COp::LEvictTarget(n) => Op::EvictToTarget { target: n * 100, avg: 100 },
                    _ => unreachable!(),
                };
                let info = apply_mem(&mut self.lru.write(), &mut self.model, &mop, &self.known, cnt).map_err(Stop::Fatal)?;
                if info.evicted {
                    self.evictions += 1;
                }
                self.state(mop.name()).map_err(Stop::Fatal)?;
            }
            COp::Persist => {
                let mut g = self.lru.write();
                let generation = g.generation();
                if let Err(e) = rt.block_on(g.checkpoint_to_disk()) {
                    return Err(Stop::Harness(format!("checkpoint_to_disk failed on a temp dir: {e}")));
                }
                if let Err(e) = rt.block_on(g.load_from_disk(generation)) {
                    return Err(Stop::Fatal(viol("load_from_disk", "error-loading-own-checkpoint", "load_from_disk refused a file written by checkpoint_to_disk", json!({"generation": generation, "error": e.to_string()}))));
                }
                drop(g);
                cnt.add("tracker_checkpoint_and_reload", 1);
                self.state("load_from_disk").map_err(Stop::Fatal)?;
            }
            COp::ReopenContainer | COp::ReopenReadOnly => {
                self.c = None;
                let ro = matches!(op, COp::ReopenReadOnly);
                if ro {
                    cnt.add("reopened_read_only", 1);
                }
                match open_container(rt, &self.root, &self.lru, ro) {
                    Ok(c) => self.c = Some(c),
                    Err(e) => return Err(Stop::Harness(e)),
                }
                cnt.add("reopened", 1);
                // opening a container is not an access
                self.state("container.open").map_err(Stop::Fatal)?;
            }
        }
        Ok(())
    }
}

fn gen_container_history(rng: &mut Rng, cap: usize, len: usize) -> Vec<COp> {
    let ids = (cap as u32 + 2 + rng.below(cap as u64 * 2 + 2) as u32).max(3);
    let mut ops = Vec::with_capacity(len);
    let mut missing = 0u32;
    while ops.len() < len {
        ops.push(match rng.below(100) {
            0..=34 => COp::Write(rng.below(u64::from(ids)) as u32),
            35..=61 => COp::Read(rng.next_u32() % 64),
            62..=69 => COp::ReadWhileLocked(rng.next_u32() % 64, rng.bool()),
            70..=74 => {
                missing += 1;
                COp::ReadMissing(missing)
            }
            75..=80 => COp::CRemove(rng.next_u32() % 64),
            81..=85 => COp::LRemove(rng.next_u32() % 64),
            86..=89 => COp::LEvictTail,
            90..=92 => COp::LEvictTarget(rng.below(cap as u64 + 2)),
            93..=95 => COp::Persist,
            96 | 97 => COp::ReopenReadOnly,
            _ => COp::ReopenContainer,
        });
    }
    ops
}

struct CHistOutcome {
    executed: usize,
    evictions: u64,
}

fn run_container_history(ctx: &Ctx, rt: &tokio::runtime::Runtime, part: &str, cap: usize, pseed: u64, ops: &[COp], cnt: &mut Cnt) -> CHistOutcome {
    let tmp = match tempfile::tempdir() {
        Ok(t) => t,
        Err(e) => {
            ctx.inconclusive(&format!("tempdir failed: {e}"));
            return CHistOutcome { executed: 0, evictions: 0 };
        }
    };
    let root = tmp.path().to_path_buf();
    let lru_dir = root.join("lru");
    if let Err(e) = std::fs::create_dir_all(&lru_dir) {
        ctx.inconclusive(&format!("create_dir_all failed: {e}"));
        return CHistOutcome { executed: 0, evictions: 0 };
    }
    let lru = Arc::new(RwLock::new(LruManager::new(cap as u32, lru_dir)));
    let c = match open_container(rt, &root, &lru, false) {
        Ok(c) => c,
        Err(e) => {
            ctx.inconclusive(&e);
            return CHistOutcome { executed: 0, evictions: 0 };
        }
    };
    let mut h = CHist { rt, root, cap, pseed, lru, c: Some(c), model: Model::new(cap), known: Vec::new(), payload_of: HashMap::new(), evictions: 0 };
    let mut executed = 0usize;
    let mut current = 0usize;
    let detail = |upto: usize, v: &Viol| json!({"part": part, "via": "DynamicContainer", "capacity": cap, "pseed": pseed.to_string(), "ops": ops[..=upto.min(ops.len().saturating_sub(1))].iter().map(COp::encode).collect::<Vec<_>>(), "failing_op_index": upto, "observation": v.extra});
    let r = std::panic::catch_unwind(std::panic::AssertUnwindSafe(|| {
        for (i, op) in ops.iter().enumerate() {
            current = i;
            match h.step(op, cnt) {
                Ok(()) => executed = i + 1,
                Err(Stop::Fatal(v)) => {
                    executed = i + 1;
                    ctx.violation(&v.sig, &v.summary, detail(i, &v));
                    break;
                }
                Err(Stop::Harness(msg)) => {
                    ctx.inconclusive(&msg);
                    break;
                }
                Err(Stop::Skip(_)) => {
                    executed = i + 1;
                    cnt.add("histories_ended_early_not_judged", 1);
                    break;
                }
            }
        }
    }));
    if let Err(p) = r {
        let msg = vh::monitor::watchdog::panic_message(&p);
        let v = viol("container", "panic-in-lru-manager-or-container", "a panic while the LRU was driven through the container", json!({"panic": msg}));
        ctx.violation(&v.sig, &v.summary, detail(current, &v));
    }
    CHistOutcome { executed, evictions: h.evictions }
}

fn run_container(ctx: &Ctx, threads: usize) {
    let total: usize = ctx.pick(64, 1500);
    let next = AtomicUsize::new(0);
    std::thread::scope(|s| {
        for _ in 0..threads {
            let next = &next;
            s.spawn(move || {
                let rt = match tokio::runtime::Builder::new_current_thread().enable_all().build() {
                    Ok(rt) => rt,
                    Err(e) => {
                        ctx.inconclusive(&format!("tokio runtime: {e}"));
                        return;
                    }
                };
                let mut cnt = Cnt::default();
                loop {
                    let ix = next.fetch_add(1, Ordering::Relaxed);
                    if ix >= total {
                        break;
                    }
                    let mut rng = ctx.rng(50_000 + ix as u64);
                    let cap = match rng.below(6) {
                        0 => 1,
                        1 => 2,
                        _ => rng.urange(3, 9),
                    };
                    let len = rng.urange(20, 90);
                    let pseed = rng.next_u64();
                    let ops = gen_container_history(&mut rng, cap, len);
                    let out = run_container_history(ctx, &rt, "container", cap, pseed, &ops, &mut cnt);
                    cnt.add("histories", 1);
                    cnt.add("operations_executed", out.executed as u64);
                    let mut h = mix64(fnv64(b"container"), cap as u64 ^ pseed);
                    for op in &ops {
                        h = mix64(h, fnv64(op.encode().as_bytes()));
                    }
                    if out.evictions > 0 {
                        ctx.eval_nontrivial(h);
                    } else {
                        ctx.eval();
                    }
                    if ix == 0 {
                        ctx.sample(json!({"part":"container","capacity":cap,"len":ops.len(),"executed":out.executed,"first_ops":ops.iter().take(40).map(COp::encode).collect::<Vec<_>>()}));
                    }
                }
                cnt.flush(ctx, "container.");
            });
        }
    });
}

fn replay(ctx: &Ctx, d: &Value) {
    let cap = d.get("capacity").and_then(Value::as_u64).unwrap_or(1) as usize;
    if d.get("via").and_then(Value::as_str) == Some("DynamicContainer") {
        let pseed: u64 = d.get("pseed").and_then(Value::as_str).and_then(|s| s.parse().ok()).unwrap_or(0);
        let ops: Vec<COp> = d.get("ops").and_then(Value::as_array).map(|a| a.iter().filter_map(|o| COp::decode(o.as_str()?)).collect()).unwrap_or_default();
        let Ok(rt) = tokio::runtime::Builder::new_current_thread().enable_all().build() else {
            ctx.inconclusive("tokio runtime");
            return;
        };
        let mut cnt = Cnt::default();
        let out = run_container_history(ctx, &rt, "replay", cap, pseed, &ops, &mut cnt);
        println!("replayed {} of {} container operations (capacity {cap})", out.executed, ops.len());
        ctx.eval_nontrivial(1);
        ctx.eval_nontrivial(2);
        cnt.flush(ctx, "replay.");
        return;
    }
    let pool: Vec<Key> = d
        .get("keys")
        .and_then(Value::as_array)
        .map(|a| {
            a.iter()
                .filter_map(|k| {
                    let b = hex::decode(k.as_str()?).ok()?;
                    <Key>::try_from(b.as_slice()).ok()
                })
                .collect()
        })
        .unwrap_or_default();
    let ops: Vec<Op> = d.get("ops").and_then(Value::as_array).map(|a| a.iter().filter_map(|o| Op::decode(o.as_str()?)).collect()).unwrap_or_default();
    if pool.is_empty() || ops.is_empty() {
        ctx.inconclusive("replay file carries no history (see detail.ops / detail.keys)");
        return;
    }
    let Ok(rt) = tokio::runtime::Builder::new_current_thread().enable_all().build() else {
        ctx.inconclusive("tokio runtime");
        return;
    };
    let mut cnt = Cnt::default();
    let mut rz = false;
    let mut rzr = false;
    let out = run_history(ctx, &rt, "replay", cap, &pool, &ops, &mut cnt, &mut rz, &mut rzr);
    println!("replayed {} of {} operations (capacity {cap}, {} keys)", out.executed, ops.len(), pool.len());
    ctx.eval_nontrivial(hash_history(cap, &pool, &ops));
    ctx.eval_nontrivial(1);
    cnt.flush(ctx, "replay.");
}

fn main() {
    let ctx = Ctx::init("C17", "exploration");
    ctx.set_rule(
        "part 1 (the only part the `exhaustive` flag refers to): EVERY operation sequence of length 1..=5 (quick) / 1..=6 (thorough) over capacities {1,2,3}, keys {00*9, 01*9, 00*8+01, ff*9} and the 14-operation alphabet touch(k) x4, remove(k) x4, evict_tail, evict_to_target(1|2|3 entries x 100 bytes), bump_generation, reset is executed on a fresh LruManager and judged after its last operation against a VecDeque reference LRU (list order, for_each_entry order, len, contains, return values, capacity bound, touch post-condition, structural invariant walker); part 2: seeded random histories of 50..=2000 operations, capacities 1..=64, key pools of capacity+1..3*capacity+2 keys (every 4th pool holds the all-zero key), additionally checkpoint_to_disk / load_from_disk (any existing generation) / run_cycle / shutdown / re-open on a temp dir, judged after EVERY operation. One case = one sequence / one history; non-trivial = it contains an eviction (touch at capacity, evict_tail, evict_to_target > 0, run_cycle eviction) or a reload; distinct by hash of (capacity, keys, operations). Coverage-driven extension of part 2: re-open with ANOTHER capacity (0..96) followed by reloads of checkpoints written with a smaller/larger table (textbook: the most recent `capacity` keys survive; a capacity probe on a fresh manager touches `capacity` new keys), load_from_disk of a missing / damaged file (11 kinds of damage, incl. re-serialized files with broken links) and run_cycle with a damaged newest file (a failed load leaves the tracker unchanged), calls while the data directory is missing, a checkpoint under generation u64::MAX (the next bump wraps), non-checkpoint and non-UTF-8 file names in the directory, entry sizes 0 and >= 2^62 (exact 128-bit reference arithmetic). Part 3: 64 (quick) / 1500 (thorough) histories of 20..90 operations in which the shared LruManager (capacity 1..8) is driven through DynamicContainer::write / read (the two production call sites of touch), interleaved with container remove / re-open and direct remove / evict_tail / evict_to_target / checkpoint+reload, judged against the same reference LRU after every call (a successful write or read is exactly one access of the key under which the object reads back); about 1 in 12 operations is a read issued on a second thread while the history thread holds the shared manager's lock (shared or exclusive guard, released once the read has gone quiet or returned; watchdog = inconclusive): a successful read is an access whoever else held the manager meanwhile. In the thorough tier only 1 in 16 of the length-6 sequences is hashed into the distinct set (memory bound); observations.exhaustive.sequences_nontrivial is the exact count.",
    );
    ctx.assume("the VecDeque reference LRU in the harness is the specification of 'textbook LRU'");
    ctx.assume("verif_list_keys / verif_check_invariants (feature verif-hooks) report the manager's internal list faithfully");
    ctx.assume("a load that returns Err has loaded nothing (the model keeps its state); a checkpoint of k keys loaded into a manager of capacity c < k leaves the c most recent keys; the effect on the tracker of a FAILED container read, of a read of an unwritten key and of container.remove is left open by the statement (either 'no access' or 'one access' / 'key forgotten' is accepted and followed)");
    ctx.assume("which checkpoint a reload sees is observed from the directory (file name = generation) rather than modelled; run_cycle is expected to load the highest generation present");

    // quiet panic hook: panics are caught and reported as violations with context
    std::panic::set_hook(Box::new(|_| {}));

    if let Some(d) = ctx.replay_detail() {
        install_progress_reporter();
        replay(&ctx, &d);
        ctx.finish();
    }

    let threads = 16usize;
    run_exhaustive(&ctx, threads);
    run_random(&ctx, threads);
    install_progress_reporter();
    run_container(&ctx, threads);

    // minimum evidence: the situations the property is about must have been reached
    let need = [
        "exhaustive.boundary.touch_new_key_at_capacity",
        "exhaustive.boundary.evict_to_target_empties_full_list",
        "exhaustive.boundary.touch_zero_key",
        "random.boundary.touch_new_key_at_capacity",
        "random.boundary.touch_new_key_after_public_eviction_from_full_list",
        "random.boundary.run_cycle_reloaded_checkpoint",
        "random.boundary.run_cycle_evicted_to_limit",
        "random.op.load_from_disk",
        "random.op.checkpoint_to_disk",
        "random.op.shutdown",
        // coverage-driven extension: every added situation must have been reached and judged
        "random.boundary.reload_checkpoint_written_with_smaller_capacity",
        "random.boundary.reload_checkpoint_written_with_larger_capacity",
        "random.boundary.reload_checkpoint_holding_more_keys_than_capacity",
        "random.capacity_probe.runs",
        "random.boundary.capacity_zero",
        "random.failed_load.missing_file_err_state_judged_unchanged",
        "random.failed_load.damaged_file_err_state_judged_unchanged",
        "random.failed_load.run_cycle_damaged_latest_err_state_judged_unchanged",
        "random.io_failure.checkpoint_err_state_judged_unchanged",
        "random.boundary.bump_generation_wraps_at_u64_max",
        "random.boundary.run_cycle_reload_with_non_utf8_file_name_in_directory",
        "random.boundary.evict_to_target_huge_avg",
        "random.boundary.run_cycle_huge_avg",
        "container.write_ok",
        "container.write_key_verified_by_read_back",
        "container.write_evicted_lru_tail",
        "container.read_ok",
        "container.read_new_key_at_capacity",
        "container.tracker_checkpoint_and_reload",
        "container.write_refused_by_read_only_container_tracker_judged_unchanged",
        "container.read_ok_while_manager_locked_elsewhere.exclusive_guard",
        "container.read_ok_while_manager_locked_elsewhere.shared_guard",
        "container.read_ok_while_manager_locked_elsewhere.of_key_not_most_recent",
    ];
    for k in need {
        if ctx.get_obs(k) == 0 {
            ctx.inconclusive(&format!("situation never reached: {k}"));
        }
    }
    ctx.finish();
}
