//! C14 — sub-workloads added by the coverage-driven extension (see notes/C14.md):
//!
//!  * every `ProtocolError` variant as an outcome of the operation, including real `reqwest` transport
//!    errors (connection refused, closed before the response head, body cut off / reset, time-out,
//!    redirect loop, undecodable body, unusable URL) produced against a loopback server: `execute` must
//!    stop exactly at the first outcome whose public classification `should_retry()` is false, and the
//!    variants whose class the statements fix (5xx / 429 / refused / closed mid-response / stall are
//!    transient, 4xx other than 429 and deterministic local errors are not) must be classified that way;
//!  * Retry-After hints at the edge of `Duration` (u64::MAX seconds, Duration::MAX …): no panic, never an
//!    early return.
//!
//! All executions run under tokio's paused clock like the main enumeration; only the production of the
//! transport error values needs real sockets (a separate real-time runtime, before the clock is paused).

use super::*;
use cascette_protocol::transport::{HttpClient, HttpConfig};
use std::io::{Read, Write};
use std::sync::Arc;
use std::sync::atomic::AtomicBool;

#[derive(Clone, Copy, PartialEq, Eq, Debug)]
pub enum Cls {
    /// transient by the statements (retry)
    Retry,
    /// definitive / deterministic (do not retry)
    NonRetry,
    /// the statements do not class it: only consistency with `should_retry()` is judged
    Open,
}

pub struct Kind {
    pub name: &'static str,
    pub cls: Cls,
    /// error values of this kind, consumed one per invocation
    pub pool: Vec<ProtocolError>,
}

fn st<T: TryFrom<u16>>(code: u16) -> Option<T> {
    T::try_from(code).ok()
}

/// Kinds that can be constructed directly. `n` values each.
pub fn constructible_kinds(n: usize) -> Vec<Kind> {
    let mut v: Vec<Kind> = Vec::new();
    let mut add = |name: &'static str, cls: Cls, f: &dyn Fn(usize) -> Option<ProtocolError>| {
        let pool: Vec<ProtocolError> = (0..n).filter_map(f).collect();
        v.push(Kind { name, cls, pool });
    };
    add("Network(ConnectionReset)", Cls::Retry, &|i| Some(ProtocolError::Network(std::io::Error::new(std::io::ErrorKind::ConnectionReset, format!("io{i}")))));
    add("Network(NotFound)", Cls::Retry, &|i| Some(ProtocolError::Network(std::io::Error::new(std::io::ErrorKind::NotFound, format!("io{i}")))));
    add("Timeout", Cls::Retry, &|_| Some(ProtocolError::Timeout));
    add("ServiceUnavailable", Cls::Retry, &|_| Some(ProtocolError::ServiceUnavailable));
    add("RateLimited(None)", Cls::Retry, &|_| Some(ProtocolError::RateLimited { retry_after: None }));
    add("RateLimited(3ms)", Cls::Retry, &|_| Some(ProtocolError::RateLimited { retry_after: Some(Duration::from_millis(3)) }));
    for (name, code) in [("ServerError(500)", 500u16), ("ServerError(501)", 501), ("ServerError(503)", 503), ("ServerError(507)", 507), ("ServerError(599)", 599)] {
        add(name, Cls::Retry, &|_| st(code).map(ProtocolError::ServerError));
    }
    for (name, code) in [("HttpStatus(429)", 429u16), ("HttpStatus(500)", 500), ("HttpStatus(502)", 502), ("HttpStatus(503)", 503), ("HttpStatus(504)", 504)] {
        add(name, Cls::Retry, &|_| st(code).map(ProtocolError::HttpStatus));
    }
    for (name, code) in [("HttpStatus(400)", 400u16), ("HttpStatus(401)", 401), ("HttpStatus(403)", 403), ("HttpStatus(404)", 404), ("HttpStatus(410)", 410), ("HttpStatus(416)", 416), ("HttpStatus(451)", 451)] {
        add(name, Cls::NonRetry, &|_| st(code).map(ProtocolError::HttpStatus));
    }
    // a status wrapped in the "unexpected status" variant that is 5xx but not one of the four usual ones, 408/425, 3xx, 2xx:
    // the statements class endpoint behaviours, not this variant — open
    for (name, code) in [("HttpStatus(501)", 501u16), ("HttpStatus(507)", 507), ("HttpStatus(408)", 408), ("HttpStatus(425)", 425), ("HttpStatus(304)", 304), ("HttpStatus(204)", 204)] {
        add(name, Cls::Open, &|_| st(code).map(ProtocolError::HttpStatus));
    }
    add("Parse", Cls::NonRetry, &|i| Some(ProtocolError::Parse(format!("p{i}"))));
    add("InvalidKey", Cls::NonRetry, &|_| Some(ProtocolError::InvalidKey));
    add("InvalidEndpoint", Cls::NonRetry, &|i| Some(ProtocolError::InvalidEndpoint(format!("e{i}"))));
    add("AllHostsFailed", Cls::NonRetry, &|_| Some(ProtocolError::AllHostsFailed));
    add("RangeNotSupported", Cls::NonRetry, &|_| Some(ProtocolError::RangeNotSupported));
    add("Other", Cls::NonRetry, &|i| Some(ProtocolError::Other(format!("o{i}"))));
    add("Utf8", Cls::NonRetry, &|i| String::from_utf8(vec![b'a', 0xff, i as u8]).err().map(ProtocolError::Utf8));
    add("UnsupportedOnWasm", Cls::NonRetry, &|i| Some(ProtocolError::UnsupportedOnWasm(format!("w{i}"))));
    add("Cache(Backend)", Cls::Open, &|i| Some(ProtocolError::Cache(cascette_protocol::cache::CacheError::Backend(format!("c{i}")))));
    add("Cache(Io)", Cls::Open, &|i| Some(ProtocolError::Cache(cascette_protocol::cache::CacheError::Io(std::io::Error::other(format!("c{i}"))))));
    v
}

// ---------------------------------------------------------------- loopback server that makes reqwest fail

struct ErrServer {
    port: u16,
    stop: Arc<AtomicBool>,
}

impl Drop for ErrServer {
    fn drop(&mut self) {
        self.stop.store(true, Ordering::Relaxed);
    }
}

fn set_linger0(s: &std::net::TcpStream) {
    use std::os::fd::AsRawFd;
    let l = libc::linger { l_onoff: 1, l_linger: 0 };
    // SAFETY: valid fd, correctly sized option value.
    unsafe {
        libc::setsockopt(s.as_raw_fd(), libc::SOL_SOCKET, libc::SO_LINGER, (&raw const l).cast(), std::mem::size_of::<libc::linger>() as libc::socklen_t);
    }
}

/// Behaviour is selected by the request path.
fn start_err_server() -> Option<ErrServer> {
    let listener = std::net::TcpListener::bind("127.0.0.1:0").ok()?;
    let port = listener.local_addr().ok()?.port();
    listener.set_nonblocking(true).ok()?;
    let stop = Arc::new(AtomicBool::new(false));
    let stop2 = Arc::clone(&stop);
    std::thread::spawn(move || {
        while !stop2.load(Ordering::Relaxed) {
            match listener.accept() {
                Ok((mut s, _)) => {
                    let stop3 = Arc::clone(&stop2);
                    std::thread::spawn(move || {
                        let _ = s.set_nonblocking(false);
                        let _ = s.set_read_timeout(Some(Duration::from_secs(5)));
                        let _ = s.set_nodelay(true);
                        let mut buf = Vec::new();
                        let mut tmp = [0u8; 2048];
                        while !buf.windows(4).any(|w| w == b"\r\n\r\n") {
                            match s.read(&mut tmp) {
                                Ok(0) | Err(_) => break,
                                Ok(n) => buf.extend_from_slice(&tmp[..n]),
                            }
                        }
                        let line = String::from_utf8_lossy(&buf).lines().next().unwrap_or("").to_string();
                        let path = line.split_whitespace().nth(1).unwrap_or("").to_string();
                        let body = b"0123456789abcdef0123456789abcdef0123456789abcdef";
                        if path.starts_with("/closed-before-headers") {
                            // nothing
                        } else if path.starts_with("/closed-mid-body") || path.starts_with("/reset-mid-body") {
                            let _ = s.write_all(format!("HTTP/1.1 200 X\r\nContent-Length: {}\r\nConnection: close\r\n\r\n", body.len()).as_bytes());
                            let _ = s.write_all(&body[..body.len() / 2]);
                            let _ = s.flush();
                            std::thread::sleep(Duration::from_millis(10));
                            if path.starts_with("/reset") {
                                set_linger0(&s);
                            }
                        } else if path.starts_with("/stall") || path.starts_with("/half-then-stall") {
                            if path.starts_with("/half") {
                                let _ = s.write_all(format!("HTTP/1.1 200 X\r\nContent-Length: {}\r\nConnection: close\r\n\r\n", body.len()).as_bytes());
                                let _ = s.write_all(&body[..body.len() / 2]);
                                let _ = s.flush();
                            }
                            while !stop3.load(Ordering::Relaxed) {
                                std::thread::sleep(Duration::from_millis(20));
                            }
                        } else if path.starts_with("/redirect-loop") {
                            let _ = s.write_all(format!("HTTP/1.1 302 X\r\nLocation: {path}x\r\nContent-Length: 0\r\nConnection: close\r\n\r\n").as_bytes());
                        } else if path.starts_with("/bad-gzip") {
                            let _ = s.write_all(format!("HTTP/1.1 200 X\r\nContent-Encoding: gzip\r\nContent-Length: {}\r\nConnection: close\r\n\r\n", body.len()).as_bytes());
                            let _ = s.write_all(body);
                        } else if path.starts_with("/bad-chunk") {
                            let _ = s.write_all(b"HTTP/1.1 200 X\r\nTransfer-Encoding: chunked\r\nConnection: close\r\n\r\nZZ;nope\r\nabc\r\n");
                        } else {
                            let _ = s.write_all(format!("HTTP/1.1 200 X\r\nContent-Length: {}\r\nConnection: close\r\n\r\n", body.len()).as_bytes());
                            let _ = s.write_all(body);
                        }
                        let _ = s.flush();
                    });
                }
                Err(_) => std::thread::sleep(Duration::from_millis(2)),
            }
        }
    });
    Some(ErrServer { port, stop })
}

/// A loopback port that refuses connections while the value lives (bound, never listening).
struct ReservedPort {
    fd: i32,
    port: u16,
}

impl ReservedPort {
    fn new() -> Option<Self> {
        // SAFETY: plain socket/bind/getsockname calls on a fresh descriptor with correctly sized arguments.
        unsafe {
            let fd = libc::socket(libc::AF_INET, libc::SOCK_STREAM | libc::SOCK_CLOEXEC, 0);
            if fd < 0 {
                return None;
            }
            let mut addr: libc::sockaddr_in = std::mem::zeroed();
            addr.sin_family = libc::AF_INET as libc::sa_family_t;
            addr.sin_addr = libc::in_addr { s_addr: u32::from_ne_bytes([127, 0, 0, 1]) };
            let len = std::mem::size_of::<libc::sockaddr_in>() as libc::socklen_t;
            if libc::bind(fd, (&raw const addr).cast(), len) != 0 {
                libc::close(fd);
                return None;
            }
            let mut out: libc::sockaddr_in = std::mem::zeroed();
            let mut olen = len;
            if libc::getsockname(fd, (&raw mut out).cast(), &raw mut olen) != 0 {
                libc::close(fd);
                return None;
            }
            Some(Self { fd, port: u16::from_be(out.sin_port) })
        }
    }
}

impl Drop for ReservedPort {
    fn drop(&mut self) {
        // SAFETY: fd is owned by this value.
        unsafe {
            libc::close(self.fd);
        }
    }
}

async fn fetch_err(client: &HttpClient, url: &str) -> Option<ProtocolError> {
    match client.inner().get(url).send().await {
        Err(e) => Some(e.into()),
        Ok(resp) => match resp.bytes().await {
            Err(e) => Some(e.into()),
            Ok(_) => None,
        },
    }
}

/// Real `reqwest` errors wrapped as `ProtocolError::Http`, `n` per kind, produced in real time against
/// loopback. A kind whose production failed (server could not be bound, request unexpectedly succeeded)
/// comes back with an empty pool and is reported as not exercised.
pub fn transport_kinds(n: usize) -> Vec<Kind> {
    let specs: [(&'static str, Cls, &'static str); 10] = [
        ("Http(connection-refused)", Cls::Retry, "refused"),
        ("Http(closed-before-response-head)", Cls::Retry, "/closed-before-headers"),
        ("Http(body-cut-off-by-close)", Cls::Retry, "/closed-mid-body"),
        ("Http(body-cut-off-by-reset)", Cls::Retry, "/reset-mid-body"),
        ("Http(time-out)", Cls::Retry, "/stall"),
        ("Http(time-out-inside-the-body)", Cls::Retry, "/half-then-stall"),
        ("Http(redirect-loop)", Cls::Open, "/redirect-loop"),
        ("Http(undecodable-gzip-body)", Cls::Open, "/bad-gzip"),
        ("Http(invalid-chunked-body)", Cls::Open, "/bad-chunk"),
        ("Http(unusable-url)", Cls::Open, "builder"),
    ];
    let mut out: Vec<Kind> = specs.iter().map(|(name, cls, _)| Kind { name, cls: *cls, pool: Vec::new() }).collect();
    let Ok(rt) = tokio::runtime::Builder::new_multi_thread().worker_threads(4).enable_all().build() else { return out };
    let Some(server) = start_err_server() else { return out };
    let Some(reserved) = ReservedPort::new() else { return out };
    let (Ok(client), Ok(quick_client)) = (HttpClient::new(), HttpClient::with_config(&HttpConfig { timeout: Duration::from_millis(250), ..HttpConfig::default() })) else { return out };
    let pools: Vec<Vec<ProtocolError>> = rt.block_on(async {
        let mut pools = Vec::new();
        for (_, _, what) in specs {
            let mut futs = Vec::new();
            for i in 0..n {
                let url = match what {
                    "refused" => format!("http://127.0.0.1:{}/x{i}", reserved.port),
                    "builder" => format!("http://exa mple:{}/x{i}", server.port),
                    path => format!("http://127.0.0.1:{}{path}?{i}", server.port),
                };
                let c = if what == "/stall" || what == "/half-then-stall" { quick_client.clone() } else { client.clone() };
                futs.push(tokio::spawn(async move { tokio::time::timeout(Duration::from_secs(30), fetch_err(&c, &url)).await.ok().flatten() }));
            }
            let mut pool = Vec::new();
            for f in futs {
                if let Ok(Some(e)) = f.await {
                    pool.push(e);
                }
            }
            pools.push(pool);
        }
        pools
    });
    for (k, pool) in out.iter_mut().zip(pools) {
        // only values of the variant under test (`Http`) count
        k.pool = pool.into_iter().filter(|e| matches!(e, ProtocolError::Http(_))).collect();
    }
    drop(server);
    drop(reserved);
    rt.shutdown_timeout(Duration::from_secs(1));
    out
}

// ---------------------------------------------------------------- scripted executions with arbitrary error values

pub struct ScriptObs {
    pub starts: Vec<Instant>,
    pub ends: Vec<Instant>,
    /// Debug rendering of what execute returned
    pub returned: Option<String>,
    pub panic: Option<String>,
    pub virtual_timeout: bool,
    pub hard_stop: bool,
}

/// Runs `policy.execute` over the scripted outcomes (consumed in order; one more invocation than scripted
/// is a hard stop). Must be called inside a paused current-thread runtime.
pub async fn run_script(policy: &RetryPolicy, outcomes: Vec<Result<u64, ProtocolError>>, deadline: Duration) -> ScriptObs {
    let n_scripted = outcomes.len();
    let script: Rc<RefCell<std::collections::VecDeque<Result<u64, ProtocolError>>>> = Rc::new(RefCell::new(outcomes.into()));
    let state: Rc<RefCell<(Vec<Instant>, Vec<Instant>)>> = Rc::new(RefCell::new((Vec::new(), Vec::new())));
    let st2 = Rc::clone(&state);
    let fut = policy.execute(move || {
        let st = Rc::clone(&st2);
        st.borrow_mut().0.push(Instant::now());
        if st.borrow().0.len() > n_scripted {
            std::panic::panic_any(HardStop);
        }
        let out = script.borrow_mut().pop_front().unwrap_or(Err(ProtocolError::Timeout));
        async move {
            st.borrow_mut().1.push(Instant::now());
            out
        }
    });
    LAST_PANIC.with(|c| *c.borrow_mut() = None);
    let r = AssertUnwindSafe(tokio::time::timeout(deadline, fut)).catch_unwind().await;
    let (mut returned, mut panic, mut virtual_timeout, mut hard_stop) = (None, None, false, false);
    match r {
        Ok(Ok(res)) => returned = Some(describe(&res)),
        Ok(Err(_)) => virtual_timeout = true,
        Err(payload) => {
            if payload.downcast_ref::<HardStop>().is_some() {
                hard_stop = true;
            } else {
                let hook = LAST_PANIC.with(|c| c.borrow_mut().take());
                panic = Some(hook.unwrap_or_else(|| payload.downcast_ref::<&str>().map(|s| (*s).to_string()).or_else(|| payload.downcast_ref::<String>().cloned()).unwrap_or_else(|| "<panic>".into())));
            }
        }
    }
    let g = state.borrow();
    ScriptObs { starts: g.0.clone(), ends: g.1.clone(), returned, panic, virtual_timeout, hard_stop }
}

/// Every kind as the failing outcome: [E, E, Ok] under a policy with 2 retries, and [E, E, E] (retries exhausted).
pub fn classification_section(ctx: &Ctx) {
    let per_kind = 10usize; // 2 policies x (2 + 3) values
    let mut kinds = constructible_kinds(per_kind);
    kinds.extend(transport_kinds(per_kind));
    let Ok(rt) = tokio::runtime::Builder::new_current_thread().enable_time().start_paused(true).build() else {
        ctx.inconclusive("cannot build paused runtime for the classification section");
        return;
    };
    let mut table: Vec<Value> = Vec::new();
    for mut k in kinds {
        if k.pool.len() < per_kind {
            ctx.obs(&format!("classification.kind_not_produced.{}", k.name), 1);
            if k.pool.len() < 5 {
                continue;
            }
        }
        ctx.obs("classification.kinds_exercised", 1);
        ctx.obs(&format!("classification.class.{:?}", k.cls), 1);
        let mut classified: Option<bool> = None;
        let mut rendering = String::new();
        for (pi, jitter) in [false, true].into_iter().enumerate() {
            let policy = RetryPolicy { max_attempts: 2, initial_backoff: Duration::from_millis(5), max_backoff: Duration::from_millis(40), multiplier: 2.0, jitter };
            for exhausted in [false, true] {
                let want = if exhausted { 3 } else { 2 };
                if k.pool.len() < want {
                    break;
                }
                let errs: Vec<ProtocolError> = k.pool.drain(..want).collect();
                // the public classification of exactly these values, asked before they are handed over
                let srs: Vec<bool> = errs.iter().map(ProtocolError::should_retry).collect();
                let renders: Vec<String> = errs.iter().map(|e| format!("Err({e:?})")).collect();
                if rendering.is_empty() {
                    rendering = renders[0].chars().take(160).collect();
                }
                classified = Some(srs[0]);
                let mut outcomes: Vec<Result<u64, ProtocolError>> = errs.into_iter().map(Err).collect();
                if !exhausted {
                    outcomes.push(Ok(4242));
                }
                let all_renders: Vec<String> = renders.iter().cloned().chain((!exhausted).then(|| "Ok(4242)".to_string())).collect();
                let obs = rt.block_on(run_script(&policy, outcomes, Duration::from_secs(3600)));
                ctx.eval_nontrivial(mix64(fnv64(b"classification"), mix64(fnv64(k.name.as_bytes()), (pi * 2 + usize::from(exhausted)) as u64)));
                ctx.obs("classification.executions", 1);
                let n = obs.starts.len();
                // stop index by the public classification: first outcome that is Ok or not retryable, else the last one
                let stop = srs.iter().position(|r| !*r).unwrap_or(all_renders.len() - 1);
                let gaps: Vec<String> = (0..n.saturating_sub(1)).filter(|&i| i < obs.ends.len()).map(|i| format!("{:?}", obs.starts[i + 1].saturating_duration_since(obs.ends[i]))).collect();
                let detail = json!({"kind": k.name, "class_by_the_statements": format!("{:?}", k.cls), "should_retry_of_the_values": srs, "outcomes": all_renders.iter().map(|s| s.chars().take(200).collect::<String>()).collect::<Vec<_>>(), "policy": Pol::from_policy(&policy).to_json(), "invocations": n, "gaps": gaps, "returned": obs.returned, "panic": obs.panic, "replay": "re-run the tier with the same seed"});
                if let Some(p) = &obs.panic {
                    ctx.violation(&format!("C14|RetryPolicy::execute|panic|{}", panic_class(p)), "RetryPolicy::execute panicked for a constructible policy", detail.clone());
                    continue;
                }
                if obs.hard_stop || n > 3 {
                    ctx.violation("C14|RetryPolicy::execute|more-than-max_attempts+1-invocations", "operation invoked more than max_attempts + 1 times", detail.clone());
                    continue;
                }
                if obs.virtual_timeout {
                    ctx.violation("C14|RetryPolicy::execute|waits-beyond-sum-of-allowed-delays", "execute was still waiting one virtual hour after the last allowed delay", detail.clone());
                    continue;
                }
                // (1) the classes the statements fix
                match (k.cls, srs[0]) {
                    (Cls::Retry, true) | (Cls::NonRetry, false) | (Cls::Open, _) => {}
                    (Cls::Retry, false) => ctx.violation(&format!("C14|RetryPolicy::execute|gave-up-on-retryable-error-before-retries-exhausted|{}", k.name), "a transient failure is classified non-retryable: execute returns it without retrying although retries remain", detail.clone()),
                    (Cls::NonRetry, true) => ctx.violation(&format!("C14|RetryPolicy::execute|invoked-after-non-retryable-error|{}", k.name), "a definitive / deterministic failure is classified retryable: execute invokes the operation again", detail.clone()),
                }
                // (2) execute follows the public classification of the values it was given
                if n > stop + 1 {
                    ctx.violation(&format!("C14|RetryPolicy::execute|behaviour-inconsistent-with-should_retry|{}|invoked-again-although-should_retry-is-false", k.name), "execute invoked the operation again after an error whose should_retry() is false", detail.clone());
                } else if n < stop + 1 {
                    ctx.violation(&format!("C14|RetryPolicy::execute|behaviour-inconsistent-with-should_retry|{}|gave-up-although-should_retry-is-true", k.name), "execute returned after an error whose should_retry() is true although retries remained", detail.clone());
                } else if obs.returned.as_deref() != Some(all_renders[stop].as_str()) {
                    ctx.violation(&format!("C14|RetryPolicy::execute|returned-value-is-not-the-stopping-outcome|{}", if stop == all_renders.len() - 1 && exhausted { "last-error" } else if all_renders[stop].starts_with("Ok") { "first-Ok" } else { "first-non-retryable-error" }), "returned value differs from the outcome of the stopping invocation", detail.clone());
                }
                // (3) delays: 5 ms, 10 ms (x [1, 1.3]); after a 3 ms hint 3 ms (x [1, 1.3])
                for (i, g) in (0..n.saturating_sub(1)).filter(|&i| i < obs.ends.len()).map(|i| (i, obs.starts[i + 1].saturating_duration_since(obs.ends[i]).as_nanos())) {
                    let base = if k.name == "RateLimited(3ms)" { 3 * MS } else { 5 * MS << i };
                    ctx.obs("classification.gaps_measured", 1);
                    if g < base {
                        ctx.violation(if k.name == "RateLimited(3ms)" { "C14|RetryPolicy::execute|gap-shorter-than-Retry-After-hint" } else { "C14|RetryPolicy::execute|backoff-not-on-exponential-schedule" }, "delay shorter than the scheduled back-off / the hint", detail.clone());
                    } else if g > base * 13 / 10 + TOL_HI_NS {
                        ctx.violation(if k.name == "RateLimited(3ms)" { "C14|RetryPolicy::execute|gap-longer-than-Retry-After-hint+30%" } else { "C14|RetryPolicy::execute|backoff-not-on-exponential-schedule" }, "delay longer than the scheduled back-off / the hint plus 30 %", detail.clone());
                    }
                }
            }
        }
        if let Some(sr) = classified {
            ctx.obs(&format!("classification.should_retry.{}", if sr { "true" } else { "false" }), 1);
            table.push(json!({"kind": k.name, "class_by_the_statements": format!("{:?}", k.cls), "should_retry": sr, "value": rendering}));
        }
    }
    ctx.set_extra("error_classification_observed", json!(table));
}

// ---------------------------------------------------------------- Retry-After hints at the edge of Duration

pub fn huge_hint_section(ctx: &Ctx) {
    let Ok(rt) = tokio::runtime::Builder::new_current_thread().enable_time().start_paused(true).build() else {
        ctx.inconclusive("cannot build paused runtime for the huge-hint section");
        return;
    };
    let hints: [(&str, Duration); 6] = [
        ("u64::MAX-seconds", Duration::from_secs(u64::MAX)),
        ("Duration::MAX", Duration::MAX),
        ("2^63-seconds", Duration::from_secs(1 << 63)),
        ("u64::MAX-milliseconds", Duration::from_millis(u64::MAX)),
        ("1e12-seconds", Duration::from_secs(1_000_000_000_000)),
        ("30-days", Duration::from_secs(30 * 86400)),
    ];
    for (name, hint) in hints {
        for jitter in [false, true] {
            for (initial, max, mult) in [(Duration::from_millis(100), Duration::from_secs(10), 2.0), (Duration::ZERO, Duration::ZERO, 0.0), (Duration::from_secs(u64::MAX), Duration::from_secs(u64::MAX), 1e300)] {
                let policy = RetryPolicy { max_attempts: 2, initial_backoff: initial, max_backoff: max, multiplier: mult, jitter };
                let outcomes = vec![Err(ProtocolError::RateLimited { retry_after: Some(hint) }), Ok(1u64), Ok(2u64)];
                // the hint is far beyond the measurable horizon: the call is expected to be still waiting when the (virtual) 48 h are over
                let obs = rt.block_on(run_script(&policy, outcomes, HORIZON));
                ctx.eval_nontrivial(mix64(fnv64(b"huge-hint"), mix64(fnv64(name.as_bytes()), mix64(u64::from(jitter), mult.to_bits()))));
                ctx.obs("huge_hint.executions", 1);
                let detail = json!({"hint": name, "hint_debug": format!("{hint:?}"), "policy": Pol::from_policy(&policy).to_json(), "invocations": obs.starts.len(), "returned": obs.returned, "panic": obs.panic, "still_waiting_after_48h_virtual": obs.virtual_timeout, "replay": "re-run the tier with the same seed"});
                if let Some(p) = &obs.panic {
                    ctx.violation(&format!("C14|RetryPolicy::execute|panic|{}", panic_class(p)), "RetryPolicy::execute panicked on a Retry-After hint at the edge of Duration", detail);
                } else if obs.hard_stop || obs.starts.len() > 2 {
                    ctx.violation("C14|RetryPolicy::execute|invoked-after-Ok", "operation invoked again after the stopping outcome", detail);
                } else if obs.returned.is_some() && hint > HORIZON {
                    // it came back within 48 virtual hours: the second attempt was started before the hint had passed
                    ctx.violation("C14|RetryPolicy::execute|gap-shorter-than-Retry-After-hint", "waited less than the server's Retry-After hint", detail);
                } else if obs.virtual_timeout {
                    ctx.obs("huge_hint.still_waiting_at_the_horizon(as the hint demands)", 1);
                } else {
                    ctx.obs("huge_hint.returned", 1);
                }
            }
        }
    }
}
