//! Worker subprocess: reads frames (target id, flags, input, aux) from stdin,
//! runs the target under catch_unwind + panic hook + counting allocator, reports on
//! the protocol fd.
//!
//! Protocol (text lines on the protocol fd, fields separated by TAB):
//!   READY
//!   START <n>
//!   DONE <n> ok|err|panic <max_req> <cum> <peak_live> <micros> <post-parse ops> <message>
//!   ALLOC <size> <single|total> <site>            (followed by _exit(97))

use crate::alloc::{self, PROTO_FD};
use crate::entrypoints::{Call, R, Target};
use std::io::Read;
use std::sync::Mutex;
use std::sync::atomic::Ordering::Relaxed;

struct PanicInfo {
    file: String,
    func: String,
    msg: String,
}

static LAST_PANIC: Mutex<Option<PanicInfo>> = Mutex::new(None);
static SITE_CACHE: Mutex<Vec<(String, u32, u32, String)>> = Mutex::new(Vec::new());

fn proto(line: &str) {
    alloc::raw_write(PROTO_FD.load(Relaxed), line.as_bytes());
}

fn sanitize(s: &str, max: usize) -> String {
    let mut out = String::with_capacity(max.min(s.len()));
    for ch in s.chars() {
        if out.len() >= max {
            break;
        }
        if ch == '\n' || ch == '\t' || ch == '\r' {
            out.push(' ');
        } else if ch.is_control() {
            out.push('?');
        } else {
            out.push(ch);
        }
    }
    out
}

fn install_panic_hook() {
    std::panic::set_hook(Box::new(|info| {
        // the monitor's own bookkeeping must not be judged
        alloc::disarm();
        let (file, line, col) = info.location().map_or(("<unknown>".to_string(), 0, 0), |l| (l.file().to_string(), l.line(), l.column()));
        let msg = if let Some(s) = info.payload().downcast_ref::<&str>() {
            (*s).to_string()
        } else if let Some(s) = info.payload().downcast_ref::<String>() {
            s.clone()
        } else {
            "non-string panic payload".to_string()
        };
        let func = {
            let mut cache = SITE_CACHE.lock().unwrap_or_else(std::sync::PoisonError::into_inner);
            // only a location inside the repository identifies its function; a location in the
            // standard library (iterator sum, slice index …) is shared by many callers, so the
            // backtrace is walked every time for those
            let in_repo = alloc::repo_relative(&file).is_some();
            if let Some(hit) = cache.iter().find(|(f, l, c, _)| in_repo && *f == file && *l == line && *c == col) {
                hit.3.clone()
            } else {
                let f = alloc::first_repo_frame(Some(&file));
                if in_repo {
                    cache.push((file.clone(), line, col, f.clone()));
                }
                f
            }
        };
        *LAST_PANIC.lock().unwrap_or_else(std::sync::PoisonError::into_inner) = Some(PanicInfo { file: format!("{file}:{line}"), func, msg });
    }));
}

fn read_u32(r: &mut impl Read) -> Option<u32> {
    let mut b = [0u8; 4];
    r.read_exact(&mut b).ok()?;
    Some(u32::from_le_bytes(b))
}

pub fn worker_main(dir: &str, targets: &[Target]) -> ! {
    // Move the protocol to a private fd; stray prints of library code on stdout go to stderr.
    // SAFETY: plain dup/dup2 on the standard descriptors at start-up.
    unsafe {
        let fd = libc::dup(1);
        if fd >= 0 {
            PROTO_FD.store(fd, Relaxed);
            libc::dup2(2, 1);
        }
    }
    install_panic_hook();
    let dir = std::path::PathBuf::from(dir);
    let _ = std::fs::create_dir_all(&dir);
    let rt = match tokio::runtime::Builder::new_current_thread().enable_all().build() {
        Ok(rt) => rt,
        Err(e) => {
            proto(&format!("FATAL\truntime: {e}\n"));
            std::process::exit(3);
        }
    };
    let stdin = std::io::stdin();
    let mut inp = stdin.lock();
    proto("READY\n");
    let mut n: u64 = 0;
    loop {
        let Some(tid) = read_u32(&mut inp) else { break };
        let Some(flags) = read_u32(&mut inp) else { break };
        let Some(len) = read_u32(&mut inp) else { break };
        let Some(aux_len) = read_u32(&mut inp) else { break };
        let mut input = vec![0u8; len as usize];
        if inp.read_exact(&mut input).is_err() {
            break;
        }
        let mut aux = vec![0u8; aux_len as usize];
        if inp.read_exact(&mut aux).is_err() {
            break;
        }
        let Some(target) = targets.get(tid as usize) else {
            proto(&format!("FATAL\tunknown target {tid}\n"));
            break;
        };
        n += 1;
        proto(&format!("START\t{n}\n"));
        *LAST_PANIC.lock().unwrap_or_else(std::sync::PoisonError::into_inner) = None;
        alloc::reset_counters();
        crate::entrypoints::OPS.store(0, Relaxed);
        let t0 = std::time::Instant::now();
        let res = {
            let call = Call { input: &input, aux: &aux, flags, dir: &dir, rt: &rt };
            std::panic::catch_unwind(std::panic::AssertUnwindSafe(|| (target.run)(&call)))
        };
        alloc::disarm();
        let micros = t0.elapsed().as_micros();
        let (max_req, cum, peak) = alloc::counters();
        let (class, msg) = match res {
            Ok(R::Ok) => ("ok", String::new()),
            Ok(R::Err(m)) => ("err", sanitize(&m, 160)),
            Err(_) => {
                let p = LAST_PANIC.lock().unwrap_or_else(std::sync::PoisonError::into_inner).take();
                match p {
                    Some(p) => ("panic", format!("{}\u{1}{}\u{1}{}", sanitize(&p.file, 200), sanitize(&p.func, 200), sanitize(&p.msg, 200))),
                    None => ("panic", "<unknown>\u{1}unknown-site\u{1}no panic info".to_string()),
                }
            }
        };
        let ops = crate::entrypoints::OPS.load(Relaxed);
        proto(&format!("DONE\t{n}\t{class}\t{max_req}\t{cum}\t{peak}\t{micros}\t{ops}\t{msg}\n"));
    }
    std::process::exit(0);
}
