//! C02 — parsers fail closed on arbitrary bytes: no panic, abort, hang or
//! allocation out of proportion to the input.
//!
//! Monitor: every input is executed in a worker subprocess (`c02 --worker`) under
//! catch_unwind + panic hook + a counting global allocator that denies requests above
//! the phase threshold (see alloc.rs). The parent classifies each input
//! ok | err | panic(site) | alloc(site) | abort(signal) | hang, restarts dead workers
//! and re-runs crashes / time-outs alone before judging them.
//!
//! Oracle (from the statement): violation = panic, abort/signal, never returns, or an
//! allocation request above max(16 MiB, 64 x input) (single) / max(256 MiB, 4096 x input)
//! (live total) in the parse phase, above 1 GiB + 16 MiB in decompress/apply phases.
//! Any `Err` is fine.

mod alloc;
mod mutate;
mod seeds;
mod entrypoints;
mod queries;
mod worker;

use mutate::{Case, Plan};
use seeds::{Families, Seed};
use serde_json::json;
use std::collections::{BTreeMap, HashMap, HashSet};
use std::io::{BufRead, BufReader, Write};
use std::os::unix::process::ExitStatusExt;
use std::process::{Child, ChildStdin, Command, Stdio};
use std::sync::atomic::{AtomicBool, AtomicU64, AtomicUsize, Ordering::Relaxed};
use std::sync::mpsc::{Receiver, RecvTimeoutError};
use std::sync::Mutex;
use std::time::{Duration, Instant};
use entrypoints::Target;
use vh::{Ctx, fnv64, hex_short, mix64};

#[global_allocator]
static GLOBAL: alloc::Counting = alloc::Counting;

const WORKERS: usize = 16;
const CALL_TIMEOUT: Duration = Duration::from_secs(10);
const RERUN_TIMEOUT: Duration = Duration::from_secs(30);

// ---------------------------------------------------------------- worker handle

struct WorkerProc {
    child: Child,
    stdin: ChildStdin,
    rx: Receiver<String>,
    stderr_path: std::path::PathBuf,
}

#[derive(Debug, Clone)]
enum Outcome {
    Done { class: String, max_req: u64, cum: u64, peak: u64, micros: u64, ops: u64, msg: String },
    Alloc { size: u64, kind: String, site: String },
    Died { desc: String, sigkill: bool },
    Timeout,
    Harness(String),
}

fn spawn_worker(root: &std::path::Path, tag: &str) -> Result<WorkerProc, String> {
    let exe = std::env::current_exe().map_err(|e| e.to_string())?;
    let dir = root.join(format!("w-{tag}"));
    std::fs::create_dir_all(&dir).map_err(|e| e.to_string())?;
    let stderr_path = root.join(format!("w-{tag}.stderr"));
    let errf = std::fs::File::create(&stderr_path).map_err(|e| e.to_string())?;
    let mut child = Command::new(exe)
        .arg("--worker")
        .arg(&dir)
        .env("RUST_BACKTRACE", "0")
        .stdin(Stdio::piped())
        .stdout(Stdio::piped())
        .stderr(Stdio::from(errf))
        .spawn()
        .map_err(|e| format!("spawn worker: {e}"))?;
    let stdin = child.stdin.take().ok_or("no stdin")?;
    let stdout = child.stdout.take().ok_or("no stdout")?;
    let (tx, rx) = std::sync::mpsc::channel::<String>();
    std::thread::spawn(move || {
        let mut r = BufReader::new(stdout);
        let mut buf = Vec::new();
        loop {
            buf.clear();
            match r.read_until(b'\n', &mut buf) {
                Ok(0) | Err(_) => break,
                Ok(_) => {
                    let line = String::from_utf8_lossy(&buf).trim_end_matches('\n').to_string();
                    if tx.send(line).is_err() {
                        break;
                    }
                }
            }
        }
    });
    let w = WorkerProc { child, stdin, rx, stderr_path };
    match w.rx.recv_timeout(Duration::from_secs(30)) {
        Ok(l) if l == "READY" => Ok(w),
        Ok(l) => Err(format!("worker said {l:?} instead of READY")),
        Err(_) => Err("worker did not become ready".into()),
    }
}

fn signal_name(sig: i32) -> String {
    match sig {
        4 => "SIGILL".into(),
        6 => "SIGABRT".into(),
        7 => "SIGBUS".into(),
        8 => "SIGFPE".into(),
        9 => "SIGKILL".into(),
        11 => "SIGSEGV".into(),
        n => format!("signal-{n}"),
    }
}

fn stderr_hint(path: &std::path::Path) -> &'static str {
    let Ok(data) = std::fs::read(path) else { return "" };
    let tail = &data[data.len().saturating_sub(4096)..];
    let s = String::from_utf8_lossy(tail);
    if s.contains("has overflowed its stack") {
        ":stack-overflow"
    } else if s.contains("memory allocation of") {
        ":alloc-failed"
    } else if s.contains("panic in a function that cannot unwind") || s.contains("panicked while panicking") || s.contains("panic in a destructor") {
        ":panic-abort"
    } else {
        ""
    }
}

impl WorkerProc {
    fn kill(self) {
        let WorkerProc { mut child, stdin, .. } = self;
        if std::env::var_os("VH_GRACEFUL_WORKERS").is_some() {
            // coverage measurement (bin/coverage): let an idle worker leave through exit(0) so that its counters are written
            drop(stdin);
            for _ in 0..200 {
                if let Ok(Some(_)) = child.try_wait() {
                    return;
                }
                std::thread::sleep(Duration::from_millis(10));
            }
        }
        let _ = child.kill();
        let _ = child.wait();
    }

    /// Collect the exit status of a worker whose pipe closed.
    fn reap(mut self, alloc_line: Option<(u64, String, String)>) -> Outcome {
        let status = match self.child.wait() {
            Ok(s) => s,
            Err(e) => return Outcome::Harness(format!("wait: {e}")),
        };
        if let Some((size, kind, site)) = alloc_line {
            if status.code() == Some(97) {
                return Outcome::Alloc { size, kind, site };
            }
        }
        if let Some(sig) = status.signal() {
            let hint = stderr_hint(&self.stderr_path);
            return Outcome::Died { desc: format!("{}{}", signal_name(sig), hint), sigkill: sig == 9 };
        }
        match status.code() {
            Some(0) => Outcome::Harness("worker exited 0 in the middle of a call".into()),
            Some(c) => Outcome::Died { desc: format!("exit-{c}{}", stderr_hint(&self.stderr_path)), sigkill: false },
            None => Outcome::Harness("worker vanished".into()),
        }
    }
}

/// Run one input in `slot` (spawning a worker when empty). The worker is left in
/// the slot only when it survived.
fn run_in(slot: &mut Option<WorkerProc>, root: &std::path::Path, tag: &str, tid: usize, case: &Case, timeout: Duration) -> Outcome {
    if slot.is_none() {
        match spawn_worker(root, tag) {
            Ok(w) => *slot = Some(w),
            Err(e) => return Outcome::Harness(e),
        }
    }
    let Some(mut w) = slot.take() else { return Outcome::Harness("no worker".into()) };
    // truncate the stderr file now and then is not needed: hints look at the tail only
    let mut frame = Vec::with_capacity(16 + case.data.len() + case.aux.len());
    frame.extend_from_slice(&(tid as u32).to_le_bytes());
    frame.extend_from_slice(&case.flags.to_le_bytes());
    frame.extend_from_slice(&(case.data.len() as u32).to_le_bytes());
    frame.extend_from_slice(&(case.aux.len() as u32).to_le_bytes());
    frame.extend_from_slice(&case.data);
    frame.extend_from_slice(&case.aux);
    let write_ok = w.stdin.write_all(&frame).and_then(|()| w.stdin.flush()).is_ok();
    let deadline = Instant::now() + timeout;
    let mut alloc_line: Option<(u64, String, String)> = None;
    loop {
        let left = deadline.saturating_duration_since(Instant::now());
        match w.rx.recv_timeout(left) {
            Ok(line) => {
                let mut it = line.split('\t');
                match it.next() {
                    Some("START") => {}
                    Some("DONE") => {
                        let _n = it.next();
                        let class = it.next().unwrap_or("?").to_string();
                        let max_req = it.next().and_then(|s| s.parse().ok()).unwrap_or(0);
                        let cum = it.next().and_then(|s| s.parse().ok()).unwrap_or(0);
                        let peak = it.next().and_then(|s| s.parse().ok()).unwrap_or(0);
                        let micros = it.next().and_then(|s| s.parse().ok()).unwrap_or(0);
                        let ops = it.next().and_then(|s| s.parse().ok()).unwrap_or(0);
                        let msg = it.next().unwrap_or("").to_string();
                        *slot = Some(w);
                        return Outcome::Done { class, max_req, cum, peak, micros, ops, msg };
                    }
                    Some("FATAL") => {
                        let m = it.next().unwrap_or("").to_string();
                        w.kill();
                        return Outcome::Harness(format!("worker fatal: {m}"));
                    }
                    _ => {
                        if let Some(rest) = line.strip_prefix("ALLOC ") {
                            let mut p = rest.splitn(3, ' ');
                            let size = p.next().and_then(|s| s.parse().ok()).unwrap_or(0);
                            let kind = p.next().unwrap_or("?").to_string();
                            let site = p.next().unwrap_or("unknown-site").to_string();
                            alloc_line = Some((size, kind, site));
                        }
                    }
                }
            }
            Err(RecvTimeoutError::Disconnected) => {
                let o = w.reap(alloc_line);
                if !write_ok {
                    if let Outcome::Harness(_) = o {
                        return Outcome::Harness("could not write frame to worker".into());
                    }
                }
                return o;
            }
            Err(RecvTimeoutError::Timeout) => {
                w.kill();
                return Outcome::Timeout;
            }
        }
    }
}

/// Run one input alone in a fresh worker.
fn run_alone(root: &std::path::Path, tag: &str, tid: usize, case: &Case, timeout: Duration) -> Outcome {
    let mut slot = None;
    let o = run_in(&mut slot, root, tag, tid, case, timeout);
    if let Some(w) = slot {
        w.kill();
    }
    o
}

// ---------------------------------------------------------------- statistics

#[derive(Default, Clone)]
struct TStats {
    inputs: u64,
    seed_ok: u64,
    seed_fail: u64,
    ok: u64,
    err_deep: u64,
    err_shallow: u64,
    panic: u64,
    alloc: u64,
    abort: u64,
    hang: u64,
    unconfirmed: u64,
    nontrivial: u64,
    max_req: u64,
    max_req_ratio_x100: u64,
    max_peak: u64,
    max_peak_ratio_x100: u64,
    max_cum_ratio_x100: u64,
    max_micros: u64,
    total_micros: u64,
    /// post-parse operations (queries on accepted structures, alternative entry points) executed
    post_ops: u64,
    /// calls in which at least one post-parse operation ran on a NON-seed input
    post_ops_calls_mutants: u64,
}

impl TStats {
    fn merge(&mut self, o: &TStats) {
        self.inputs += o.inputs;
        self.seed_ok += o.seed_ok;
        self.seed_fail += o.seed_fail;
        self.ok += o.ok;
        self.err_deep += o.err_deep;
        self.err_shallow += o.err_shallow;
        self.panic += o.panic;
        self.alloc += o.alloc;
        self.abort += o.abort;
        self.hang += o.hang;
        self.unconfirmed += o.unconfirmed;
        self.nontrivial += o.nontrivial;
        self.max_req = self.max_req.max(o.max_req);
        self.max_req_ratio_x100 = self.max_req_ratio_x100.max(o.max_req_ratio_x100);
        self.max_peak = self.max_peak.max(o.max_peak);
        self.max_peak_ratio_x100 = self.max_peak_ratio_x100.max(o.max_peak_ratio_x100);
        self.max_cum_ratio_x100 = self.max_cum_ratio_x100.max(o.max_cum_ratio_x100);
        self.max_micros = self.max_micros.max(o.max_micros);
        self.total_micros += o.total_micros;
        self.post_ops += o.post_ops;
        self.post_ops_calls_mutants += o.post_ops_calls_mutants;
    }
    fn to_json(&self) -> serde_json::Value {
        json!({
            "inputs": self.inputs, "seeds_ok": self.seed_ok, "seeds_rejected": self.seed_fail,
            "ok": self.ok, "err_past_magic": self.err_deep, "err_immediate_rejection": self.err_shallow,
            "panic": self.panic, "alloc_denied": self.alloc, "abort": self.abort, "hang": self.hang, "unconfirmed_crash_or_timeout": self.unconfirmed,
            "nontrivial": self.nontrivial,
            "largest_single_request_bytes": self.max_req,
            "largest_single_request_over_input_len": self.max_req_ratio_x100 as f64 / 100.0,
            "largest_live_bytes": self.max_peak,
            "largest_live_over_input_len": self.max_peak_ratio_x100 as f64 / 100.0,
            "largest_cumulative_over_input_len": self.max_cum_ratio_x100 as f64 / 100.0,
            "slowest_call_ms": self.max_micros as f64 / 1000.0,
            "mean_call_us": if self.inputs > 0 { self.total_micros / self.inputs } else { 0 },
            "post_parse_ops": self.post_ops,
            "mutant_calls_with_post_parse_ops": self.post_ops_calls_mutants,
        })
    }
}

/// Error texts that mean "rejected at the door" (magic / signature / too short / not text).
fn immediate_rejection(msg: &str) -> bool {
    let m = msg.to_ascii_lowercase();
    ["magic", "signature", "too short", "too small", "unexpected end", "unexpectedeof", "failed to fill whole buffer", "utf-8", "utf8", "insufficient", "none (", "empty", "not enough", "truncated", "eof while parsing", "expected value at line 1 column 1", "harness:"]
        .iter()
        .any(|p| m.contains(p))
}

fn digits_to_n(s: &str) -> String {
    let mut out = String::with_capacity(s.len());
    let mut in_num = false;
    for ch in s.chars() {
        if ch.is_ascii_digit() {
            if !in_num {
                out.push('N');
                in_num = true;
            }
        } else {
            in_num = false;
            out.push(ch);
        }
    }
    out
}

/// Message class of a panic: text up to the first variable part, digits folded.
fn message_class(msg: &str) -> String {
    let mut m = msg;
    for cut in ["; ", "`", ": ", " ("] {
        if let Some(p) = m.find(cut) {
            if p >= 8 {
                m = &m[..p];
            }
        }
    }
    let mut s = digits_to_n(m);
    s.truncate(70);
    s.trim().replace(' ', "-")
}

/// Repository-relative (or crate-relative) file of a panic location, no line number.
fn file_class(file_line: &str) -> String {
    let f = file_line.rsplit_once(':').map_or(file_line, |(a, _)| a);
    if let Some(p) = f.find("/crates/") {
        return f[p + 8..].to_string();
    }
    if let Some(p) = f.find("/registry/src/") {
        let rest = &f[p + 14..];
        return rest.split_once('/').map_or(rest, |(_, b)| b).to_string();
    }
    if let Some(p) = f.find("/library/") {
        return format!("rust-std/{}", &f[p + 9..]);
    }
    f.to_string()
}

// ---------------------------------------------------------------- judge

struct Shared<'a> {
    ctx: &'a Ctx,
    targets: &'a [Target],
    root: &'a std::path::Path,
    fixture_hashes: &'a HashSet<u64>,
    confirmed: Mutex<HashSet<String>>,
    failed_confirm: Mutex<HashMap<String, u32>>,
    /// one lock per signature: concurrent first sightings of one signature wait for the first confirmation
    sig_locks: Mutex<HashMap<String, std::sync::Arc<Mutex<()>>>>,
    hang_targets: Mutex<HashSet<usize>>,
    confirm_seq: AtomicU64,
    samples_left: AtomicUsize,
}

fn detail(target: &Target, case: &Case, extra: serde_json::Value) -> serde_json::Value {
    json!({
        "target": target.name,
        "flags": case.flags,
        "origin": case.origin,
        "input_len": case.data.len(),
        "input_hex": hex::encode(&case.data),
        "aux_hex": hex::encode(&case.aux),
        "observed": extra,
    })
}

fn same_kind(a: &Outcome, b: &Outcome) -> bool {
    match (a, b) {
        (Outcome::Alloc { site: s1, .. }, Outcome::Alloc { site: s2, .. }) => s1 == s2,
        (Outcome::Died { desc: d1, .. }, Outcome::Died { desc: d2, .. }) => d1 == d2,
        (Outcome::Timeout, Outcome::Timeout) => true,
        _ => false,
    }
}

/// Re-run the input alone three times (concurrently, each in a fresh worker).
/// Returns the three outcomes.
fn rerun3(sh: &Shared, tid: usize, case: &Case) -> Vec<Outcome> {
    let seq = sh.confirm_seq.fetch_add(1, Relaxed);
    let mut outs = Vec::new();
    std::thread::scope(|s| {
        let hs: Vec<_> = (0..3)
            .map(|i| {
                let tag = format!("confirm-{seq}-{i}");
                s.spawn(move || run_alone(sh.root, &tag, tid, case, RERUN_TIMEOUT))
            })
            .collect();
        for h in hs {
            outs.push(h.join().unwrap_or(Outcome::Harness("confirm thread panicked".into())));
        }
    });
    outs
}

fn judge(sh: &Shared, st: &mut TStats, nontrivial: &mut Vec<u64>, tid: usize, case: &Case, outcome: Outcome, is_seed: bool) {
    let target = &sh.targets[tid];
    let ctx = sh.ctx;
    st.inputs += 1;
    let in_len = (case.data.len() + case.aux.len()).max(1) as u64;
    let h = mix64(fnv64(target.name.as_bytes()), mix64(fnv64(&case.data), fnv64(&case.aux)));
    let differs = !sh.fixture_hashes.contains(&fnv64(&case.data));
    let mut mark_nontrivial = |st: &mut TStats| {
        if differs && !is_seed {
            st.nontrivial += 1;
            nontrivial.push(h);
        }
    };
    match outcome {
        Outcome::Done { class, max_req, cum, peak, micros, ops, msg } => {
            st.post_ops += ops;
            if ops > 0 && differs && !is_seed {
                st.post_ops_calls_mutants += 1;
            }
            st.max_req = st.max_req.max(max_req);
            st.max_req_ratio_x100 = st.max_req_ratio_x100.max(max_req.saturating_mul(100) / in_len);
            st.max_peak = st.max_peak.max(peak);
            st.max_peak_ratio_x100 = st.max_peak_ratio_x100.max(peak.saturating_mul(100) / in_len);
            st.max_cum_ratio_x100 = st.max_cum_ratio_x100.max(cum.saturating_mul(100) / in_len);
            st.max_micros = st.max_micros.max(micros);
            st.total_micros += micros;
            match class.as_str() {
                "ok" => {
                    st.ok += 1;
                    if is_seed {
                        st.seed_ok += 1;
                    }
                    mark_nontrivial(st);
                    if !is_seed && differs && sh.samples_left.fetch_update(Relaxed, Relaxed, |v| v.checked_sub(1)).is_ok() {
                        ctx.sample(json!({"target": target.name, "origin": case.origin, "input": hex_short(&case.data, 48), "outcome": "ok", "largest_request": max_req, "live_peak": peak}));
                    }
                }
                "err" => {
                    if is_seed {
                        st.seed_fail += 1;
                    }
                    if immediate_rejection(&msg) {
                        st.err_shallow += 1;
                    } else {
                        st.err_deep += 1;
                        mark_nontrivial(st);
                        if !is_seed && differs && micros % 7 == 0 && sh.samples_left.fetch_update(Relaxed, Relaxed, |v| v.checked_sub(1)).is_ok() {
                            ctx.sample(json!({"target": target.name, "origin": case.origin, "input": hex_short(&case.data, 48), "outcome": "err", "error": msg}));
                        }
                    }
                }
                _ => {
                    // panic caught by catch_unwind inside the worker (deterministic, in-process)
                    st.panic += 1;
                    mark_nontrivial(st);
                    let mut p = msg.split('\u{1}');
                    let file = p.next().unwrap_or("");
                    let func = p.next().unwrap_or("");
                    let pmsg = p.next().unwrap_or("");
                    // func = "<repo file>:<fn>" of the frame at the panic location (or first repo frame)
                    let fc = file_class(file);
                    let site = if func.split(':').next() == Some(fc.as_str()) { func.to_string() } else { format!("{fc}@{func}") };
                    let sig = format!("C02|{}|panic|{}:{}", target.name, site, message_class(pmsg));
                    ctx.violation(&sig, &format!("{} panicked at {file} in {func}: {pmsg}", target.name), detail(target, case, json!({"kind":"panic","location":file,"function":func,"message":pmsg})));
                }
            }
        }
        Outcome::Harness(e) => {
            ctx.obs("harness.worker_errors", 1);
            ctx.inconclusive(&format!("worker/harness error: {e}"));
        }
        other => {
            // worker died (alloc denial, signal, exit) or watchdog fired
            let (sig, kind) = match &other {
                Outcome::Alloc { site, .. } => (format!("C02|{}|alloc|{}", target.name, site), "alloc"),
                Outcome::Died { desc, .. } => (format!("C02|{}|abort|{}", target.name, desc), "abort"),
                _ => (format!("C02|{}|hang", target.name), "hang"),
            };
            ctx.obs(&format!("workers_restarted.{kind}"), 1);
            let sig_lock = sh.sig_locks.lock().unwrap_or_else(std::sync::PoisonError::into_inner).entry(sig.clone()).or_default().clone();
            let _sig_guard = sig_lock.lock().unwrap_or_else(std::sync::PoisonError::into_inner);
            let already = sh.confirmed.lock().unwrap_or_else(std::sync::PoisonError::into_inner).contains(&sig);
            let mut confirmed = already;
            let mut reruns_desc = Vec::new();
            if !already {
                let tries = {
                    let mut g = sh.failed_confirm.lock().unwrap_or_else(std::sync::PoisonError::into_inner);
                    let e = g.entry(sig.clone()).or_insert(0);
                    *e += 1;
                    *e
                };
                if tries <= 4 {
                    let outs = rerun3(sh, tid, case);
                    ctx.obs("reruns_alone", 3);
                    reruns_desc = outs.iter().map(|o| format!("{o:?}").chars().take(160).collect::<String>()).collect();
                    let all_same = outs.iter().all(|o| same_kind(o, &other));
                    let sigkill = matches!(other, Outcome::Died { sigkill: true, .. });
                    if all_same && !sigkill {
                        confirmed = true;
                        sh.confirmed.lock().unwrap_or_else(std::sync::PoisonError::into_inner).insert(sig.clone());
                        if kind == "hang" {
                            sh.hang_targets.lock().unwrap_or_else(std::sync::PoisonError::into_inner).insert(tid);
                        }
                    } else if all_same && sigkill {
                        ctx.inconclusive(&format!("worker killed by SIGKILL reproducibly on target {} (not ours: OOM killer?)", target.name));
                    } else if kind == "hang" && outs.iter().all(|o| matches!(o, Outcome::Done { .. })) {
                        ctx.obs("slow_but_terminating_calls", 1);
                    }
                }
            }
            if confirmed {
                mark_nontrivial(st);
                match &other {
                    Outcome::Alloc { size, kind: akind, site } => {
                        st.alloc += 1;
                        ctx.violation(
                            &sig,
                            &format!("{} requested {} bytes ({} limit) for a {}-byte input at {}", target.name, size, akind, case.data.len(), site),
                            detail(target, case, json!({"kind":"alloc","request_bytes":size,"limit":akind,"site":site,"reruns":reruns_desc})),
                        );
                    }
                    Outcome::Died { desc, .. } => {
                        st.abort += 1;
                        ctx.violation(&sig, &format!("{} killed the process: {}", target.name, desc), detail(target, case, json!({"kind":"abort","status":desc,"reruns":reruns_desc})));
                    }
                    _ => {
                        st.hang += 1;
                        ctx.violation(&sig, &format!("{} did not return within {}s (and 3 x {}s alone)", target.name, CALL_TIMEOUT.as_secs(), RERUN_TIMEOUT.as_secs()), detail(target, case, json!({"kind":"hang","reruns":reruns_desc})));
                    }
                }
            } else {
                st.unconfirmed += 1;
                ctx.obs(&format!("unconfirmed.{kind}.{}", target.name), 1);
                ctx.sample(json!({"unconfirmed": kind, "target": target.name, "origin": case.origin, "first": format!("{other:?}"), "reruns": reruns_desc}));
            }
        }
    }
}

// ---------------------------------------------------------------- main

fn post_process(family: &str, case: &mut Case, rng_bits: u64) {
    // formats whose whole-file checksum would otherwise stop every mutant at the door:
    // an attacker can recompute them, so does the harness (for most inputs)
    if family == "lru" && rng_bits % 4 != 0 {
        seeds::lru_fix_md5(&mut case.data);
        case.origin.push_str(" +md5-fixed");
    }
    if (family == "archive_index" || family == "archive_group") && rng_bits % 4 != 0 {
        seeds::archive_fix_footer_hash(&mut case.data);
        case.origin.push_str(" +footer-hash-fixed");
    }
    if (family == "encoding") && rng_bits % 4 != 0 && seeds::encoding_fix_page_checksums(&mut case.data) {
        case.origin.push_str(" +page-checksums-fixed");
    }
    if family == "patch_index" && rng_bits % 4 != 0 {
        // the header repeats the file length; an attacker keeps it consistent
        seeds::patch_index_fix_data_size(&mut case.data);
        case.origin.push_str(" +data-size-fixed");
    }
    if family == "mime" && rng_bits % 2 == 0 {
        const P: &[u8] = b"Checksum: ";
        if let Some(pos) = case.data.windows(P.len()).rposition(|w| w == P) {
            let body = case.data[..pos].to_vec();
            case.data = seeds::mime_with_checksum(&body);
            case.origin.push_str(" +checksum-fixed");
        }
    }
}

fn main() {
    let argv: Vec<String> = std::env::args().collect();
    let targets = entrypoints::targets();
    if argv.get(1).map(String::as_str) == Some("--worker") {
        worker::worker_main(argv.get(2).map_or("/tmp/c02-worker", String::as_str), &targets);
    }

    let ctx = Ctx::init("C02", "exploration");
    ctx.set_rule("inputs = every fixture under cascette-formats/test_fixtures plus small hand-/builder-made valid files per format, mutated: systematic sweep (interesting 8/16/24/32/40/64-bit values BE+LE at every offset of the header regions [first 64 + last 32 bytes of the first 2 seeds in quick; first 256 + last 64 of up to 6 seeds, first 1024 of the smallest seed, in thorough], truncation at every length <= 64 and the last 64 lengths) + seeded random mutation (value/bit/byte edits biased to header regions, field arithmetic (+1,-1,x2, input-length relatives), truncation, splices with other formats, duplicated/deleted regions, dictionary tokens, token repetition up to 150k, valid prefix + random rest, pure random). A case is non-trivial when its bytes differ from every seed/fixture AND the call was not rejected at the door, i.e. outcome is Ok, a panic/alloc/abort/hang, or an Err whose text does not match an immediate-rejection pattern (magic, signature, too short/small, unexpected end/EOF, failed to fill whole buffer, utf-8, insufficient, empty, not enough, truncated); this is an approximation of 'got past the magic check' by error text. Distinct by hash(target, input, aux).");
    ctx.assume("the counting allocator sees every heap request of the call (global allocator of the worker binary; mmap-backed allocations by libc are still requested through it)");
    ctx.assume("a panic caught by catch_unwind in the worker is deterministic for the input (no re-run); worker deaths and watchdog time-outs are judged only after three solitary re-runs that all reproduce them");
    ctx.assume("debug-assertions and overflow-checks are on (profile verif = the semantics of the repository's test-suite): arithmetic overflow panics count as panics");

    // memory-backed scratch space when available: the file-based targets must not be
    // stalled by other processes' fsync storms on the disk behind /tmp
    let shm = std::path::Path::new("/dev/shm");
    let made = if shm.is_dir() { tempfile::Builder::new().prefix("c02-").tempdir_in(shm) } else { tempfile::Builder::new().prefix("c02-").tempdir() };
    let made = made.or_else(|_| tempfile::Builder::new().prefix("c02-").tempdir());
    let tmp = match made {
        Ok(t) => t,
        Err(e) => {
            ctx.inconclusive(&format!("no temp dir: {e}"));
            ctx.finish();
        }
    };
    let root = tmp.path().to_path_buf();

    let families = seeds::build_all();
    let mut fixture_hashes = HashSet::new();
    for v in families.values() {
        for s in v {
            fixture_hashes.insert(fnv64(&s.data));
        }
    }
    for t in &targets {
        if families.get(t.family).is_none_or(Vec::is_empty) {
            ctx.inconclusive(&format!("no seed input for target {} (family {})", t.name, t.family));
        }
    }

    let sh = Shared {
        ctx: &ctx,
        targets: &targets,
        root: &root,
        fixture_hashes: &fixture_hashes,
        confirmed: Mutex::new(HashSet::new()),
        failed_confirm: Mutex::new(HashMap::new()),
        sig_locks: Mutex::new(HashMap::new()),
        hang_targets: Mutex::new(HashSet::new()),
        confirm_seq: AtomicU64::new(0),
        samples_left: AtomicUsize::new(6),
    };

    if let Some(d) = ctx.replay_detail() {
        replay(&sh, &d);
        drop(tmp);
        ctx.finish();
    }

    run(&sh, &families);
    drop(tmp);
    ctx.finish();
}

fn replay(sh: &Shared, d: &serde_json::Value) {
    let ctx = sh.ctx;
    let name = d.get("target").and_then(|v| v.as_str()).unwrap_or("");
    let Some(tid) = sh.targets.iter().position(|t| t.name == name) else {
        ctx.inconclusive(&format!("replay: unknown target {name:?}"));
        return;
    };
    let data = hex::decode(d.get("input_hex").and_then(|v| v.as_str()).unwrap_or("")).unwrap_or_default();
    let aux = hex::decode(d.get("aux_hex").and_then(|v| v.as_str()).unwrap_or("")).unwrap_or_default();
    let flags = d.get("flags").and_then(serde_json::Value::as_u64).unwrap_or(0) as u32;
    let case = Case { data, aux, flags, origin: format!("replay of {}", d.get("origin").and_then(|v| v.as_str()).unwrap_or("?")) };
    let mut st = TStats::default();
    let mut nt = Vec::new();
    // SAFETY-free: set before any worker is spawned in this (single-threaded) replay path
    unsafe { std::env::set_var("C02_BT_DUMP", "1") };
    let o = run_alone(sh.root, "replay", tid, &case, RERUN_TIMEOUT);
    if let Ok(text) = std::fs::read_to_string(sh.root.join("w-replay.stderr")) {
        let tail: String = text.chars().rev().take(6000).collect::<String>().chars().rev().collect();
        println!("--- worker stderr (tail) ---\n{tail}\n--- end ---");
    }
    println!("replay: target={name} input_len={} outcome={}", case.data.len(), format!("{o:?}").chars().take(300).collect::<String>());
    judge(sh, &mut st, &mut nt, tid, &case, o, false);
    // the replayed case is executed (first run) and, for crashes, re-run alone: two evaluations of one case
    let h = mix64(fnv64(name.as_bytes()), fnv64(&case.data));
    ctx.eval_nontrivial(h);
    ctx.eval_nontrivial(mix64(h, 1));
    ctx.set_extra("replay", json!({"target": name, "stats": st.to_json()}));
}

fn run(sh: &Shared, families: &Families) {
    let ctx = sh.ctx;
    let targets = sh.targets;
    let quick = ctx.quick();
    let random_per_target: usize = ctx.pick(10_000, 100_000);
    let deadline = Instant::now() + Duration::from_secs_f64(ctx.pick(55.0, 510.0) * Ctx::wall_scale());
    let pool: Vec<&Seed> = families.values().flat_map(|v| v.iter()).filter(|s| s.data.len() <= 70_000).collect();

    let empty: Vec<Seed> = Vec::new();
    let fam: Vec<&Vec<Seed>> = targets.iter().map(|t| families.get(t.family).unwrap_or(&empty)).collect();
    let plans: Vec<Plan> = fam.iter().map(|s| Plan::new(s, quick, random_per_target)).collect();
    let totals: Vec<usize> = plans.iter().zip(&fam).map(|(p, s)| s.len() + p.total()).collect();
    let max_total = totals.iter().copied().max().unwrap_or(0);
    let n_targets = targets.len();
    let next = AtomicU64::new(0);
    let stopped = AtomicBool::new(false);
    let all_stats: Mutex<Vec<TStats>> = Mutex::new(vec![TStats::default(); n_targets]);
    let planned: u64 = totals.iter().map(|&t| t as u64).sum();
    ctx.set_extra("plan", json!({"targets": n_targets, "planned_inputs": planned, "per_target": targets.iter().zip(&plans).zip(&fam).map(|((t, p), s)| json!({"target": t.name, "seeds": s.len(), "plan": p.describe()})).collect::<Vec<_>>()}));
    let t_start = Instant::now();

    std::thread::scope(|scope| {
        for wi in 0..WORKERS {
            let next = &next;
            let stopped = &stopped;
            let all_stats = &all_stats;
            let plans = &plans;
            let fam = &fam;
            let totals = &totals;
            let pool = &pool;
            scope.spawn(move || {
                let mut slot: Option<WorkerProc> = None;
                let mut stats = vec![TStats::default(); n_targets];
                let mut nontrivial: Vec<u64> = Vec::new();
                let mut local_evals = 0u64;
                let tag = format!("{wi}");
                loop {
                    let g = next.fetch_add(1, Relaxed);
                    let j = (g / n_targets as u64) as usize;
                    let tid = (g % n_targets as u64) as usize;
                    if j >= max_total {
                        break;
                    }
                    if Instant::now() >= deadline {
                        stopped.store(true, Relaxed);
                        break;
                    }
                    if j >= totals[tid] {
                        continue;
                    }
                    let seeds = fam[tid];
                    if seeds.is_empty() {
                        continue;
                    }
                    let target = &targets[tid];
                    let (case, is_seed) = if j < seeds.len() {
                        let s = &seeds[j];
                        (Some(Case { data: s.data.clone(), aux: s.aux.clone(), flags: 0, origin: format!("seed {}", s.name) }), true)
                    } else {
                        let jj = j - seeds.len();
                        let mut rng = ctx.rng(mix64(fnv64(target.name.as_bytes()), jj as u64));
                        // systematic sweep and random/structured generation are interleaved (even / odd),
                        // so that a time-boxed run gets both instead of only the front of the sweep
                        let sys_n = plans[tid].systematic;
                        let rand_n = totals[tid].saturating_sub(seeds.len() + sys_n);
                        let r = sys_n.min(rand_n);
                        let sys_index = if jj < 2 * r {
                            if jj % 2 == 0 { Some(jj / 2) } else { None }
                        } else if sys_n > r {
                            Some(jj - r)
                        } else {
                            None
                        };
                        let c = if let Some(si) = sys_index {
                            plans[tid].systematic_case(seeds, si)
                        } else if target.family == "zbsdiff" && rng.chance(1, 3) {
                            let old = &seeds[rng.usize_below(seeds.len())].aux;
                            if rng.chance(1, 3) { Some(mutate::zbsdiff_one_hostile_field(&mut rng, old)) } else { Some(mutate::zbsdiff_structured(&mut rng, old)) }
                        } else if target.family.ends_with("_filename") && rng.chance(3, 4) {
                            Some(mutate::filename_case(&mut rng, seeds))
                        } else if (target.family == "archive_index" || target.family == "archive_group") && rng.chance(1, 10) {
                            mutate::archive_index_hole(&mut rng, seeds)
                        } else if !mutate::field_table(target.family).is_empty() && rng.chance(1, 3) {
                            mutate::fields_case(&mut rng, seeds, mutate::field_table(target.family))
                        } else if target.family == "patch_index" && rng.chance(1, 4) {
                            mutate::patch_index_inner_block(&mut rng, seeds)
                        } else {
                            Some(mutate::random_case(&mut rng, seeds, pool, target.text))
                        };
                        let c = c.map(|mut c| {
                            post_process(target.family, &mut c, rng.next_u64());
                            c
                        });
                        (c, false)
                    };
                    let Some(case) = case else { continue };
                    let timeout = if sh.hang_targets.lock().unwrap_or_else(std::sync::PoisonError::into_inner).contains(&tid) { Duration::from_secs(2) } else { CALL_TIMEOUT };
                    let o = run_in(&mut slot, sh.root, &tag, tid, &case, timeout);
                    judge(sh, &mut stats[tid], &mut nontrivial, tid, &case, o, is_seed);
                    local_evals += 1;
                    if nontrivial.len() >= 4096 {
                        ctx.add_nontrivial(nontrivial.drain(..));
                    }
                }
                if let Some(w) = slot {
                    w.kill();
                }
                ctx.add_evals(local_evals);
                ctx.add_nontrivial(nontrivial.drain(..));
                let mut g = all_stats.lock().unwrap_or_else(std::sync::PoisonError::into_inner);
                for (a, b) in g.iter_mut().zip(&stats) {
                    a.merge(b);
                }
            });
        }
    });

    let wall = t_start.elapsed().as_secs_f64();
    let stats = all_stats.into_inner().unwrap_or_else(std::sync::PoisonError::into_inner);
    let mut total = TStats::default();
    let mut per_target = BTreeMap::new();
    for (t, s) in targets.iter().zip(&stats) {
        total.merge(s);
        per_target.insert(t.name.to_string(), s.to_json());
        if s.seed_ok == 0 {
            ctx.inconclusive(&format!("target {}: no unmodified seed was accepted (harness would only exercise the rejection path)", t.name));
        }
        if s.nontrivial == 0 {
            ctx.inconclusive(&format!("target {}: no non-trivial input was evaluated", t.name));
        }
        if t.post_ops {
            ctx.obs(&format!("post_parse_ops.{}", t.name), s.post_ops);
            if s.post_ops_calls_mutants == 0 {
                ctx.inconclusive(&format!("target {}: its post-parse operations never ran on a mutated input that the parser accepted", t.name));
            }
        }
    }
    ctx.obs("post_parse_ops.total", total.post_ops);
    ctx.obs("inputs.total", total.inputs);
    ctx.obs("outcome.ok", total.ok);
    ctx.obs("outcome.err_past_magic", total.err_deep);
    ctx.obs("outcome.err_immediate_rejection", total.err_shallow);
    ctx.obs("outcome.panic", total.panic);
    ctx.obs("outcome.alloc_denied", total.alloc);
    ctx.obs("outcome.abort", total.abort);
    ctx.obs("outcome.hang", total.hang);
    ctx.obs("outcome.unconfirmed_crash_or_timeout", total.unconfirmed);
    ctx.obs("targets", n_targets as u64);
    ctx.obs("inputs_per_second", (total.inputs as f64 / wall.max(0.001)) as u64);
    ctx.obs("largest_single_request_bytes", total.max_req);
    ctx.obs("largest_single_request_over_input_len_x100", total.max_req_ratio_x100);
    ctx.obs("largest_live_over_input_len_x100", total.max_peak_ratio_x100);
    if stopped.load(Relaxed) {
        ctx.obs("stopped_by_deadline", 1);
    }
    ctx.set_extra("targets", json!(per_target));
    ctx.set_extra("run", json!({"workers": WORKERS, "wall_s": wall, "planned_inputs": planned, "executed_inputs": total.inputs, "stopped_by_deadline": stopped.load(Relaxed), "call_timeout_s": CALL_TIMEOUT.as_secs(), "rerun_timeout_s": RERUN_TIMEOUT.as_secs()}));
}
