//! Coverage-driven extension of C02: "fail closed" also covers (a) the query / lookup /
//! validate functions of the anchored files when they are applied to a structure that the
//! parser ACCEPTED from hostile bytes (inconsistent counts, unsorted indices, keys taken from
//! the structure itself as probes), and (b) the alternative entry points that take bytes or
//! names from the disk: file-based loaders (`BpsvReader::from_path`, `BuildInfoFile::from_path`,
//! `IndexManager::load_all`, `LruManager::find_latest_lru_file`), header-only parsers
//! (`ZbsdiffHeader::parse_from_patch`, `parse_schema`), the streaming applier with a small
//! buffer, `InstallManifest::verify_round_trip`.
//!
//! The oracle is the one of the whole check (panic / abort / hang / allocation out of
//! proportion, judged by the parent); nothing about the *results* of the queries is judged
//! here (their correctness belongs to C03). Every post-parse operation is counted with `op()`.

use crate::entrypoints::{Call, R, Target, op, phase_decode, phase_parse};
use cascette_client_storage::BuildInfoFile;
use cascette_client_storage::index::IndexManager;
use cascette_client_storage::index::update::{UpdateEntry, UpdatePage, UpdateSection, UpdateStatus};
use cascette_client_storage::kmt::key_state::{ResidencyDb, ResidencyEntry, ResidencyPage};
use cascette_client_storage::lru::{LruManager, lru_file};
use cascette_client_storage::shmem::control_block::ShmemControlBlock;
use cascette_crypto::{ContentKey, EncodingKey, FileDataId};
use cascette_formats::CascFormat;
use cascette_formats::archive::{ArchiveGroup, ArchiveGroupEntry, ArchiveIndex, ChunkedArchiveIndex};
use cascette_formats::blte::BlteFile;
use cascette_formats::bpsv::BpsvReader;
use cascette_formats::download::{DownloadManifest, PriorityCategory};
use cascette_formats::encoding::EncodingFile;
use cascette_formats::install::InstallManifest;
use cascette_formats::root::{ContentFlags, LocaleFlags, RootFile};
use cascette_formats::size::SizeManifest;
use cascette_formats::tvfs::TvfsFile;
use cascette_formats::zbsdiff::{ZbsDiff, ZbsdiffHeader, ZbsdiffPatcher};

fn err<E: std::fmt::Display>(e: E) -> R {
    R::Err(e.to_string())
}

/// At most `max` indices spread over `0..n` (first, last and evenly spaced ones).
fn spread(n: usize, max: usize) -> Vec<usize> {
    if n == 0 {
        return Vec::new();
    }
    if n <= max {
        return (0..n).collect();
    }
    let mut v: Vec<usize> = (0..max).map(|i| i * (n - 1) / (max - 1)).collect();
    v.dedup();
    v
}

fn key16(bytes: &[u8]) -> [u8; 16] {
    let mut k = [0u8; 16];
    let n = bytes.len().min(16);
    k[..n].copy_from_slice(&bytes[..n]);
    k
}

/// Keys taken from the raw input at a few offsets (probes that are "near" the data).
fn input_keys(input: &[u8], max: usize) -> Vec<[u8; 16]> {
    let mut v = vec![[0u8; 16], [0xff; 16], [0x42; 16]];
    if input.len() >= 16 {
        for i in spread(input.len() - 15, max) {
            v.push(key16(&input[i..]));
        }
    }
    v
}

// ---------------------------------------------------------------- encoding

fn encoding_queries(c: &Call) -> R {
    phase_parse(c.input.len());
    let f = match <EncodingFile as CascFormat>::parse(c.input) {
        Ok(f) => f,
        Err(e) => return err(e),
    };
    let _ = f.ckey_count();
    let _ = f.ekey_count();
    op();
    // probes: keys of the parsed pages (first / last / spread), the page-index first keys,
    // neighbours of those, and fixed ones
    let mut ckeys: Vec<ContentKey> = Vec::new();
    for pi in spread(f.ckey_pages.len(), 6) {
        let p = &f.ckey_pages[pi];
        for ei in spread(p.entries.len(), 4) {
            ckeys.push(p.entries[ei].content_key);
        }
    }
    for ii in spread(f.ckey_index.len(), 6) {
        let k = f.ckey_index[ii].first_key;
        ckeys.push(ContentKey::from_bytes(k));
        let mut lo = k;
        lo[15] = lo[15].wrapping_sub(1);
        ckeys.push(ContentKey::from_bytes(lo));
    }
    ckeys.push(ContentKey::from_bytes([0; 16]));
    ckeys.push(ContentKey::from_bytes([0xff; 16]));
    for k in &ckeys {
        let _ = f.find_encoding(k);
        let _ = f.find_all_encodings(k);
        op();
    }
    // batch variants: probe order as collected (unsorted, with duplicates), reversed, empty
    let _ = f.batch_find_encodings(&ckeys);
    let _ = f.batch_find_all_encodings(&ckeys);
    let rev: Vec<ContentKey> = ckeys.iter().rev().copied().collect();
    let _ = f.batch_find_encodings(&rev);
    let _ = f.batch_find_all_encodings(&[]);
    op();

    let mut ekeys: Vec<EncodingKey> = Vec::new();
    for pi in spread(f.ekey_pages.len(), 6) {
        let p = &f.ekey_pages[pi];
        for ei in spread(p.entries.len(), 4) {
            ekeys.push(p.entries[ei].encoding_key);
        }
    }
    for ii in spread(f.ekey_index.len(), 6) {
        ekeys.push(EncodingKey::from_bytes(f.ekey_index[ii].first_key));
    }
    // encoding keys referenced from the content-key table
    for pi in spread(f.ckey_pages.len(), 3) {
        if let Some(e) = f.ckey_pages[pi].entries.first() {
            ekeys.extend(e.encoding_keys.iter().take(2).copied());
        }
    }
    ekeys.push(EncodingKey::from_bytes([0; 16]));
    ekeys.push(EncodingKey::from_bytes([0xff; 16]));
    for k in &ekeys {
        let _ = f.find_espec(k);
        op();
    }
    let _ = f.batch_find_especs(&ekeys);
    let _ = f.batch_find_especs(&[]);
    op();
    R::Ok
}

// ---------------------------------------------------------------- archive index / group

fn archive_index_queries(c: &Call) -> R {
    phase_parse(c.input.len());
    let ix = match ArchiveIndex::parse(std::io::Cursor::new(c.input)) {
        Ok(ix) => ix,
        Err(e) => return err(e),
    };
    let _ = ix.entry_count();
    let _ = ix.chunk_count();
    let _ = ix.is_archive_group();
    op();
    let mut probes: Vec<Vec<u8>> = Vec::new();
    for i in spread(ix.entries.len(), 12) {
        let k = ix.entries[i].encoding_key.clone();
        // full key, 9-byte prefix, key + 1 in the last byte
        probes.push(k.clone());
        probes.push(k[..k.len().min(9)].to_vec());
        let mut up = k;
        if let Some(l) = up.last_mut() {
            *l = l.wrapping_add(1);
        }
        probes.push(up);
    }
    for i in spread(ix.toc.len(), 12) {
        probes.push(ix.toc[i].clone());
    }
    probes.push(Vec::new());
    probes.push(vec![0; 16]);
    probes.push(vec![0xff; 16]);
    probes.push(vec![0xff; 32]);
    for k in input_keys(c.input, 4) {
        probes.push(k.to_vec());
    }
    for k in &probes {
        let _ = ix.find_entry(k);
        let _ = ix.binary_search_key(k);
        let _ = ix.find_all_entries(k);
        let _ = ix.find_all_key_matches(k);
        op();
    }
    let _ = ix.validate();
    op();
    R::Ok
}

fn archive_group_queries(c: &Call) -> R {
    phase_parse(c.input.len());
    // the 6-byte composite offset decoder takes a slice of any length
    for n in [0usize, 5, 6, 7] {
        if c.input.len() >= n {
            let _ = ArchiveGroupEntry::parse_combined_offset(&c.input[..n]);
            op();
        }
    }
    let g = match ArchiveGroup::parse(&mut std::io::Cursor::new(c.input)) {
        Ok(g) => g,
        Err(e) => return err(e),
    };
    let mut probes: Vec<Vec<u8>> = Vec::new();
    for i in spread(g.entries.len(), 16) {
        let e = &g.entries[i];
        probes.push(e.encoding_key.clone());
        probes.push(e.encoding_key[..e.encoding_key.len().min(9)].to_vec());
        let _ = ArchiveGroupEntry::parse_combined_offset(&e.combined_offset());
    }
    probes.push(Vec::new());
    probes.push(vec![0xff; 16]);
    for k in &probes {
        let _ = g.find_entry(k);
        op();
    }
    R::Ok
}

fn chunked_index_queries(c: &Call) -> R {
    let p = c.dir.join("chunked-q.index");
    let _ = std::fs::write(&p, c.input);
    phase_parse(c.input.len());
    let mut ix = match ChunkedArchiveIndex::open(&p) {
        Ok(ix) => ix,
        Err(e) => return err(e),
    };
    // probes from the file itself: first / middle / last record of the leading 4 KiB chunks
    // (16-byte keys, 24-byte records in the standard layout) and the bytes where the TOC starts
    let mut probes: Vec<Vec<u8>> = Vec::new();
    let chunks = c.input.len() / 4096;
    for ci in spread(chunks, 6) {
        for rec in [0usize, 1, 85, 169] {
            let off = ci * 4096 + rec * 24;
            if off + 16 <= c.input.len() {
                probes.push(c.input[off..off + 16].to_vec());
                probes.push(c.input[off..off + 9].to_vec());
            }
        }
    }
    let toc = chunks * 4096;
    for i in 0..4usize {
        let off = toc + i * 16;
        if off + 16 <= c.input.len() {
            probes.push(c.input[off..off + 16].to_vec());
        }
    }
    probes.push(Vec::new());
    probes.push(vec![0xff; 16]);
    let mut first_err = None;
    for k in &probes {
        // twice: the second call takes the already-loaded-chunk path
        for _ in 0..2 {
            if let Err(e) = ix.find_entry(k) {
                first_err.get_or_insert_with(|| e.to_string());
            }
            op();
        }
    }
    match first_err {
        Some(e) => R::Err(format!("find_entry after open: {e}")),
        None => R::Ok,
    }
}

// ---------------------------------------------------------------- install / download / size

fn install_queries(c: &Call) -> R {
    phase_parse(c.input.len());
    let m = match InstallManifest::parse(c.input) {
        Ok(m) => m,
        Err(e) => return err(e),
    };
    let mut m = m;
    let names: Vec<String> = spread(m.tags.len(), 6).into_iter().map(|i| m.tags[i].name.clone()).collect();
    let _ = m.validate();
    let _ = m.total_install_size();
    let _ = m.stats();
    let _ = m.get_extensions();
    op();
    for n in &names {
        let _ = m.find_tag(n);
        let _ = m.find_tag_mut(n).map(|t| t.file_count());
        let _ = m.get_files_for_tag(n);
        op();
    }
    let refs: Vec<&str> = names.iter().map(String::as_str).collect();
    let _ = m.get_files_for_tags(&refs);
    let _ = m.get_files_for_any_tag(&refs);
    let _ = m.calculate_install_size(&refs);
    let _ = m.get_files_for_tags(&[]);
    let _ = m.get_files_for_any_tag(&["no-such-tag"]);
    let _ = m.calculate_install_size(&refs[..refs.len().min(1)]);
    op();
    for t in &m.tags {
        let _ = t.get_files(m.entries.len() + 9);
        let _ = t.is_platform_tag();
    }
    op();
    // path helpers on hostile paths (string slicing) and pattern / extension searches
    let mut patterns: Vec<String> = vec!["*".into(), "*.dll".into(), "*a*".into(), "**".into(), "é*".into(), String::new()];
    for i in spread(m.entries.len(), 6) {
        let e = &m.entries[i];
        let _ = e.file_name();
        let _ = e.directory();
        let _ = e.normalized_path();
        if let Some(x) = e.extension() {
            patterns.push(x.to_string());
        }
        let p = &e.path;
        let cut = (0..=p.len().min(5)).rev().find(|&i| p.is_char_boundary(i)).unwrap_or(0);
        patterns.push(format!("{}*", &p[..cut]));
        op();
    }
    for pat in &patterns {
        let _ = m.find_files(pat);
        let _ = m.get_files_by_extension(pat);
        op();
    }
    // alternative entry point over the raw bytes: parse + build + compare
    let _ = InstallManifest::verify_round_trip(c.input);
    op();
    R::Ok
}

fn download_queries(c: &Call) -> R {
    phase_parse(c.input.len());
    let m = match DownloadManifest::parse(c.input) {
        Ok(m) => m,
        Err(e) => return err(e),
    };
    let _ = m.validate();
    let s = m.stats();
    let _ = s.average_file_size();
    let _ = s.large_file_percentage();
    let _ = s.is_modern_format();
    let _ = s.total_size_human_readable();
    let _ = m.analyze_priorities();
    let _ = m.supports_streaming();
    let _ = m.essential_download_size();
    let _ = m.total_download_size();
    let _ = m.compression_info();
    let _ = m.platform_tags();
    let _ = m.optional_tags();
    op();
    let names: Vec<String> = m.tag_names().into_iter().map(str::to_string).collect();
    let pick: Vec<&str> = spread(names.len(), 6).into_iter().map(|i| names[i].as_str()).collect();
    for n in &pick {
        let _ = m.find_tag(n);
        let _ = m.entries_by_tag(n);
        op();
    }
    let _ = m.entries_by_tags(&pick);
    let _ = m.entries_by_tags(&[]);
    let _ = m.entries_by_tags(&pick[..pick.len().min(2)]);
    let _ = m.calculate_size_for_tags(&pick[..pick.len().min(1)]);
    let _ = m.calculate_size_for_tags(&["no-such-tag"]);
    if pick.len() >= 2 {
        let _ = m.entries_for_platform(pick[0], pick[1]);
    }
    let _ = m.entries_for_platform("Windows", "x86_64");
    op();
    for cat in [PriorityCategory::Critical, PriorityCategory::Essential, PriorityCategory::High, PriorityCategory::Normal, PriorityCategory::Low] {
        let _ = m.entries_by_priority(cat);
    }
    let _ = m.entries_by_priority_range(i8::MIN, i8::MAX);
    let _ = m.entries_by_priority_range(0, 0);
    let _ = m.entries_by_priority_range(5, -5);
    op();
    for i in spread(m.entries.len(), 8) {
        let e = &m.entries[i];
        let _ = e.effective_priority(&m.header);
        let _ = e.download_rank(&m.header);
        let _ = e.is_critical(&m.header);
        let _ = e.is_high_priority(&m.header);
        let _ = e.serialized_size(&m.header);
        let _ = e.validate(&m.header);
        op();
    }
    R::Ok
}

fn size_queries(c: &Call) -> R {
    phase_parse(c.input.len());
    let m = match SizeManifest::parse(c.input) {
        Ok(m) => m,
        Err(e) => return err(e),
    };
    let _ = m.validate();
    let _ = m.header.validate();
    let _ = m.header.header_size();
    let _ = m.header.total_size();
    op();
    for i in spread(m.entries.len(), 8) {
        let _ = m.entries[i].validate(&m.header);
        op();
    }
    for t in &m.tags {
        let _ = t.file_count();
        let _ = t.get_files(m.entries.len() + 9);
        op();
    }
    R::Ok
}

// ---------------------------------------------------------------- root / tvfs / blte

fn root_queries(c: &Call) -> R {
    phase_parse(c.input.len());
    let f = match RootFile::parse(c.input) {
        Ok(f) => f,
        Err(e) => return err(e),
    };
    let mut f = f;
    let _ = f.total_files();
    let _ = f.named_files();
    let _ = f.num_blocks();
    let _ = f.lookup_stats();
    let _ = f.summary();
    let _ = f.validate();
    op();
    let all = LocaleFlags::new(u32::MAX);
    let none = LocaleFlags::new(0);
    let mut ids: Vec<u32> = vec![0, 1, u32::MAX];
    let mut hashes: Vec<u64> = vec![0, u64::MAX];
    for bi in spread(f.blocks.len(), 6) {
        let b = &f.blocks[bi];
        for ri in spread(b.records.len(), 4) {
            let r = &b.records[ri];
            ids.push(r.file_data_id.get());
            ids.push(r.file_data_id.get().wrapping_add(1));
            if let Some(h) = r.name_hash {
                hashes.push(h);
            }
        }
    }
    for &id in &ids {
        let fd = FileDataId::new(id);
        let _ = f.resolve_by_id(fd, all, ContentFlags::new(0));
        let _ = f.resolve_by_id(fd, none, ContentFlags::new(u64::MAX));
        let _ = f.get_entries_by_id(fd);
        op();
    }
    for &h in &hashes {
        let _ = f.resolve_by_hash(h, all, ContentFlags::new(0));
        op();
    }
    for p in ["", "Interface\\FrameXML\\UIParent.lua", "world/maps/azeroth/azeroth.wdt", "é\u{10ffff}\\x"] {
        let _ = f.resolve_by_path(p, all, ContentFlags::new(0));
        let _ = f.get_entries_by_path(p);
        op();
    }
    let n = f.iter_records().count();
    let _ = n;
    f.rebuild_lookups();
    let _ = f.lookup_stats();
    op();
    R::Ok
}

fn tvfs_queries(c: &Call) -> R {
    phase_parse(c.input.len());
    let f = match TvfsFile::parse(c.input) {
        Ok(f) => f,
        Err(e) => return err(e),
    };
    let files = f.enumerate_files().count();
    let _ = files;
    op();
    let mut paths: Vec<String> = vec![String::new(), "/".into(), "no/such/file".into(), "é".into()];
    for i in spread(f.path_table.files.len(), 10) {
        let p = &f.path_table.files[i].path;
        paths.push(p.clone());
        paths.push(p.to_uppercase());
        let cut = (0..=p.len() / 2).rev().find(|&i| p.is_char_boundary(i)).unwrap_or(0);
        paths.push(p[..cut].to_string());
    }
    for p in &paths {
        let _ = f.resolve_path(p);
        let _ = f.path_table.resolve_path(p);
        op();
    }
    let _ = f.path_table.file_count();
    for i in spread(f.vfs_table.entries.len(), 6) {
        let e = &f.vfs_table.entries[i];
        let _ = f.vfs_table.get_entry_by_index(i);
        for s in e.spans.iter().take(3) {
            let _ = f.container_table.get_entry_at_offset(s.cft_offset, &f.header);
            op();
        }
    }
    let _ = f.vfs_table.get_entry_by_index(usize::MAX);
    let _ = f.container_table.get_entry(u32::MAX);
    let _ = f.vfs_table.table_size();
    op();
    R::Ok
}

fn blte_queries(c: &Call) -> R {
    phase_parse(c.input.len());
    let f = match <BlteFile as CascFormat>::parse(c.input) {
        Ok(f) => f,
        Err(e) => return err(e),
    };
    let h = &f.header;
    let _ = h.chunk_count();
    let _ = h.data_offset();
    let _ = h.total_header_size();
    let _ = h.is_single_chunk();
    op();
    let infos = h.extended.as_ref().map(|x| x.chunk_infos.clone()).unwrap_or_default();
    if let Some(x) = &h.extended {
        let _ = x.flags.chunk_info_size();
    }
    phase_decode();
    for (i, ch) in f.chunks.iter().enumerate().take(8) {
        let _ = ch.compressed_size();
        let _ = ch.decompressed_size();
        let _ = ch.compressed_data();
        if let Some(info) = infos.get(i) {
            let _ = ch.verify_checksum(&info.checksum);
        }
        let _ = ch.verify_checksum(&[0u8; 16]);
        let _ = ch.verify_checksum(&[0xff; 16]);
        // per-chunk decoder (the whole-file decoders are separate targets)
        let _ = ch.decompress(i);
        op();
    }
    R::Ok
}

// ---------------------------------------------------------------- zbsdiff / bpsv

fn zbs_header_and_small_buffer(c: &Call) -> R {
    phase_parse(c.input.len() + c.aux.len());
    let hdr = match ZbsdiffHeader::parse_from_patch(c.input) {
        Ok(h) => h,
        Err(e) => return err(e),
    };
    op();
    let _ = hdr.validate();
    // the full parser must accept what the header-only parser accepted or fail with an error
    let out = match ZbsDiff::parse(c.input) {
        Ok(p) => p.output_size(),
        Err(e) => return err(e),
    };
    phase_decode();
    // streaming applier with the smallest buffer (configuration branch: many refills)
    let bs = if c.flags & 2 == 0 { 1 } else { 4096 };
    let patcher = ZbsdiffPatcher::new(std::io::Cursor::new(c.aux), out).with_buffer_size(bs);
    op();
    match patcher.apply_patch_from_data(c.input) {
        Ok(_) => R::Ok,
        Err(e) => err(e),
    }
}

fn bpsv_reader(c: &Call) -> R {
    phase_parse(c.input.len());
    // schema-only parser over a string
    if let Ok(s) = std::str::from_utf8(c.input) {
        if let Ok(schema) = cascette_formats::bpsv::parse_schema(s) {
            let _ = schema.field_count();
            let _ = schema.field_names();
            let _ = schema.to_header();
            let _ = schema.has_field("Region");
            let _ = schema.get_field_index("BuildConfig");
        }
        op();
    }
    // file-based reader: arbitrary bytes (not necessarily UTF-8)
    let p = c.dir.join("doc.bpsv");
    let _ = std::fs::write(&p, c.input);
    match BpsvReader::from_path(&p) {
        Ok(mut r) => {
            let _ = r.read_schema();
            op();
        }
        Err(e) => return R::Err(format!("harness: cannot open scratch file: {e}")),
    }
    let mut r = match BpsvReader::from_path(&p) {
        Ok(r) => r,
        Err(e) => return R::Err(format!("harness: cannot open scratch file: {e}")),
    };
    op();
    match r.read_document() {
        Ok(doc) => {
            let schema = doc.schema();
            for row in doc.rows().iter().take(8) {
                let _ = row.to_map(schema);
                let _ = row.to_line();
                for name in schema.field_names().into_iter().take(8) {
                    let _ = row.get_by_name(name, schema);
                    let _ = row.get_raw_by_name(name, schema);
                }
                let _ = row.get(usize::MAX);
                op();
            }
            let _ = doc.get_row(usize::MAX);
            let _ = doc.sequence_number();
            R::Ok
        }
        Err(e) => err(e),
    }
}

// ---------------------------------------------------------------- local storage

/// CASC bucket of a key (XOR of the first nine bytes, nibbles folded): the harness has to load
/// the file under the bucket its probe key hashes to, otherwise `lookup` never reaches it.
fn bucket_of(key: &[u8; 16]) -> u8 {
    let h = key[..9].iter().fold(0u8, |a, b| a ^ b);
    (h & 0x0f) ^ (h >> 4)
}

fn idx_queries(c: &Call) -> R {
    let p = c.dir.join("00000000q1.idx");
    let _ = std::fs::write(&p, c.input);
    // probe keys: entries of the sorted section (18-byte records after the 40 header bytes) and
    // of the update section (24-byte records, key at +4, at the 64 KiB boundary)
    let mut probes: Vec<[u8; 16]> = Vec::new();
    let n_sorted = c.input.len().saturating_sub(40) / 18;
    for i in spread(n_sorted.min(4096), 6) {
        let off = 40 + i * 18;
        if off + 9 <= c.input.len() {
            probes.push(key16(&c.input[off..off + 9]));
        }
    }
    for i in 0..6usize {
        let off = 0x10000 + i * 24 + 4;
        if off + 9 <= c.input.len() {
            probes.push(key16(&c.input[off..off + 9]));
        }
    }
    probes.push([0x42; 16]);
    let first = probes[0];
    let id = bucket_of(&first);
    let mut m = IndexManager::new(c.dir);
    phase_parse(c.input.len());
    if let Err(e) = m.load_index(id, &p) {
        return err(e);
    }
    let _ = m.entry_count();
    let _ = m.stats();
    let _ = m.bucket_count();
    let _ = m.bucket_entry_count(id);
    let _ = m.loaded_buckets();
    let _ = m.iter_entries().count();
    op();
    for k in &probes {
        // only keys of the loaded bucket reach the parsed sections
        let ek = EncodingKey::from_bytes(*k);
        let _ = IndexManager::bucket_for_key(&ek);
        let _ = m.lookup(&ek);
        let _ = m.lookup_by_content_key(&ContentKey::from_bytes(*k));
        let _ = m.has_entry(&ek);
        op();
    }
    // normal container operations on the loaded (hostile) bucket: they merge the parsed update
    // section into the parsed sorted section and re-serialize with the parsed header
    let ek = EncodingKey::from_bytes(first);
    let _ = m.update_entry_status(&ek, UpdateStatus::DataNonResident);
    let _ = m.update_entry(&ek, 3, 4096, 77);
    let _ = m.remove_entry(&ek);
    let _ = m.add_entry(&ek, 1, 8192, 99);
    op();
    let _ = m.flush_updates_for_bucket(id);
    let _ = m.lookup(&ek);
    let _ = m.entry_count();
    op();
    if c.flags & 2 != 0 {
        let _ = m.clear_bucket(id);
        m.clear();
    }
    // remove what the flush wrote (generate_index_filename(bucket, 1))
    let _ = std::fs::remove_file(c.dir.join(format!("{id:02x}00000001.idx")));
    R::Ok
}

/// A clean sub-directory of the worker's scratch directory.
fn clean_subdir(c: &Call, name: &str) -> std::path::PathBuf {
    let d = c.dir.join(name);
    let _ = std::fs::create_dir_all(&d);
    if let Ok(rd) = std::fs::read_dir(&d) {
        for e in rd.flatten() {
            let _ = std::fs::remove_file(e.path());
        }
    }
    d
}

/// The input as a single file name, or None when the OS would not take it.
fn as_file_name(input: &[u8]) -> Option<&std::ffi::OsStr> {
    use std::os::unix::ffi::OsStrExt;
    if input.is_empty() || input.len() > 200 || input.contains(&b'/') || input.contains(&0) || input == b"." || input == b".." {
        return None;
    }
    Some(std::ffi::OsStr::from_bytes(input))
}

/// `IndexManager::load_all` over a directory whose single file is NAMED by the input (the
/// content, `aux`, is a valid index file): the directory listing is input from the disk.
fn idx_load_all(c: &Call) -> R {
    let Some(name) = as_file_name(c.input) else {
        return R::Err("harness: not usable as a file name".into());
    };
    let d = clean_subdir(c, "idxdir");
    if std::fs::write(d.join(name), c.aux).is_err() {
        return R::Err("harness: file system refused the name".into());
    }
    let mut m = IndexManager::new(&d);
    phase_parse(c.input.len() + c.aux.len());
    let r = c.rt.block_on(m.load_all());
    op();
    let loaded = m.loaded_buckets();
    let _ = m.entry_count();
    let _ = std::fs::remove_file(d.join(name));
    match r {
        Ok(()) if loaded.is_empty() => R::Err("name not recognised as an index file (nothing loaded)".into()),
        Ok(()) => R::Ok,
        Err(e) => err(e),
    }
}

/// `.lru` generation file names: the name parser directly and through the directory scans.
fn lru_filenames(c: &Call) -> R {
    let Some(name) = as_file_name(c.input) else {
        return R::Err("harness: not usable as a file name".into());
    };
    phase_parse(c.input.len() + c.aux.len());
    let direct = std::str::from_utf8(c.input).ok().and_then(lru_file::filename_to_generation);
    op();
    let d = clean_subdir(c, "lrudir");
    if std::fs::write(d.join(name), c.aux).is_err() {
        return R::Err("harness: file system refused the name".into());
    }
    let found = LruManager::find_latest_lru_file(&d);
    op();
    let mut m = LruManager::new(4, d.clone());
    if let Some((generation, _)) = &found {
        let _ = c.rt.block_on(m.load_from_disk(*generation));
        let mut n = 0u64;
        m.for_each_entry(|_| n += 1);
        op();
    }
    let _ = m.scan_directory();
    op();
    let _ = std::fs::remove_file(d.join(name));
    match (direct, found) {
        (None, None) => R::Err("name not recognised as a generation file".into()),
        _ => R::Ok,
    }
}

fn update_section_queries(c: &Call) -> R {
    phase_parse(c.input.len());
    // page decoder directly (any length)
    for off in spread(c.input.len() / 512 + 1, 4) {
        let _ = UpdatePage::from_bytes(&c.input[(off * 512).min(c.input.len())..]).map(|p| (p.len(), p.is_full(), p.is_empty(), p.to_bytes()));
        op();
    }
    let mut s = UpdateSection::from_bytes(c.input);
    let _ = s.entry_count();
    let _ = s.page_count();
    let _ = s.capacity_pages();
    let _ = s.is_full();
    let _ = s.should_sync();
    op();
    let entries: Vec<UpdateEntry> = s.all_entries().cloned().collect();
    for i in spread(entries.len(), 12) {
        let e = &entries[i];
        let _ = e.validate_hash_guard();
        let _ = e.to_index_entry();
        let b = e.to_bytes();
        let _ = UpdateEntry::from_bytes(&b).validate_hash_guard();
        let _ = s.search(&e.ekey);
        op();
    }
    let _ = s.search(&[0xff; 9]);
    // append to the parsed section until it reports full (bounded), then serialize
    if let Some(e) = entries.first().cloned() {
        for _ in 0..64 {
            if !s.append(e.clone()) {
                break;
            }
        }
        op();
    }
    let bytes = s.to_bytes();
    let again = UpdateSection::from_bytes(&bytes);
    let _ = again.entry_count();
    s.clear();
    op();
    R::Ok
}

fn residency_queries(c: &Call) -> R {
    phase_parse(c.input.len());
    // entry / page decoders directly
    for i in spread(c.input.len() / 40, 8) {
        let mut a = [0u8; 40];
        a.copy_from_slice(&c.input[i * 40..i * 40 + 40]);
        let e = ResidencyEntry::from_bytes(&a);
        let _ = e.validate_hash_guard();
        let _ = e.is_valid();
        let _ = ResidencyEntry::bucket_hash(&e.ekey);
        let _ = e.to_bytes();
        op();
    }
    for off in [0usize, 5, 1029] {
        if off <= c.input.len() {
            let _ = ResidencyPage::from_bytes(&c.input[off..]).map(|p| (p.len(), p.is_empty(), p.is_full(), p.to_bytes()));
            op();
        }
    }
    let p = c.dir.join("residency-q.db");
    let _ = std::fs::write(&p, c.input);
    let mut db = match ResidencyDb::load(&p) {
        Ok(db) => db,
        Err(e) => return err(e),
    };
    let keys = db.scan_keys();
    let _ = db.entry_count();
    op();
    // keys of the first page(s) of the file: also the non-live ones scan_keys leaves out
    let mut probes: Vec<[u8; 16]> = Vec::new();
    for i in 0..4usize {
        let off = 5 + i * 40 + 4;
        if off + 16 <= c.input.len() {
            probes.push(key16(&c.input[off..off + 16]));
        }
    }
    for i in spread(keys.len(), 8) {
        probes.push(keys[i]);
    }
    probes.push([0x42; 16]);
    for k in &probes {
        let _ = db.is_resident(k);
        op();
    }
    if let Some(k) = probes.first().copied() {
        db.mark_non_resident(&k);
        let _ = db.is_resident(&k);
        db.mark_span_non_resident(&k, i32::MAX, i32::MIN);
        db.mark_resident(&k);
        op();
    }
    db.delete_keys(&probes);
    if c.flags & 2 != 0 {
        // batch path (more than BATCH_DELETE_THRESHOLD keys)
        let mut many: Vec<[u8; 16]> = probes.clone();
        let mut k = [0u8; 16];
        for i in 0..10_001u32 {
            k[..4].copy_from_slice(&i.to_le_bytes());
            many.push(k);
        }
        db.delete_keys(&many);
        op();
    }
    let _ = db.entry_count();
    // write the (hostile, then modified) state back and load it again
    let saved = db.save();
    op();
    if saved.is_ok() {
        match ResidencyDb::load(&p) {
            Ok(again) => {
                let _ = again.entry_count();
                let _ = again.scan_keys();
                op();
            }
            Err(e) => return R::Err(format!("reload after save: {e}")),
        }
    }
    R::Ok
}

fn shmem_queries(c: &Call) -> R {
    phase_parse(c.input.len());
    let Some(mut cb) = ShmemControlBlock::from_mapped(c.input) else {
        return R::Err("from_mapped: None (too short / bad version)".into());
    };
    let _ = cb.version();
    let _ = cb.is_initialized();
    let _ = cb.data_size();
    let _ = cb.is_exclusive();
    let _ = cb.validate();
    let _ = cb.validate_for_bind();
    let _ = cb.alignment();
    let _ = cb.file_size();
    op();
    let had = cb.pid_tracking().map(|pt| pt.is_valid());
    let _ = had;
    if let Some(pt) = cb.pid_tracking_mut() {
        // the operations a process performs on a control block it has just mapped
        let a = pt.add_process(4242, 1);
        let b = pt.add_process(4243, 2);
        op();
        let _ = pt.remove_process(4242);
        let _ = pt.remove_process(0);
        let _ = pt.remove_process(u32::MAX);
        op();
        pt.recount();
        let _ = (a, b, pt.is_valid());
        let _ = pt.add_process(1, 0);
        op();
    }
    cb.set_exclusive(true);
    cb.set_data_size(u32::MAX);
    // write the block back into a region of the size it came from (at least its own size)
    let mut region = vec![0u8; c.input.len().max(cb.file_size())];
    cb.to_mapped(&mut region);
    let _ = ShmemControlBlock::from_mapped(&region).map(|x| x.validate());
    op();
    R::Ok
}

fn build_info_from_path(c: &Call) -> R {
    let p = c.dir.join(".build.info");
    let _ = std::fs::write(&p, c.input);
    phase_parse(c.input.len());
    let f = match c.rt.block_on(BuildInfoFile::from_path(&p)) {
        Ok(f) => f,
        Err(e) => return err(e),
    };
    op();
    let _ = f.entry_count();
    let _ = f.document().row_count();
    for col in ["Branch", "Active", "Build Key", "no such column", ""] {
        let _ = f.has_column(col);
    }
    let mut all = f.entries();
    if let Some(a) = f.active_entry() {
        all.push(a);
    }
    for e in all.iter().take(8) {
        let _ = e.branch();
        let _ = e.is_active();
        let _ = e.build_key();
        let _ = e.cdn_key();
        let _ = e.install_key();
        let _ = e.install_size();
        let _ = e.cdn_path();
        let _ = e.cdn_hosts();
        let _ = e.cdn_servers();
        let _ = e.tags();
        let _ = e.armadillo();
        let _ = e.last_activated();
        let _ = e.version();
        let _ = e.product();
        let _ = e.get_raw("KeyRing");
        let _ = e.get_raw("");
        op();
    }
    R::Ok
}

macro_rules! q {
    ($name:expr, $run:expr, $family:expr, $text:expr) => {
        Target { name: $name, run: $run, family: $family, text: $text, post_ops: true }
    };
}

pub fn targets() -> Vec<Target> {
    vec![
        q!("encoding.queries", encoding_queries, "encoding", false),
        q!("archive_index.queries", archive_index_queries, "archive_index", false),
        q!("archive_group.queries", archive_group_queries, "archive_group", false),
        q!("chunked_archive_index.queries", chunked_index_queries, "archive_index", false),
        q!("install.queries", install_queries, "install", false),
        q!("download.queries", download_queries, "download", false),
        q!("size.queries", size_queries, "size", false),
        q!("root.queries", root_queries, "root", false),
        q!("tvfs.queries", tvfs_queries, "tvfs", false),
        q!("blte.queries", blte_queries, "blte", false),
        q!("zbsdiff.header_then_small_buffer_patcher", zbs_header_and_small_buffer, "zbsdiff", false),
        q!("bpsv.reader_from_path", bpsv_reader, "bpsv", true),
        q!("idx.queries", idx_queries, "idx", false),
        q!("idx.load_all_filenames", idx_load_all, "idx_filename", true),
        q!("lru.filenames", lru_filenames, "lru_filename", true),
        q!("update_section.queries", update_section_queries, "update_section", false),
        q!("residency_db.queries", residency_queries, "residency", false),
        q!("shmem.control_block.queries", shmem_queries, "shmem", false),
        q!("build_info.from_path", build_info_from_path, "build_info", true),
    ]
}
