//! Counting global allocator with denial (worker side of the C02 monitor).
//!
//! While *armed* it records, per call: the largest single request, the
//! cumulative bytes requested and the peak of live (requested minus freed)
//! bytes. A request above the single-request limit, or one that would push
//! live bytes above the total limit, is **denied**: one line
//! `ALLOC <size> <kind> <site>` is written with `libc::write` to the protocol
//! fd and the process `_exit(97)`s before the memory is handed out/touched.
//! `site` = first `cascette_` frame of a backtrace captured under a
//! thread-local re-entrancy guard.

use std::alloc::{GlobalAlloc, Layout, System};
use std::cell::Cell;
use std::sync::atomic::{AtomicBool, AtomicI32, AtomicIsize, AtomicUsize, Ordering::Relaxed};

pub struct Counting;

static ARMED: AtomicBool = AtomicBool::new(false);
static SINGLE_LIMIT: AtomicUsize = AtomicUsize::new(usize::MAX);
static TOTAL_LIMIT: AtomicUsize = AtomicUsize::new(usize::MAX);
static MAX_REQ: AtomicUsize = AtomicUsize::new(0);
static CUM: AtomicUsize = AtomicUsize::new(0);
static LIVE: AtomicIsize = AtomicIsize::new(0);
static PEAK: AtomicIsize = AtomicIsize::new(0);
pub static PROTO_FD: AtomicI32 = AtomicI32::new(1);

thread_local! {
    static GUARD: Cell<bool> = const { Cell::new(false) };
}

pub fn arm(single_limit: usize, total_limit: usize) {
    SINGLE_LIMIT.store(single_limit, Relaxed);
    TOTAL_LIMIT.store(total_limit, Relaxed);
    ARMED.store(true, Relaxed);
}

pub fn disarm() {
    ARMED.store(false, Relaxed);
}

pub fn reset_counters() {
    MAX_REQ.store(0, Relaxed);
    CUM.store(0, Relaxed);
    LIVE.store(0, Relaxed);
    PEAK.store(0, Relaxed);
}

/// (largest single request, cumulative bytes, peak live bytes)
pub fn counters() -> (usize, usize, usize) {
    (MAX_REQ.load(Relaxed), CUM.load(Relaxed), PEAK.load(Relaxed).max(0) as usize)
}

pub fn raw_write(fd: i32, mut buf: &[u8]) {
    while !buf.is_empty() {
        // SAFETY: plain write(2) on a valid buffer.
        let n = unsafe { libc::write(fd, buf.as_ptr().cast(), buf.len()) };
        if n <= 0 {
            let e = std::io::Error::last_os_error();
            if n < 0 && e.kind() == std::io::ErrorKind::Interrupted {
                continue;
            }
            return;
        }
        buf = &buf[n as usize..];
    }
}

/// First frame of the current backtrace that lies in a repository crate, as
/// `<crate-relative file>:<function short name>`. With `prefer_file`, the first
/// frame located in that file is taken instead (panic location file).
pub fn first_repo_frame(prefer_file: Option<&str>) -> String {
    let bt = std::backtrace::Backtrace::force_capture();
    let text = format!("{bt}");
    if std::env::var_os("C02_BT_DUMP").is_some() {
        raw_write(2, text.as_bytes());
    }
    site_from_backtrace(&text, prefer_file)
}

/// `/x/crates/cascette-formats/src/a/b.rs` -> `cascette-formats/src/a/b.rs`
pub fn repo_relative(path: &str) -> Option<&str> {
    let p = path.find("/crates/cascette-")?;
    Some(&path[p + 8..])
}

fn short_fn(name: &str) -> String {
    let n = name.trim();
    // `<T as Trait>::method` -> method ; `a::b::c<T>` -> c ; `parse<R>` -> parse
    let base = if n.starts_with('<') {
        n.rsplit("::").next().unwrap_or(n)
    } else {
        let cut = n.find('<').unwrap_or(n.len());
        let head = &n[..cut];
        head.rsplit("::").next().unwrap_or(head)
    };
    let mut b = base.to_string();
    if let Some(pos) = b.find('<') {
        b.truncate(pos);
    }
    b
}

fn is_closure(name: &str) -> bool {
    name.contains("{closure") || name.contains("{{closure")
}

pub fn site_from_backtrace(text: &str, prefer_file: Option<&str>) -> String {
    // collect (name, file) pairs
    let mut frames: Vec<(String, String)> = Vec::new();
    for line in text.lines() {
        let l = line.trim_start();
        if let Some(loc) = l.strip_prefix("at ") {
            if let Some(last) = frames.last_mut() {
                // strip :line:col
                let mut it = loc.rsplitn(3, ':');
                let _col = it.next();
                let _line = it.next();
                last.1 = it.next().unwrap_or(loc).to_string();
            }
            continue;
        }
        if let Some((idx, name)) = l.split_once(": ") {
            if idx.chars().all(|c| c.is_ascii_digit()) {
                frames.push((name.to_string(), String::new()));
            }
        }
    }
    let pick = |want: Option<&str>| -> Option<String> {
        for (i, (name, file)) in frames.iter().enumerate() {
            let Some(rel) = repo_relative(file) else { continue };
            if let Some(w) = want {
                if repo_relative(w) != Some(rel) {
                    continue;
                }
            }
            // closures: use the enclosing function (next non-closure frame of the same file)
            let mut fname = short_fn(name);
            if is_closure(name) {
                for (n2, f2) in frames.iter().skip(i + 1) {
                    if repo_relative(f2) == Some(rel) && !is_closure(n2) {
                        fname = short_fn(n2);
                        break;
                    }
                }
            }
            return Some(format!("{rel}:{fname}"));
        }
        None
    };
    if let Some(w) = prefer_file {
        if let Some(s) = pick(Some(w)) {
            return s;
        }
    }
    pick(None).unwrap_or_else(|| "unknown-site".to_string())
}

#[cold]
#[inline(never)]
fn deny(size: usize, kind: &str) -> ! {
    GUARD.with(|g| g.set(true));
    ARMED.store(false, Relaxed);
    let site = first_repo_frame(None);
    let line = format!("ALLOC {size} {kind} {site}\n");
    raw_write(PROTO_FD.load(Relaxed), line.as_bytes());
    // SAFETY: terminate without running destructors or atexit handlers.
    unsafe { libc::_exit(97) }
}

#[inline]
fn note(size: usize) {
    if !ARMED.load(Relaxed) {
        return;
    }
    if GUARD.with(Cell::get) {
        return;
    }
    MAX_REQ.fetch_max(size, Relaxed);
    CUM.fetch_add(size, Relaxed);
    if size > SINGLE_LIMIT.load(Relaxed) {
        deny(size, "single");
    }
    let live = LIVE.fetch_add(size as isize, Relaxed) + size as isize;
    PEAK.fetch_max(live, Relaxed);
    if live > 0 && live as usize > TOTAL_LIMIT.load(Relaxed) {
        deny(size, "total");
    }
}

#[inline]
fn note_free(size: usize) {
    if ARMED.load(Relaxed) {
        LIVE.fetch_sub(size as isize, Relaxed);
    }
}

// SAFETY: forwards every call to `System`; the bookkeeping does not allocate
// (the denial path allocates only under the re-entrancy guard and never returns).
unsafe impl GlobalAlloc for Counting {
    unsafe fn alloc(&self, layout: Layout) -> *mut u8 {
        note(layout.size());
        unsafe { System.alloc(layout) }
    }
    unsafe fn alloc_zeroed(&self, layout: Layout) -> *mut u8 {
        note(layout.size());
        unsafe { System.alloc_zeroed(layout) }
    }
    unsafe fn dealloc(&self, ptr: *mut u8, layout: Layout) {
        note_free(layout.size());
        unsafe { System.dealloc(ptr, layout) }
    }
    unsafe fn realloc(&self, ptr: *mut u8, layout: Layout, new_size: usize) -> *mut u8 {
        if new_size > layout.size() {
            // the request is for the new size; live bytes grow by the difference
            if ARMED.load(Relaxed) && !GUARD.with(Cell::get) {
                MAX_REQ.fetch_max(new_size, Relaxed);
                CUM.fetch_add(new_size, Relaxed);
                if new_size > SINGLE_LIMIT.load(Relaxed) {
                    deny(new_size, "single");
                }
                let d = (new_size - layout.size()) as isize;
                let live = LIVE.fetch_add(d, Relaxed) + d;
                PEAK.fetch_max(live, Relaxed);
                if live > 0 && live as usize > TOTAL_LIMIT.load(Relaxed) {
                    deny(new_size, "total");
                }
            }
        } else {
            note_free(layout.size() - new_size);
        }
        unsafe { System.realloc(ptr, layout, new_size) }
    }
}
