//! Seed inputs: every fixture under test_fixtures/ (read at run time) plus small
//! hand-made / builder-made valid files for the formats without fixtures.

use crate::entrypoints::{HARNESS_KEY, HARNESS_KEY_NAME};
use std::collections::BTreeMap;
use std::io::Write;
use std::path::Path;

pub const FIXTURES: &str = "/repo/crates/cascette-formats/test_fixtures";

#[derive(Clone)]
pub struct Seed {
    pub name: String,
    pub data: Vec<u8>,
    /// second blob (zbsdiff: old file)
    pub aux: Vec<u8>,
}

fn seed(name: &str, data: Vec<u8>) -> Seed {
    Seed { name: name.to_string(), data, aux: Vec::new() }
}

fn read_dir_ext(sub: &str, exts: &[&str]) -> Vec<Seed> {
    let mut out = Vec::new();
    let dir = Path::new(FIXTURES).join(sub);
    let Ok(rd) = std::fs::read_dir(&dir) else { return out };
    let mut paths: Vec<_> = rd.flatten().map(|e| e.path()).collect();
    paths.sort();
    for p in paths {
        let name = p.file_name().and_then(|n| n.to_str()).unwrap_or("").to_string();
        if exts.iter().any(|e| name.ends_with(e)) {
            if let Ok(data) = std::fs::read(&p) {
                out.push(seed(&format!("fixture:{sub}/{name}"), data));
            }
        }
    }
    out
}

fn zlib(data: &[u8]) -> Vec<u8> {
    let mut e = flate2::write::ZlibEncoder::new(Vec::new(), flate2::Compression::default());
    let _ = e.write_all(data);
    e.finish().unwrap_or_default()
}

/// LZ4 block consisting of one literal-only sequence.
fn lz4_literals(data: &[u8]) -> Vec<u8> {
    let mut out = Vec::new();
    let n = data.len();
    if n < 15 {
        out.push((n as u8) << 4);
    } else {
        out.push(0xF0);
        let mut rest = n - 15;
        while rest >= 255 {
            out.push(255);
            rest -= 255;
        }
        out.push(rest as u8);
    }
    out.extend_from_slice(data);
    out
}

/// Hand-made BLTE container (independent of the repository's builder).
fn blte_container(chunks: &[(Vec<u8>, u32)], flags: u8) -> Vec<u8> {
    // chunks: (encoded chunk incl. mode byte, decompressed size)
    let info = if flags == 0x10 { 40 } else { 24 };
    let header_size = 8 + 4 + info * chunks.len();
    let mut v = b"BLTE".to_vec();
    v.extend_from_slice(&(header_size as u32).to_be_bytes());
    v.push(flags);
    let n = chunks.len() as u32;
    v.extend_from_slice(&n.to_be_bytes()[1..]);
    for (c, d) in chunks {
        v.extend_from_slice(&(c.len() as u32).to_be_bytes());
        v.extend_from_slice(&d.to_be_bytes());
        v.extend_from_slice(&md5::compute(c).0);
        if flags == 0x10 {
            v.extend_from_slice(&[0u8; 16]);
        }
    }
    for (c, _) in chunks {
        v.extend_from_slice(c);
    }
    v
}

fn chunk_n(p: &[u8]) -> (Vec<u8>, u32) {
    let mut c = vec![b'N'];
    c.extend_from_slice(p);
    (c, p.len() as u32)
}
fn chunk_z(p: &[u8]) -> (Vec<u8>, u32) {
    let mut c = vec![b'Z'];
    c.extend(zlib(p));
    (c, p.len() as u32)
}
fn chunk_4(p: &[u8]) -> (Vec<u8>, u32) {
    let mut c = vec![b'4'];
    c.extend_from_slice(&(p.len() as u64).to_le_bytes());
    c.extend(lz4_literals(p));
    (c, p.len() as u32)
}
fn chunk_e(p: &[u8], index: u32, arc4: bool) -> (Vec<u8>, u32) {
    // inner = 'N' + payload, encrypted with the harness key
    let mut inner = vec![b'N'];
    inner.extend_from_slice(p);
    let iv = [0xa1u8, 0xb2, 0xc3, 0xd4];
    let enc = if arc4 {
        vh::refimpl::rc4::crypt(&HARNESS_KEY, &inner).unwrap_or_default()
    } else {
        vh::refimpl::salsa20::casc_crypt(&HARNESS_KEY, &iv, index, &inner).unwrap_or_default()
    };
    let mut c = vec![b'E', 8];
    c.extend_from_slice(&HARNESS_KEY_NAME.to_le_bytes());
    c.push(4);
    c.extend_from_slice(&iv);
    c.push(if arc4 { 0x41 } else { 0x53 });
    c.extend(enc);
    (c, p.len() as u32 + 1)
}

fn text_payload(n: usize) -> Vec<u8> {
    let mut v = Vec::with_capacity(n);
    let mut i = 0u32;
    while v.len() < n {
        v.extend_from_slice(format!("line {i} of the payload; ").as_bytes());
        i += 1;
    }
    v.truncate(n);
    v
}

fn blte_seeds() -> Vec<Seed> {
    let p = text_payload(700);
    let mut out = vec![
        seed("made:blte/single-N", {
            let mut v = b"BLTE\0\0\0\0N".to_vec();
            v.extend_from_slice(&p[..100]);
            v
        }),
        seed("made:blte/single-Z", {
            let mut v = b"BLTE\0\0\0\0Z".to_vec();
            v.extend(zlib(&p));
            v
        }),
        seed("made:blte/single-4", {
            let mut v = b"BLTE\0\0\0\0".to_vec();
            v.extend(chunk_4(&p[..200]).0);
            v
        }),
        seed("made:blte/multi-4", blte_container(&[chunk_4(&p[..40])], 0x0F)),
        seed("made:blte/multi-NZ4", blte_container(&[chunk_n(&p[..50]), chunk_z(&p), chunk_4(&p[..300])], 0x0F)),
        seed("made:blte/multi-ext", blte_container(&[chunk_z(&p[..200]), chunk_n(&p[..10])], 0x10)),
        seed("made:blte/multi-enc", blte_container(&[chunk_e(&p[..120], 0, false), chunk_n(&p[..40]), chunk_e(&p[..64], 2, true)], 0x0F)),
    ];
    // encrypted chunks whose key IS in the store, with 4- and 8-byte IVs, complete and cut at every length around the end
    // of the chunk header (the decoder reads key name, IV size, IV and cipher byte one after the other)
    for iv_len in [4usize, 8] {
        let mut full = vec![b'E', 8];
        full.extend_from_slice(&HARNESS_KEY_NAME.to_le_bytes());
        full.push(iv_len as u8);
        full.extend_from_slice(&[0xa1, 0xb2, 0xc3, 0xd4, 0xe5, 0xf6, 0x07, 0x18][..iv_len]);
        full.push(0x53);
        full.extend_from_slice(&p[..24]);
        out.push(seed(&format!("made:blte/enc-iv{iv_len}-full"), blte_container(&[(full.clone(), 24)], 0x0F)));
        for cut in 11..=(12 + iv_len + 3) {
            // `cut` counts the bytes after the mode byte 'E'
            let chunk = full[..=cut].to_vec();
            out.push(seed(&format!("made:blte/enc-iv{iv_len}-cut{cut}"), blte_container(&[(chunk.clone(), 1)], 0x0F)));
            if cut % 2 == 1 {
                let mut v = b"BLTE\0\0\0\0".to_vec();
                v.extend_from_slice(&chunk);
                out.push(seed(&format!("made:blte/single-enc-iv{iv_len}-cut{cut}"), v));
            }
        }
    }
    // real CDN containers (TVFS manifests)
    let mut fx = read_dir_ext("tvfs", &[".blte"]);
    fx.sort_by_key(|s| s.data.len());
    out.extend(fx.into_iter().take(2));
    out
}

fn espec_seeds() -> Vec<Seed> {
    let mut out = Vec::new();
    // hand-made ones first: the list is cut to 66 entries below, and the window-bits, BCPack,
    // GDeflate, multi-block and "count too large" branches are only reachable from these
    for s in ["n", "z", "z:9", "z:{9,15}", "z:{6,mpq}", "z:{6,zlib,15}", "z:{9,lz4hc,8}", "b:{1768=z,66443=n}", "b:{256K*=z}", "b:{16K*4=z,*=n}", "b:{1M*2=z:{9,15},256K*=n}", "e:{237DA26C65073F42,06FC152E,z}", "b:{16K*=z:{6,mpq}}", "c:{1}", "c:{7}", "g:{5}", "g:{12}", "b:{4294967295K*=z}", "b:{1K*4294967295=n,*=z}",
        // rejected on purpose (error branches next to the accepted boundary values above)
        "b:{*=z,*=n}", "b:{1K=n,*4294967296=z}", "b:{18014398509481984K*=z}", "b:{17592186044416M=z,*=n}"] {
        out.push(seed(&format!("made:espec/{s}"), s.as_bytes().to_vec()));
    }
    // every wrapper that carries an inner spec, nested to depths around the parser's limit (32) and far beyond it: well
    // balanced, syntactically valid specs, so that the recursion itself is what gets exercised
    for (kind, open, close) in [("b", "b:{*=", "}"), ("e", "e:{0123456789abcdef,00000000,", "}"), ("be", "b:{1K*=e:{0123456789ABCDEF,0000000000000000,", "}}")] {
        for depth in [31usize, 32, 33, 40, 3000, 60_000] {
            let s = format!("{}n{}", open.repeat(depth), close.repeat(depth));
            out.push(seed(&format!("made:espec/nest-{kind}-x{depth}"), s.into_bytes()));
        }
    }
    for f in ["representative_especs.json", "wow_classic_era_especs.json"] {
        let Ok(text) = std::fs::read_to_string(Path::new(FIXTURES).join("espec").join(f)) else { continue };
        let Ok(v) = serde_json::from_str::<serde_json::Value>(&text) else { continue };
        let mut strings = Vec::new();
        collect_especs(&v, &mut strings);
        for (i, s) in strings.iter().enumerate() {
            out.push(seed(&format!("fixture:espec/{f}#{i}"), s.clone().into_bytes()));
        }
    }
    // dedup by content, keep it small
    let mut seen = std::collections::BTreeSet::new();
    out.retain(|s| seen.insert(s.data.clone()));
    out.truncate(66);
    out
}

fn collect_especs(v: &serde_json::Value, out: &mut Vec<String>) {
    match v {
        serde_json::Value::Object(m) => {
            for (k, x) in m {
                if k == "especs" {
                    if let Some(a) = x.as_array() {
                        for e in a {
                            if let Some(s) = e.as_str() {
                                out.push(s.to_string());
                            } else if let Some(s) = e.get("espec").and_then(|s| s.as_str()) {
                                out.push(s.to_string());
                            }
                        }
                    }
                } else {
                    collect_especs(x, out);
                }
            }
        }
        serde_json::Value::Array(a) => {
            for x in a {
                collect_especs(x, out);
            }
        }
        _ => {}
    }
}

const CDN_CONFIG: &str = "# CDN Configuration\n\narchives = 0017a402f556fbece46c38dc431a2c9b 003b147730a109e3a480d32a54280955 00b79cc0eebdd26437c7e92e57ac7f5c\narchives-index-size = 173068 1804 53588\narchive-group = 58a3c9e02c964b0ec9dd6c085df99a77\npatch-archives = 0a0e1ce2b7c1e0c8c2d3c6d6b0a45a14 1c6a9e8e4b5f8f0e7d0a3c8d9e0f1a2b\npatch-archives-index-size = 15340 4204\npatch-archive-group = 4b3d2b2e6a8f4c1e9d7a5b3c1f0e2d4c\nfile-index = 9f1e0d2c3b4a59687766554433221100\nfile-index-size = 2372\npatch-file-index = 00112233445566778899aabbccddeeff\npatch-file-index-size = 1180\n";

const PATCH_CONFIG: &str = "# Patch Configuration\n\npatch = 658506593cf1f98a1d9300c418ee5355\npatch-size = 22837\npatch-entry = download b07b881f4527bda7cf8a1a2f99e8622e 48810 c6bb8e6e0a0b2b2c3d3d9d9c1c1a1a0f 46334\npatch-entry = install fb07b881f4527bda7cf8a1a2f99e8622 23038 d6bb8e6e0a0b2b2c3d3d9d9c1c1a1a0f\npatch-entry = encoding e058fa32dfe994c5e143bd0fcd0994dd 14004322 25c87b6ce82551dc8d62c2800aad6e8f 14000648\n";

const PRODUCT_CONFIG: &str = r#"{
  "all": {
    "config": {
      "data_dir": "Data/",
      "display_locales": ["enUS", "deDE", "frFR"],
      "enable_block_copy_patch": true,
      "form": { "game_dir": { "dirname": "World of Warcraft" } },
      "launch_arguments": ["-launch"],
      "launcher_install_info": { "bootstrapper_branch": "launcher", "bootstrapper_product": "bts", "product_tag": "wow" },
      "product": "wow_classic",
      "shared_container_default_subfolder": "_classic_",
      "supported_locales": ["enUS", "deDE", "frFR"],
      "supports_multibox": true,
      "supports_offline": false,
      "title_info": { "title_id": "wow" },
      "update_method": "ngdp"
    }
  },
  "enus": { "config": { "install": [ { "start_menu_shortcut": { "args": "", "link": "%commonstartmenu%World of Warcraft/World of Warcraft.lnk", "target": "%shortcutpath%" } } ] } },
  "platform": { "win": { "config": { "binaries": { "game": { "launch_arguments": [], "relative_path": "WowClassic.exe" } } } } }
}
"#;

const BPSV_VERSIONS: &str = "Region!STRING:0|BuildConfig!HEX:16|CDNConfig!HEX:16|KeyRing!HEX:16|BuildId!DEC:4|VersionsName!String:0|ProductConfig!HEX:16\n## seqn = 3016450\nus|903cc3552ca1075d5bdc264eab8e2480|2ad9cb9a8a2d0b4d6a0f8d9c1b2a3f4e||65989|1.15.8.65989|53020d32e1a25648c8e1eafd5771935f\neu|903cc3552ca1075d5bdc264eab8e2480|2ad9cb9a8a2d0b4d6a0f8d9c1b2a3f4e||65989|1.15.8.65989|53020d32e1a25648c8e1eafd5771935f\n\ncn|903cc3552ca1075d5bdc264eab8e2480|2ad9cb9a8a2d0b4d6a0f8d9c1b2a3f4e||65989|1.15.8.65989|53020d32e1a25648c8e1eafd5771935f\n";

const BPSV_CDNS: &str = "Name!STRING:0|Path!STRING:0|Hosts!STRING:0|Servers!STRING:0|ConfigPath!STRING:0\n## seqn = 2241282\nus|tpr/wow|blzddist1-a.akamaihd.net level3.blizzard.com|http://blzddist1-a.akamaihd.net/?maxhosts=4 https://level3.ssl.blizzard.com/?maxhosts=4|tpr/configs/data\n";

const BUILD_INFO: &str = "Branch!STRING:0|Active!DEC:1|Build Key!HEX:16|CDN Key!HEX:16|Install Key!HEX:16|IM Size!DEC:4|CDN Path!STRING:0|CDN Hosts!STRING:0|CDN Servers!STRING:0|Tags!STRING:0|Armadillo!STRING:0|Last Activated!STRING:0|Version!STRING:0|KeyRing!HEX:16|Product!STRING:0\nus|1|903cc3552ca1075d5bdc264eab8e2480|2ad9cb9a8a2d0b4d6a0f8d9c1b2a3f4e|fb07b881f4527bda7cf8a1a2f99e8622|23038|tpr/wow|blzddist1-a.akamaihd.net level3.blizzard.com|http://blzddist1-a.akamaihd.net/?maxhosts=4 https://level3.ssl.blizzard.com/?maxhosts=4|Windows x86_64 US? enUS speech?:Windows x86_64 US? enUS text?||2025-02-25T10:11:12Z|1.15.8.65989|3ca57fe7319a297346440e4d2a03a0cd|wow_classic_era\neu|0|903cc3552ca1075d5bdc264eab8e2480|2ad9cb9a8a2d0b4d6a0f8d9c1b2a3f4e|fb07b881f4527bda7cf8a1a2f99e8622|23038|tpr/wow|level3.blizzard.com|https://level3.ssl.blizzard.com/?maxhosts=4|Windows x86_64 EU? enGB speech?||||3ca57fe7319a297346440e4d2a03a0cd|wow_classic_era\n";

fn sha256_hex(data: &[u8]) -> String {
    use sha2::Digest;
    let mut h = sha2::Sha256::new();
    h.update(data);
    hex::encode(h.finalize())
}

pub fn mime_with_checksum(body: &[u8]) -> Vec<u8> {
    let mut v = body.to_vec();
    v.extend_from_slice(format!("Checksum: {}\n", sha256_hex(body)).as_bytes());
    v
}

fn mime_seeds() -> Vec<Seed> {
    let bpsv = BPSV_VERSIONS.replace('\n', "\r\n");
    let simple = format!("MIME-Version: 1.0\r\nContent-Type: text/plain\r\nFrom: Test\r\n\r\n{bpsv}");
    let multi = format!(
        "MIME-Version: 1.0\r\nContent-Type: multipart/alternative; boundary=\"b0und4ry-1\"\r\n\r\n--b0und4ry-1\r\nContent-Type: text/plain\r\nContent-Disposition: version\r\n\r\n{bpsv}\r\n--b0und4ry-1\r\nContent-Type: application/octet-stream\r\nContent-Disposition: signature\r\nContent-Transfer-Encoding: base64\r\n\r\nMIIBygYJKoZIhvcNAQcCoIIBuzCCAbcCAQExDzANBglghkgBZQMEAgEFADALBgkqhkiG9w0BBwGg\r\nADGCAZIwggGOAgEBMGkwXDELMAkGA1UEBhMCVVMxEjAQBgNVBAoTCVRlc3QgSW5jLjEWMBQGA1UE\r\n--b0und4ry-1--\r\n"
    );
    let mixed = format!(
        "Content-Type: multipart/mixed; boundary=XX\r\n\r\npreamble\r\n--XX\r\nContent-Disposition: cdns\r\n\r\n{}\r\n--XX--\r\n",
        BPSV_CDNS.replace('\n', "\r\n")
    );
    vec![
        seed("made:mime/simple", simple.clone().into_bytes()),
        seed("made:mime/multipart-signed", multi.clone().into_bytes()),
        seed("made:mime/multipart-checksum", mime_with_checksum(multi.as_bytes())),
        seed("made:mime/mixed", mixed.into_bytes()),
        seed("made:mime/simple-checksum", mime_with_checksum(simple.as_bytes())),
    ]
}

fn size_seeds() -> Vec<Seed> {
    use cascette_formats::install::TagType;
    use cascette_formats::size::SizeManifestBuilder;
    let mut out = Vec::new();
    for (version, esize_bytes) in [(1u8, 4u8), (2, 4), (1, 8)] {
        let mut b = SizeManifestBuilder::new().version(version).ekey_size(9);
        if version == 1 {
            b = b.esize_bytes(esize_bytes);
        }
        b = b.add_tag("Windows".to_string(), TagType::Platform).add_tag("enUS".to_string(), TagType::Locale);
        for i in 0..12u8 {
            b = b.add_entry(vec![i.wrapping_mul(17) ^ 0x5a; 9], 1000 + u64::from(i) * 77);
        }
        b = b.tag_file(0, 1).tag_file(1, 3).tag_file(0, 11);
        if let Ok(m) = b.build() {
            if let Ok(bytes) = m.build() {
                out.push(seed(&format!("built:size/v{version}-esize{esize_bytes}"), bytes));
            }
        }
    }
    out
}

fn encoding_seeds() -> Vec<Seed> {
    let mut v = read_dir_ext("encoding", &[".bin"]);
    v.sort_by_key(|s| s.data.len());
    v
}

fn archive_group_seeds(index_seeds: &[Seed]) -> Vec<Seed> {
    use cascette_formats::archive::{ArchiveGroupBuilder, ArchiveGroupEntry};
    let mut out = Vec::new();
    let mut b = ArchiveGroupBuilder::new();
    for i in 0..40u32 {
        let mut key = vec![0u8; 16];
        key[..4].copy_from_slice(&(i * 0x0101_0101).to_be_bytes());
        key[15] = i as u8;
        b.add_entry(ArchiveGroupEntry::new(key, (i % 5) as u16, i * 4096, 1000 + i));
    }
    let mut buf = std::io::Cursor::new(Vec::new());
    if b.build(&mut buf).is_ok() {
        out.push(seed("built:archive_group/40", buf.into_inner()));
    }
    // merged from a real index
    if let Some(ix) = index_seeds.iter().min_by_key(|s| s.data.len()) {
        if let Ok(parsed) = cascette_formats::archive::ArchiveIndex::parse(std::io::Cursor::new(&ix.data)) {
            let mut b = ArchiveGroupBuilder::new();
            b.add_archive(3, &parsed);
            let mut buf = std::io::Cursor::new(Vec::new());
            if b.build(&mut buf).is_ok() {
                let data = buf.into_inner();
                if data.len() < 400_000 {
                    out.push(seed("built:archive_group/from-fixture", data));
                }
            }
        }
    }
    out
}

fn small_archive_index() -> Option<Seed> {
    use cascette_formats::archive::ArchiveIndexBuilder;
    let mut b = ArchiveIndexBuilder::new();
    for i in 0..25u32 {
        let mut key = [0u8; 16];
        key[..4].copy_from_slice(&(i * 0x0305_0709 + 11).to_be_bytes());
        key[9] = i as u8;
        b.add_entry_full(key, 500 + i, u64::from(i) * 8192);
    }
    let mut buf = std::io::Cursor::new(Vec::new());
    b.build(&mut buf).ok()?;
    Some(seed("built:archive_index/25", buf.into_inner()))
}

fn idx_seeds() -> Vec<Seed> {
    use cascette_client_storage::index::IndexManager;
    let mut out = Vec::new();
    let Ok(dir) = tempfile::tempdir() else { return out };
    let mut m = IndexManager::new(dir.path());
    for i in 0..60u32 {
        let mut k = [0u8; 16];
        k[..4].copy_from_slice(&(i.wrapping_mul(0x9e37_79b9)).to_be_bytes());
        k[8] = i as u8;
        let _ = m.add_entry(&cascette_crypto::EncodingKey::from_bytes(k), (i % 7) as u16, i * 1000, 400 + i);
    }
    let _ = m.flush_all_updates();
    for i in 60..75u32 {
        let mut k = [0u8; 16];
        k[..4].copy_from_slice(&(i.wrapping_mul(0x9e37_79b9)).to_be_bytes());
        k[8] = i as u8;
        let _ = m.add_entry(&cascette_crypto::EncodingKey::from_bytes(k), 1, i * 1000, 400 + i);
    }
    let _ = m.save_all();
    let mut files: Vec<_> = std::fs::read_dir(dir.path()).map(|rd| rd.flatten().map(|e| e.path()).collect()).unwrap_or_default();
    files.sort();
    let mut cands: Vec<(usize, Vec<u8>, String)> = Vec::new();
    for p in files {
        if p.extension().is_some_and(|e| e == "idx") {
            if let Ok(d) = std::fs::read(&p) {
                // count non-zero bytes as a proxy for "has entries in both sections"
                let nz = d.iter().filter(|b| **b != 0).count();
                cands.push((nz, d, p.file_name().and_then(|n| n.to_str()).unwrap_or("").to_string()));
            }
        }
    }
    cands.sort_by(|a, b| b.0.cmp(&a.0));
    for (_, d, n) in cands.into_iter().take(2) {
        out.push(seed(&format!("built:idx/{n}"), d));
    }
    out
}

fn update_section_seeds() -> Vec<Seed> {
    use cascette_client_storage::index::update::{UpdateEntry, UpdateSection, UpdateStatus};
    use cascette_client_storage::index::ArchiveLocation;
    let mut s = UpdateSection::new();
    for i in 0..50u32 {
        let mut k = [0u8; 9];
        k[..4].copy_from_slice(&(i.wrapping_mul(0x0101_0103) + 5).to_be_bytes());
        let st = if i % 9 == 0 { UpdateStatus::from_byte(3) } else { UpdateStatus::Normal };
        let _ = s.append(UpdateEntry::new(k, ArchiveLocation { archive_id: (i % 3) as u16, archive_offset: i * 512 }, 100 + i, st));
    }
    let full = s.to_bytes();
    // trimmed variant: only the pages in use + one empty page
    let used = (s.page_count() + 1) * 512;
    vec![seed("built:update_section/trimmed", full[..used.min(full.len())].to_vec()), seed("built:update_section/full", full)]
}

fn residency_seeds() -> Vec<Seed> {
    use cascette_client_storage::kmt::key_state::ResidencyDb;
    let mut out = Vec::new();
    let Ok(dir) = tempfile::tempdir() else { return out };
    let p = dir.path().join("res.db");
    let mut db = ResidencyDb::new(p.clone());
    for i in 0..70u32 {
        let mut k = [0u8; 16];
        k[..4].copy_from_slice(&(i.wrapping_mul(0x0bad_cafe) + 1).to_be_bytes());
        k[15] = i as u8;
        if i % 5 == 0 {
            db.mark_span_non_resident(&k, 10, 100);
        } else {
            db.mark_resident(&k);
        }
    }
    if db.save().is_ok() {
        if let Ok(d) = std::fs::read(&p) {
            out.push(seed("built:residency/70", d));
        }
    }
    out
}

/// Archive index / archive group: recompute the footer hash (MD5 of the 12 footer
/// field bytes zero-padded to 20, first 8 bytes) in place, assuming an 8-byte hash.
pub fn archive_fix_footer_hash(data: &mut [u8]) {
    let n = data.len();
    if n < 28 {
        return;
    }
    let mut buf = [0u8; 20];
    buf[..12].copy_from_slice(&data[n - 20..n - 8]);
    let h = md5::compute(buf).0;
    data[n - 8..].copy_from_slice(&h[..8]);
}

/// Encoding file: recompute the page checksums stored in both page indices, when
/// the (possibly mutated) header still describes a layout that fits the data.
pub fn encoding_fix_page_checksums(data: &mut [u8]) -> bool {
    if data.len() < 22 || &data[..2] != b"EN" {
        return false;
    }
    let be16 = |d: &[u8], o: usize| usize::from(u16::from_be_bytes([d[o], d[o + 1]]));
    let be32 = |d: &[u8], o: usize| u32::from_be_bytes([d[o], d[o + 1], d[o + 2], d[o + 3]]) as usize;
    let cps = be16(data, 5) * 1024;
    let eps = be16(data, 7) * 1024;
    let cpc = be32(data, 9);
    let epc = be32(data, 13);
    let espec = be32(data, 18);
    let total = 22usize
        .saturating_add(espec)
        .saturating_add(cpc.saturating_mul(32 + cps))
        .saturating_add(epc.saturating_mul(32 + eps));
    if total > data.len() || cps == 0 || eps == 0 {
        return false;
    }
    let mut fix = |index_at: usize, count: usize, page_size: usize| {
        let pages_at = index_at + count * 32;
        for i in 0..count {
            let page = pages_at + i * page_size;
            let h = md5::compute(&data[page..page + page_size]).0;
            data[index_at + i * 32 + 16..index_at + i * 32 + 32].copy_from_slice(&h);
        }
        pages_at + count * page_size
    };
    let after_c = fix(22 + espec, cpc, cps);
    let _ = fix(after_c, epc, eps);
    true
}

/// ZBSDIFF1 patch assembled from explicit parts (bsdiff sign-magnitude control triples).
pub fn zbsdiff_build(control: &[(i64, i64, i64)], diff: &[u8], extra: &[u8], output_size: i64, size_fields: Option<(i64, i64)>) -> Vec<u8> {
    let mut ctrl = Vec::new();
    for &(a, b, c) in control {
        ctrl.extend_from_slice(&offtout(a));
        ctrl.extend_from_slice(&offtout(b));
        ctrl.extend_from_slice(&offtout(c));
    }
    let c = zlib(&ctrl);
    let d = zlib(diff);
    let e = zlib(extra);
    let (cs, ds) = size_fields.unwrap_or((c.len() as i64, d.len() as i64));
    let mut p = b"ZBSDIFF1".to_vec();
    // header fields are little-endian like the control values (the doc comment in
    // zbsdiff/header.rs says big-endian, the code and the CDN fixtures are little-endian)
    p.extend_from_slice(&offtout(cs));
    p.extend_from_slice(&offtout(ds));
    p.extend_from_slice(&offtout(output_size));
    p.extend(c);
    p.extend(d);
    p.extend(e);
    p
}

pub fn lru_fix_md5(data: &mut [u8]) {
    if data.len() >= 28 {
        data[4..20].fill(0);
        let h = md5::compute(&*data).0;
        data[4..20].copy_from_slice(&h);
    }
}

fn lru_seeds() -> Vec<Seed> {
    use cascette_client_storage::lru::lru_file::{LruFileEntry, LruFileHeader, serialize};
    let mut out = Vec::new();
    for n in [3u32, 12] {
        // list tail=0 -> 1 -> ... -> n-1=head, plus two free slots
        let mut entries = Vec::new();
        for i in 0..n {
            let mut ekey = [0u8; 9];
            ekey[0] = 0x10 + i as u8;
            ekey[8] = 1;
            entries.push(LruFileEntry { prev: if i == 0 { u32::MAX } else { i - 1 }, next: if i + 1 == n { u32::MAX } else { i + 1 }, ekey, flags: 0 });
        }
        entries.push(LruFileEntry::empty());
        entries.push(LruFileEntry::empty());
        let header = LruFileHeader { version: 1, hash: [0; 16], mru_head: n - 1, lru_tail: 0 };
        out.push(seed(&format!("built:lru/{n}"), serialize(&header, &entries)));
    }
    out
}

fn shmem_seeds() -> Vec<Seed> {
    use cascette_client_storage::shmem::control_block::ShmemControlBlock;
    let mut out = Vec::new();
    if let Some(mut cb) = ShmemControlBlock::new(4) {
        cb.initialize(4096);
        let mut buf = vec![0u8; cb.file_size()];
        cb.to_mapped(&mut buf);
        out.push(seed("built:shmem/v4", buf));
    }
    if let Some(mut cb) = ShmemControlBlock::new(5) {
        cb.initialize(8192);
        let mut buf = vec![0u8; cb.file_size()];
        cb.to_mapped(&mut buf);
        out.push(seed("built:shmem/v5", buf));
    }
    let mut cb = ShmemControlBlock::new_v5_with_pid_tracking(8);
    cb.initialize(8192);
    if let Some(pt) = cb.pid_tracking_mut() {
        let _ = pt.add_process(1234, 1);
        let _ = pt.add_process(4321, 2);
    }
    let mut buf = vec![0u8; cb.file_size()];
    cb.to_mapped(&mut buf);
    out.push(seed("built:shmem/v5-pid", buf));
    out
}

fn local_header_seeds() -> Vec<Seed> {
    use cascette_client_storage::storage::LocalHeader;
    let h = LocalHeader::new([7u8; 16], 1234, 0);
    let mut with_body = h.to_bytes().to_vec();
    with_body.extend_from_slice(b"BLTE\0\0\0\0Nhello");
    vec![seed("built:local_header/30", h.to_bytes().to_vec()), seed("built:local_header/with-body", with_body)]
}

fn zbsdiff_seeds() -> Vec<Seed> {
    let mut out = Vec::new();
    let dir = Path::new(FIXTURES).join("zbsdiff");
    let mut patches = read_dir_ext("zbsdiff", &[".zbsdiff"]);
    for p in &mut patches {
        let stem = p.name.rsplit('/').next().unwrap_or("").trim_end_matches(".zbsdiff").to_string();
        if let Ok(old) = std::fs::read(dir.join(format!("{stem}.old"))) {
            p.aux = old;
        } else {
            p.aux = text_payload(3000);
        }
    }
    patches.sort_by_key(|s| s.data.len() + s.aux.len());
    out.extend(patches);
    // hand-made minimal patch: one control entry (diff 5, extra 3, seek 0)
    let old = b"hello world, this is the old file".to_vec();
    let mut ctrl = Vec::new();
    for v in [5i64, 3, 0] {
        ctrl.extend_from_slice(&offtout(v));
    }
    let c = zlib(&ctrl);
    let d = zlib(&[0, 1, 0, 0, 2]);
    let e = zlib(b"XYZ");
    let mut p = b"ZBSDIFF1".to_vec();
    p.extend_from_slice(&offtout(c.len() as i64));
    p.extend_from_slice(&offtout(d.len() as i64));
    p.extend_from_slice(&offtout(8));
    p.extend(c);
    p.extend(d);
    p.extend(e);
    out.insert(0, Seed { name: "made:zbsdiff/minimal".into(), data: p, aux: old });
    out
}

/// bsdiff sign-magnitude little-endian 64-bit
fn offtout(v: i64) -> [u8; 8] {
    let mut b = v.unsigned_abs().to_le_bytes();
    if v < 0 {
        b[7] |= 0x80;
    }
    b
}

/// File names as inputs (directory listings are input from the disk): the content written under
/// the name is the `aux` blob, a valid file of the kind.
fn filename_seeds(names: &[&str], content: &[u8], family: &str) -> Vec<Seed> {
    names.iter().map(|n| Seed { name: format!("made:{family}/{n}"), data: n.as_bytes().to_vec(), aux: content.to_vec() }).collect()
}

/// Patch index: the header's `data_size` (u32 LE at offset 8) must equal the file length.
pub fn patch_index_fix_data_size(data: &mut [u8]) {
    if data.len() >= 12 {
        let n = data.len() as u32;
        data[8..12].copy_from_slice(&n.to_le_bytes());
    }
}

const BUILD_CONFIG_ALL_KEYS: &str = "# Build Configuration\n\nroot = 9d6b9c0a5c9a3f8d6a53e9d0a3e5b1c2\ninstall = fb07b881f4527bda7cf8a1a2f99e8622 d6bb8e6e0a0b2b2c3d3d9d9c1c1a1a0f\ninstall-size = 23038 22281\ninstall-high-ver = ab07b881f4527bda7cf8a1a2f99e8622 c6bb8e6e0a0b2b2c3d3d9d9c1c1a1a0f\ninstall-high-ver-size = 1000 900\ndownload = b07b881f4527bda7cf8a1a2f99e8622e c6bb8e6e0a0b2b2c3d3d9d9c1c1a1a0f\ndownload-size = 48810 46334\nsize = 0a7b881f4527bda7cf8a1a2f99e8622e 1abb8e6e0a0b2b2c3d3d9d9c1c1a1a0f\nsize-size = 3637 3428\nencoding = e058fa32dfe994c5e143bd0fcd0994dd 25c87b6ce82551dc8d62c2800aad6e8f\nencoding-size = 14004322 14000648\npatch = 658506593cf1f98a1d9300c418ee5355\npatch-size = 22837\npatch-config = 474b9630df5b46df5d98ec27c5f78d07\npatch-index = 0123456789abcdef0123456789abcdef fedcba9876543210fedcba9876543210\npatch-index-size = 5000 4000\nbuild-name = WOW-65989patch1.15.8_ClassicRetail\nbuild-uid = wow_classic_era\nbuild-product = WoW\nbuild-playtime-url = https://example.invalid/playtime\nbuild-product-espec = b:{256K*=z}\nbuild-file-db = 11223344556677889900aabbccddeeff ffeeddccbbaa00998877665544332211\nbuild-file-db-size = 700 650\nbuild-partial-priority = 0123456789abcdef0123456789abcdef:0 fedcba9876543210fedcba9876543210:262144 broken 1:2:x\nclient-version = 1.15.8.65989\nfeature-placeholder = true\nfeature-use-hardlinks = 1\nno-frame-encoding = 1\nkey-layout-index-bits = 4\nkey-layout-0 = 16 4 5 0\nkey-layout-1 = 16 4 6 0\nvfs-root = 11111111111111111111111111111111 22222222222222222222222222222222\nvfs-root-size = 50071 33487\nvfs-root-espec = b:{16K*=z}\nvfs-1 = 33333333333333333333333333333333 44444444444444444444444444444444\nvfs-1-size = 100 90\nvfs-1-espec = z\nvfs-2 = 55555555555555555555555555555555 66666666666666666666666666666666\nvfs-2-size = 200 190\n";

pub type Families = BTreeMap<&'static str, Vec<Seed>>;

pub fn build_all() -> Families {
    let mut f: Families = BTreeMap::new();
    f.insert("blte", blte_seeds());
    f.insert("patch_index", sorted(read_dir_ext("patch_index", &[".bin"])));
    f.insert("cdn_config", vec![seed("made:cdn_config", CDN_CONFIG.as_bytes().to_vec())]);
    f.insert("product_config", vec![seed("made:product_config", PRODUCT_CONFIG.as_bytes().to_vec()), seed("made:product_config/min", br#"{"all":{"config":{"product":"wow"}}}"#.to_vec())]);
    let cfg = read_dir_ext("config", &[".txt"]);
    let mut build_cfg: Vec<Seed> = cfg.iter().filter(|s| s.name.contains("build_config")).cloned().collect();
    // the CDN build configs are large (vfs-* lists); add a cut-down variant of the smallest
    build_cfg.sort_by_key(|s| s.data.len());
    if let Some(first) = build_cfg.first() {
        let text = String::from_utf8_lossy(&first.data).to_string();
        let small: String = text.lines().filter(|l| !l.starts_with("vfs-") || l.starts_with("vfs-root") || l.starts_with("vfs-1 ") || l.starts_with("vfs-1-size")).map(|l| format!("{l}\n")).collect();
        build_cfg.insert(0, seed("derived:build_config/small", small.into_bytes()));
    }
    // every key an accessor of BuildConfig reads (the CDN fixtures lack most optional ones)
    build_cfg.insert(1.min(build_cfg.len()), seed("made:build_config/all-keys", BUILD_CONFIG_ALL_KEYS.as_bytes().to_vec()));
    f.insert("build_config", build_cfg);
    let mut keyring: Vec<Seed> = cfg.iter().filter(|s| s.name.contains("keyring")).cloned().collect();
    keyring.sort_by_key(|s| s.data.len());
    f.insert("keyring_config", keyring);
    f.insert("patch_config", vec![seed("made:patch_config", PATCH_CONFIG.as_bytes().to_vec())]);
    f.insert("root", sorted(read_dir_ext("root", &[".root"])));
    f.insert("bpsv", vec![seed("made:bpsv/versions", BPSV_VERSIONS.as_bytes().to_vec()), seed("made:bpsv/cdns", BPSV_CDNS.as_bytes().to_vec()), seed("made:bpsv/build_info", BUILD_INFO.as_bytes().to_vec())]);
    f.insert("install", sorted(read_dir_ext("install", &[".install"])));
    f.insert("espec", espec_seeds());
    f.insert("size", size_seeds());
    f.insert("tvfs", sorted(read_dir_ext("tvfs", &[".bin"])));
    f.insert("tvfs_blte", sorted(read_dir_ext("tvfs", &[".blte"])));
    let enc = encoding_seeds();
    let enc_blte: Vec<Seed> = enc
        .iter()
        .take(1)
        .map(|s| {
            // wrap the smallest encoding fixture in a two-chunk BLTE container
            let mid = s.data.len() / 2;
            seed(&format!("wrapped:{}", s.name), blte_container(&[chunk_z(&s.data[..mid]), chunk_z(&s.data[mid..])], 0x0F))
        })
        .collect();
    f.insert("encoding", enc);
    f.insert("encoding_blte", enc_blte);
    f.insert("patch_archive", sorted(read_dir_ext("patch_archive", &[".bin"])));
    f.insert("zbsdiff", zbsdiff_seeds());
    f.insert("download", sorted(read_dir_ext("download", &[".download"])));
    let mut ai = Vec::new();
    if let Some(s) = small_archive_index() {
        ai.push(s);
    }
    ai.extend(sorted(read_dir_ext("archive", &[".index"])));
    f.insert("archive_group", archive_group_seeds(&ai));
    f.insert("archive_index", ai);
    f.insert("mime", mime_seeds());
    let idx = idx_seeds();
    let idx_content = idx.first().map(|s| s.data.clone()).unwrap_or_default();
    f.insert("idx_filename", filename_seeds(&["0000000001.idx", "0f0000000a.idx", "0a000000ff.IDX", "données-é.idx", "shmem", "0000000001.idx.tmp"], &idx_content, "idx_filename"));
    f.insert("idx", idx);
    f.insert("update_section", update_section_seeds());
    f.insert("residency", residency_seeds());
    let lru = lru_seeds();
    let lru_content = lru.first().map(|s| s.data.clone()).unwrap_or_default();
    f.insert("lru_filename", filename_seeds(&["0000000000000007.lru", "00000000000000ff.lru", "FFFFFFFFFFFFFFFF.lru", "0000000000000007.LRU", "sauvegardé-é.lru"], &lru_content, "lru_filename"));
    f.insert("lru", lru);
    f.insert("shmem", shmem_seeds());
    f.insert("build_info", vec![seed("made:build_info", BUILD_INFO.as_bytes().to_vec())]);
    f.insert("local_header", local_header_seeds());
    f
}

fn sorted(mut v: Vec<Seed>) -> Vec<Seed> {
    v.sort_by_key(|s| s.data.len());
    v
}
