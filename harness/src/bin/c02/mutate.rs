//! Input generation: systematic field sweep + seeded random mutation.

use crate::seeds::Seed;
use vh::Rng;

pub struct Case {
    pub data: Vec<u8>,
    pub aux: Vec<u8>,
    pub flags: u32,
    pub origin: String,
}

/// (width, big_endian, value)
#[derive(Clone, Copy)]
pub struct Variant(pub usize, pub bool, pub u64);

const V1: &[u64] = &[0, 1, 0x7f, 0x80, 0xff, 0x0f, 0x10, 0x40];
const V2: &[u64] = &[0, 1, 0x7fff, 0x8000, 0xffff, 0x0100];
const V3: &[u64] = &[0, 1, 0x7f_ffff, 0x80_0000, 0xff_ffff];
const V4: &[u64] = &[0, 1, 0x7fff_ffff, 0x8000_0000, 0xffff_ffff, 0x0001_0000, 0x00ff_ffff, 0x1000_0000];
const V5: &[u64] = &[0, 1, 0x7f_ffff_ffff, 0x80_0000_0000, 0xff_ffff_ffff];
const V8: &[u64] = &[0, 1, 0x7fff_ffff_ffff_ffff, 0x8000_0000_0000_0000, u64::MAX, 0xffff_ffff, 0x1_0000_0000];

pub fn full_variants() -> Vec<Variant> {
    let mut v = Vec::new();
    for &x in V1 {
        v.push(Variant(1, true, x));
    }
    for (w, vals) in [(2usize, V2), (3, V3), (4, V4), (5, V5), (8, V8)] {
        for &x in vals {
            v.push(Variant(w, true, x));
            if x != 0 && x != (u64::MAX >> (64 - 8 * w as u32)) {
                v.push(Variant(w, false, x));
            }
        }
    }
    v
}

pub fn write_value(buf: &mut [u8], off: usize, var: Variant) -> bool {
    let Variant(w, be, val) = var;
    if off + w > buf.len() {
        return false;
    }
    let bytes = val.to_be_bytes();
    let src = &bytes[8 - w..];
    if be {
        buf[off..off + w].copy_from_slice(src);
    } else {
        for i in 0..w {
            buf[off + i] = src[w - 1 - i];
        }
    }
    true
}

fn read_value(buf: &[u8], off: usize, w: usize, be: bool) -> u64 {
    let mut v = 0u64;
    for i in 0..w {
        let b = if be { buf[off + i] } else { buf[off + w - 1 - i] };
        v = (v << 8) | u64::from(b);
    }
    v
}

/// Offsets of the header regions: first `head` bytes and last `tail` bytes.
pub fn region_offsets(len: usize, head: usize, tail: usize) -> Vec<usize> {
    let mut v: Vec<usize> = (0..len.min(head)).collect();
    let start = len.saturating_sub(tail).max(v.len());
    v.extend(start..len);
    v
}

pub struct Plan {
    /// number of systematic jobs
    pub systematic: usize,
    pub random: usize,
    sweep_seeds: usize,
    head: usize,
    tail: usize,
    variants: Vec<Variant>,
    /// per sweep seed: (offset list, truncation lengths)
    layout: Vec<(Vec<usize>, Vec<usize>)>,
}

impl Plan {
    pub fn new(seeds: &[Seed], quick: bool, random: usize) -> Self {
        let (sweep_seeds, head, tail, variants) = if quick { (2usize, 64usize, 32usize, full_variants()) } else { (6usize, 256usize, 64usize, full_variants()) };
        let sweep_seeds = sweep_seeds.min(seeds.len());
        let mut layout = Vec::new();
        let mut systematic = 0usize;
        for (si, s) in seeds.iter().take(sweep_seeds).enumerate() {
            // thorough: the first (smallest) seed is swept over its first KiB
            let head = if !quick && si == 0 { 1024 } else { head };
            let offs = region_offsets(s.data.len(), head, tail);
            let mut truncs: Vec<usize> = (0..=s.data.len().min(64)).collect();
            for k in 1..=64usize {
                if s.data.len() > 64 + k {
                    truncs.push(s.data.len() - k);
                }
            }
            truncs.dedup();
            systematic += offs.len() * variants.len() + truncs.len();
            layout.push((offs, truncs));
        }
        Self { systematic, random, sweep_seeds, head, tail, variants, layout }
    }

    pub fn total(&self) -> usize {
        self.systematic + self.random
    }

    pub fn describe(&self) -> String {
        format!("sweep_seeds={} head={} tail={} variants={} systematic={} random={}", self.sweep_seeds, self.head, self.tail, self.variants.len(), self.systematic, self.random)
    }

    /// Systematic job `j` (< self.systematic) -> case.
    pub fn systematic_case(&self, seeds: &[Seed], mut j: usize) -> Option<Case> {
        for (si, (offs, truncs)) in self.layout.iter().enumerate() {
            let n_sweep = offs.len() * self.variants.len();
            let s = &seeds[si];
            if j < n_sweep {
                let off = offs[j / self.variants.len()];
                let var = self.variants[j % self.variants.len()];
                let mut data = s.data.clone();
                if !write_value(&mut data, off, var) {
                    return None;
                }
                if data == s.data {
                    return None;
                }
                return Some(Case { data, aux: s.aux.clone(), flags: 0, origin: format!("{} set{}{}@{}={:#x}", s.name, var.0 * 8, if var.1 { "be" } else { "le" }, off, var.2) });
            }
            j -= n_sweep;
            if j < truncs.len() {
                let n = truncs[j];
                return Some(Case { data: s.data[..n].to_vec(), aux: s.aux.clone(), flags: 0, origin: format!("{} truncate@{}", s.name, n) });
            }
            j -= truncs.len();
        }
        None
    }
}

pub const DICT_BIN: &[&[u8]] = &[b"BLTE", b"TVFS", b"EN", b"IN", b"DL", b"DS", b"PA", b"ZBSDIFF1", b"TSFM", b"MFST", b"\x00\x00\x00\x00", b"\xff\xff\xff\xff", b"\x0f", b"\x10", b"N", b"Z", b"4", b"E", b"F", b"\x00", b"\x7f\xff\xff\xff", b"\x80\x00\x00\x00"];

pub const DICT_TEXT: &[&str] = &[
    "|", "!", ":", "=", " = ", "\n", "\r\n", "\n\n", "## seqn = ", "## seqn = 18446744073709551616", "STRING:0", "HEX:16", "DEC:4", "HEX:0", "DEC:0", "STRING:4294967296", "HEX:4294967295", "!HEX:-1", "!:", "||", "b:", "b:{", "{", "}", ",", "*", "*=", "z", "n", "e:{", "c:{", "g:{", "z:{", "mpq", "K", "M", "256K*", "16K*620=z", "999999999999999999999", "4294967296", "18446744073709551615", "-1", "0", "0x", "\0", "\u{fffd}", "é", "\u{10ffff}",
    "Content-Type: ", "multipart/alternative", "multipart/mixed", "boundary=", "boundary=\"", "--", "Checksum: ", "Content-Disposition: ", "Content-Transfer-Encoding: base64", "signature", "MIME-Version: 1.0", "text/plain", "; ", "\"",
    "archives = ", "archives-index-size = ", "patch-entry = ", "vfs-1 = ", "vfs-1-size = ", "vfs-root = ", "encoding = ", "encoding-size = ", "install = ", "download-size = ", "size = ", "patch-index = ", "build-partial-priority = ", "key-layout-index-bits = ", "[", "]", "\"all\":", "null", "true", "1e999",
];

fn pick_region_offset(rng: &mut Rng, len: usize) -> usize {
    if len == 0 {
        return 0;
    }
    match rng.below(20) {
        0..=6 => rng.usize_below(len.min(64)),
        7..=9 => rng.usize_below(len.min(256)),
        10..=12 => len - 1 - rng.usize_below(len.min(64)),
        _ => rng.usize_below(len),
    }
}

fn interesting(rng: &mut Rng, w: usize, cur: u64, len: usize) -> u64 {
    let table: &[u64] = match w {
        1 => V1,
        2 => V2,
        3 => V3,
        4 => V4,
        5 => V5,
        _ => V8,
    };
    let mask = if w >= 8 { u64::MAX } else { (1u64 << (8 * w)) - 1 };
    let l = len as u64;
    let v = match rng.below(12) {
        0..=4 => *rng.pick(table),
        5 => cur.wrapping_add(1),
        6 => cur.wrapping_sub(1),
        7 => cur.wrapping_mul(2),
        8 => cur.wrapping_add(256),
        9 => *rng.pick(&[l, l + 1, l.wrapping_sub(1), l / 2, l * 2, l / 16, l / 24 + 1, l / 9 + 1]),
        10 => 1u64 << rng.below(8 * w as u64),
        _ => rng.next_u64(),
    };
    v & mask
}

fn one_mutation(rng: &mut Rng, data: &mut Vec<u8>, pool: &[&Seed], text: bool, notes: &mut String) {
    use std::fmt::Write;
    let len = data.len();
    let choice = rng.below(if text { 16 } else { 13 });
    match choice {
        0..=4 => {
            // interesting value at a header-region offset
            if len == 0 {
                data.push(rng.next_u32() as u8);
                return;
            }
            let w = *rng.pick(&[1usize, 1, 2, 2, 3, 4, 4, 4, 5, 8]);
            let off = pick_region_offset(rng, len);
            if off + w > len {
                data[off] = *rng.pick(V1) as u8;
                let _ = write!(notes, " set8@{off}");
                return;
            }
            let be = rng.chance(2, 3);
            let cur = read_value(data, off, w, be);
            let val = interesting(rng, w, cur, len);
            write_value(data, off, Variant(w, be, val));
            let _ = write!(notes, " set{}{}@{}={:#x}", w * 8, if be { "be" } else { "le" }, off, val);
        }
        5 => {
            if len == 0 {
                return;
            }
            let n = 1 + rng.usize_below(3);
            for _ in 0..n {
                let off = pick_region_offset(rng, len);
                data[off] ^= 1 << rng.below(8);
                let _ = write!(notes, " flip@{off}");
            }
        }
        6 => {
            // truncate
            let n = if rng.bool() { rng.usize_below(len + 1) } else { len.saturating_sub(1 + rng.usize_below(len.min(64) + 1)) };
            data.truncate(n);
            let _ = write!(notes, " trunc@{n}");
        }
        7 => {
            // duplicate a region
            if len < 2 {
                return;
            }
            let a = rng.usize_below(len);
            let n = 1 + rng.usize_below((len - a).min(4096));
            let chunk = data[a..a + n].to_vec();
            let at = rng.usize_below(len + 1);
            data.splice(at..at, chunk);
            let _ = write!(notes, " dup[{a}+{n}]@{at}");
        }
        8 => {
            // delete a region
            if len < 2 {
                return;
            }
            let a = rng.usize_below(len);
            let n = 1 + rng.usize_below((len - a).min(512));
            data.drain(a..a + n);
            let _ = write!(notes, " del[{a}+{n}]");
        }
        9 => {
            // splice with another seed: head of this + tail of other (or overwrite a window)
            if pool.is_empty() {
                return;
            }
            let other = &rng.pick(pool).data;
            if other.is_empty() {
                return;
            }
            if rng.bool() {
                let cut = rng.usize_below(len + 1);
                let ocut = rng.usize_below(other.len());
                data.truncate(cut);
                data.extend_from_slice(&other[ocut..(ocut + 65536).min(other.len())]);
                let _ = write!(notes, " splice@{cut}");
            } else if len > 0 {
                let at = rng.usize_below(len);
                let ocut = rng.usize_below(other.len());
                let n = (1 + rng.usize_below(64)).min(len - at).min(other.len() - ocut);
                data[at..at + n].copy_from_slice(&other[ocut..ocut + n]);
                let _ = write!(notes, " overwrite[{at}+{n}]");
            }
        }
        10 => {
            // random bytes over a window
            if len == 0 {
                return;
            }
            let at = pick_region_offset(rng, len);
            let n = (1 + rng.usize_below(16)).min(len - at);
            for b in &mut data[at..at + n] {
                *b = rng.next_u32() as u8;
            }
            let _ = write!(notes, " rnd[{at}+{n}]");
        }
        11 => {
            // fill a window with one byte
            if len == 0 {
                return;
            }
            let at = pick_region_offset(rng, len);
            let n = (1 + rng.usize_below(32)).min(len - at);
            let b = *rng.pick(&[0u8, 0xff, 0x80, 0x7f, 0x20, b'A']);
            data[at..at + n].fill(b);
            let _ = write!(notes, " fill[{at}+{n}]={b:#x}");
        }
        12 => {
            // insert a dictionary token / magic
            let tok: &[u8] = *rng.pick(DICT_BIN);
            let at = if rng.bool() { 0 } else { rng.usize_below(len + 1) };
            if rng.bool() && at + tok.len() <= len {
                data[at..at + tok.len()].copy_from_slice(tok);
            } else {
                data.splice(at..at, tok.iter().copied());
            }
            let _ = write!(notes, " tok@{at}");
        }
        13 | 14 => {
            // text: insert / replace with a dictionary token
            let tok = rng.pick(DICT_TEXT).as_bytes();
            let at = rng.usize_below(len + 1);
            if rng.bool() && at + tok.len() <= len {
                data.splice(at..at + tok.len(), tok.iter().copied());
            } else {
                data.splice(at..at, tok.iter().copied());
            }
            let _ = write!(notes, " text-tok@{at}");
        }
        _ => {
            // text: replace a run of digits with a boundary number
            let digits: Vec<usize> = data.iter().enumerate().filter(|(_, b)| b.is_ascii_digit()).map(|(i, _)| i).collect();
            if digits.is_empty() {
                return;
            }
            let start = *rng.pick(&digits);
            let mut end = start;
            while end < data.len() && data[end].is_ascii_digit() {
                end += 1;
            }
            let rep = *rng.pick(&["0", "1", "255", "256", "65535", "65536", "4294967295", "4294967296", "18446744073709551615", "18446744073709551616", "99999999999999999999999999", "-1", "2147483648"]);
            data.splice(start..end, rep.bytes());
            let _ = write!(notes, " num@{start}={rep}");
        }
    }
}

/// Repeat a short token many times (deep nesting / long runs).
fn repetition(rng: &mut Rng, seed: &Seed, text: bool) -> (Vec<u8>, String) {
    let tok: Vec<u8> = if text && rng.chance(3, 4) {
        rng.pick(&["b:", "b:{*=", "e:{0000000000000000,00000000,", "z:{", "{", "[", "|", "!", "\n", "--", "a|", "x!STRING:0|", "b:{1=", "\"", "{\"a\":", "[[", "= ", "# "]).as_bytes().to_vec()
    } else if !seed.data.is_empty() {
        let a = rng.usize_below(seed.data.len());
        let n = (1 + rng.usize_below(8)).min(seed.data.len() - a);
        seed.data[a..a + n].to_vec()
    } else {
        vec![0]
    };
    let reps = match rng.below(4) {
        0 => rng.urange(2, 64),
        1 => rng.urange(64, 4096),
        2 => rng.urange(4096, 40_000),
        _ => rng.urange(40_000, 150_000),
    };
    let reps = reps.min(600_000 / tok.len().max(1));
    let mut body = Vec::with_capacity(tok.len() * reps + seed.data.len());
    let prefix = if rng.bool() { 0 } else { rng.usize_below(seed.data.len().min(256) + 1) };
    body.extend_from_slice(&seed.data[..prefix]);
    for _ in 0..reps {
        body.extend_from_slice(&tok);
    }
    if rng.bool() {
        let rest = rng.usize_below(seed.data.len() + 1);
        body.extend_from_slice(&seed.data[rest..(rest + 4096).min(seed.data.len())]);
    }
    (body, format!("{} repeat tok_len={} x{} after prefix {}", seed.name, tok.len(), reps, prefix))
}

/// Structure-aware ZBSDIFF1 generator: boundary values in the (decompressed) control block.
pub fn zbsdiff_structured(rng: &mut Rng, old: &[u8]) -> Case {
    let ol = old.len() as i64;
    let vals: [i64; 22] = [0, 1, 2, -1, -2, 7, 255, 256, 4096, 65536, ol, ol - 1, ol + 1, -ol, 1 << 31, (1 << 31) - 1, 1 << 32, -(1 << 31), 1_000_000_000, 1_000_000_001, i64::MAX, i64::MIN + 1];
    let n = match rng.below(6) {
        0 => 0,
        1..=3 => 1 + rng.usize_below(3),
        4 => rng.urange(4, 40),
        _ => rng.urange(100, 3000),
    };
    let mut control = Vec::with_capacity(n);
    let (mut dsum, mut esum) = (0i64, 0i64);
    for _ in 0..n {
        let small = rng.chance(3, 4);
        let d = if small { rng.range(0, 64) as i64 } else { *rng.pick(&vals) };
        let e = if small { rng.range(0, 64) as i64 } else { *rng.pick(&vals) };
        let s = if rng.chance(1, 2) { rng.range(0, 32) as i64 - 16 } else { *rng.pick(&vals) };
        if (0..=1 << 20).contains(&d) {
            dsum += d;
        }
        if (0..=1 << 20).contains(&e) {
            esum += e;
        }
        control.push((d, e, s));
    }
    let dl = match rng.below(4) {
        0 => 0,
        1 => (dsum as usize).saturating_sub(1),
        _ => dsum as usize,
    }
    .min(1 << 20);
    let el = match rng.below(4) {
        0 => 0,
        1 => (esum as usize).saturating_sub(1),
        _ => esum as usize,
    }
    .min(1 << 20);
    let diff = if rng.bool() { vec![0u8; dl] } else { rng.bytes(dl) };
    let extra = rng.bytes(el);
    let out = match rng.below(6) {
        0 => *rng.pick(&vals),
        1 => dsum + esum + 1,
        2 => (dsum + esum - 1).max(0),
        _ => dsum + esum,
    };
    let size_fields = if rng.chance(1, 6) { Some((*rng.pick(&vals), *rng.pick(&vals))) } else { None };
    let data = crate::seeds::zbsdiff_build(&control, &diff, &extra, out, size_fields);
    Case { data, aux: old.to_vec(), flags: 0, origin: format!("structured zbsdiff: {n} control entries, diff {dl} extra {el} output_size {out} size_fields {size_fields:?}") }
}

/// ZBSDIFF1 patch that is consistent in every respect (exact diff/extra lengths, exact output
/// size, in-range sizes) except for ONE hostile field of ONE control entry, so that the appliers
/// get as far as that field (a fully random control block is usually refused at its first bad
/// entry). Added after a seeded change (unchecked `old_pos += seek`) slipped past the generator above.
pub fn zbsdiff_one_hostile_field(rng: &mut Rng, old: &[u8]) -> Case {
    let ol = old.len() as i64;
    let vals: [i64; 18] = [i64::MAX, i64::MIN + 1, i64::MAX - 1, 1 << 62, -(1 << 62), 1 << 32, -(1 << 32), 1 << 31, -(1 << 31), (1 << 31) - 1, ol, ol + 1, -ol, -ol - 1, -1, 1_000_000_000, 10_000_000, 10_000_001];
    let n = rng.urange(1, 4);
    let mut control: Vec<(i64, i64, i64)> = (0..n).map(|_| (rng.range(0, 9) as i64, rng.range(0, 5) as i64, rng.range(0, 8) as i64 - 4)).collect();
    // make sure the old-file position is non-zero when the hostile entry is reached
    control[0].0 = control[0].0.max(1);
    let victim = rng.usize_below(n);
    let field = rng.below(6);
    let dsum: i64 = control.iter().map(|c| c.0).sum();
    let esum: i64 = control.iter().map(|c| c.1).sum();
    let v = *rng.pick(&vals);
    match field {
        0..=3 => control[victim].2 = v, // seek: the field no size validation covers
        4 => control[victim].0 = v,
        _ => control[victim].1 = v,
    }
    let diff = rng.bytes(dsum as usize);
    let extra = rng.bytes(esum as usize);
    let data = crate::seeds::zbsdiff_build(&control, &diff, &extra, dsum + esum, None);
    Case { data, aux: old.to_vec(), flags: 0, origin: format!("zbsdiff consistent patch with one hostile field: entry {victim} field {} = {v}", ["seek", "seek", "seek", "seek", "diff_size", "extra_size"][field as usize]) }
}

/// File-name generator for the directory-scan targets: names of exactly (or nearly) the byte
/// length the name parsers expect (14 = `{bucket:02x}{version:08x}.idx`, 20 = `{gen:016x}.lru`),
/// built from hex digits, other ASCII and multi-byte characters at every position, with the
/// expected extension in either case, so that the slicing of the fixed-width fields is
/// exercised at and around character boundaries.
pub fn filename_case(rng: &mut Rng, seeds: &[Seed]) -> Case {
    const ATOMS: &[&str] = &["0", "1", "7", "9", "a", "f", "A", "F", "g", "x", "-", "+", " ", ".", "_", "é", "ß", "Ω", "中", "€", "😀", "\u{301}"];
    let s = &seeds[rng.usize_below(seeds.len())];
    let (ext, want): (&str, usize) = if s.data.ends_with(b".lru") || s.data.ends_with(b".LRU") { (".lru", 20) } else { (".idx", 14) };
    let ext = match rng.below(6) {
        0 => ext.to_uppercase(),
        1 => String::new(),
        2 => format!("{ext}x"),
        _ => ext.to_string(),
    };
    let target_len = match rng.below(8) {
        0 => want + 1,
        1 => want.saturating_sub(1),
        2 => rng.urange(1, 40),
        _ => want,
    };
    let stem_len = target_len.saturating_sub(ext.len());
    let mut name = String::new();
    let hexish = rng.chance(2, 3);
    let mut guard = 0;
    while name.len() < stem_len && guard < 200 {
        guard += 1;
        let a = if hexish && rng.chance(5, 6) { ATOMS[rng.usize_below(8)] } else { ATOMS[rng.usize_below(ATOMS.len())] };
        if name.len() + a.len() <= stem_len {
            name.push_str(a);
        } else if stem_len - name.len() == 1 {
            name.push('0');
        }
    }
    name.push_str(&ext);
    Case { data: name.clone().into_bytes(), aux: s.aux.clone(), flags: rng.next_u32() & 0xff, origin: format!("file name {name:?} ({} bytes)", name.len()) }
}

/// Patch index: boundary values in the header of an inner block. The block table (type, size)
/// sits at the end of the file header; a type-8 block is only decoded when no type-2 block
/// precedes it, so the type-2 descriptor is retyped first, then ONE field of the 14-byte
/// block-8 header (or of the 5-byte block-2 header) is replaced. `data_size` stays consistent.
pub fn patch_index_inner_block(rng: &mut Rng, seeds: &[Seed]) -> Option<Case> {
    let s = &seeds[rng.usize_below(seeds.len())];
    let d = &s.data;
    if d.len() < 18 {
        return None;
    }
    let le32 = |o: usize| -> Option<usize> { d.get(o..o + 4).map(|b| u32::from_le_bytes([b[0], b[1], b[2], b[3]]) as usize) };
    let header_size = le32(0)?;
    let extra = usize::from(u16::from_le_bytes([d[12], d[13]]));
    let table = 14 + extra;
    let count = le32(table)?;
    if count == 0 || count > 64 || header_size > d.len() {
        return None;
    }
    // (descriptor offset, type, block offset, size)
    let mut blocks = Vec::new();
    let mut off = header_size;
    for i in 0..count {
        let desc = table + 4 + i * 8;
        let ty = le32(desc)?;
        let size = le32(desc + 4)?;
        blocks.push((desc, ty, off, size));
        off = off.checked_add(size)?;
    }
    if off > d.len() {
        return None;
    }
    let mut data = d.clone();
    let b2 = blocks.iter().find(|b| b.1 == 2).copied();
    let b8 = blocks.iter().find(|b| b.1 == 8).copied();
    let vals32: [u32; 12] = [0, 1, 2, 61, 62, 0x7fff_ffff, 0x8000_0000, u32::MAX, 0x0100_0000, 0x0001_0000, (d.len() / 61) as u32, (d.len() / 61 + 1) as u32];
    let mut note;
    let use8 = b8.is_some() && (b2.is_none() || rng.chance(3, 4));
    if use8 {
        let (_, _, boff, bsize) = b8?;
        if let Some((desc2, ..)) = b2 {
            // block 2 out of the way: block 8 becomes the entry source
            data[desc2..desc2 + 4].copy_from_slice(&(*rng.pick(&[1u32, 3, 9, 0])).to_le_bytes());
        }
        note = format!("block8@{boff}+{bsize}");
        if bsize < 14 || boff + 14 > data.len() {
            return None;
        }
        match rng.below(8) {
            7 => {
                // a key size the entry decoder refuses (> 16) with few entries, so that the block
                // is long enough for the announced entries and the decoder itself is reached
                data[boff + 1] = *rng.pick(&[17u8, 18, 32, 64]);
                data[boff + 4..boff + 8].copy_from_slice(&(*rng.pick(&[1u32, 2, 3])).to_le_bytes());
            }
            0 => data[boff] = *rng.pick(&[0u8, 2, 3, 4, 255]),
            1 => data[boff + 1] = *rng.pick(&[0u8, 1, 8, 9, 15, 16, 17, 32, 255]),
            2 => {
                let v = *rng.pick(&[0u16, 1, 13, 14, 15, 0x7fff, 0xffff, bsize as u16, (bsize as u16).wrapping_sub(1)]);
                data[boff + 2..boff + 4].copy_from_slice(&v.to_le_bytes());
            }
            3 | 4 => data[boff + 4..boff + 8].copy_from_slice(&rng.pick(&vals32).to_le_bytes()),
            5 => {
                // shrink the block (descriptor size) so that the announced entries overflow it
                let (desc8, ..) = b8?;
                let new = *rng.pick(&[0u32, 13, 14, 15, 14 + 61, (bsize as u32).saturating_sub(1), (bsize as u32) / 2]);
                data[desc8 + 4..desc8 + 8].copy_from_slice(&new.to_le_bytes());
            }
            _ => {
                let o = boff + rng.usize_below(14);
                data[o] = rng.next_u32() as u8;
            }
        }
        note.push_str(" one-field");
    } else {
        let (_, _, boff, bsize) = b2?;
        note = format!("block2@{boff}+{bsize}");
        if bsize < 5 || boff + 5 > data.len() {
            return None;
        }
        match rng.below(3) {
            0 => data[boff..boff + 4].copy_from_slice(&rng.pick(&vals32).to_le_bytes()),
            1 => data[boff + 4] = *rng.pick(&[0u8, 1, 8, 9, 15, 16, 17, 32, 255]),
            _ => {
                data[boff + 4] = *rng.pick(&[17u8, 18, 32, 64]);
                data[boff..boff + 4].copy_from_slice(&(*rng.pick(&[1u32, 2, 3])).to_le_bytes());
            }
        }
    }
    Some(Case { data, aux: s.aux.clone(), flags: 0, origin: format!("{} inner block header field: {note}", s.name) })
}

/// Archive index / archive group: zero whole records (or a run of them) inside a data chunk
/// that is NOT the last one. The parser treats an all-zero record as the padding that ends a
/// chunk, so the accepted structure then has fewer entries than `chunks x records-per-chunk`
/// while the table of contents still has one key per chunk — the inconsistency the lookups
/// (`binary_search_key`, `find_all_entries`, chunk loader) have to survive.
pub fn archive_index_hole(rng: &mut Rng, seeds: &[Seed]) -> Option<Case> {
    let s = &seeds[rng.usize_below(seeds.len())];
    let d = &s.data;
    if d.len() < 28 + 4096 {
        return None;
    }
    let f = d.len() - 28;
    // footer: toc_hash[8] version reserved[2] page_size_kb offset_bytes size_bytes ekey_length hash_bytes count[4] hash[8]
    let page = usize::from(d[f + 11]) * 1024;
    let rec = usize::from(d[f + 12]) + usize::from(d[f + 13]) + usize::from(d[f + 14]);
    let count = u32::from_le_bytes([d[f + 16], d[f + 17], d[f + 18], d[f + 19]]) as usize;
    if page == 0 || rec == 0 || count == 0 {
        return None;
    }
    let per = page / rec;
    let chunks = count.div_ceil(per.max(1));
    if chunks == 0 || chunks * page > d.len() {
        return None;
    }
    let mut data = d.clone();
    let holes = 1 + rng.usize_below(3);
    let mut note = String::new();
    for _ in 0..holes {
        let c = if chunks > 1 && rng.chance(4, 5) { rng.usize_below(chunks - 1) } else { rng.usize_below(chunks) };
        let in_chunk = if c + 1 == chunks { (count - c * per).max(1) } else { per };
        let r = match rng.below(4) {
            0 => 0,
            1 => in_chunk - 1,
            _ => rng.usize_below(in_chunk),
        };
        let n = match rng.below(4) {
            0 => in_chunk - r,
            _ => 1,
        };
        let a = c * page + r * rec;
        let b = (a + n * rec).min(data.len());
        data[a..b].fill(0);
        use std::fmt::Write;
        let _ = write!(note, " chunk {c} records {r}..{}", r + n);
    }
    Some(Case { data, aux: s.aux.clone(), flags: rng.next_u32() & 0xff, origin: format!("{} zeroed records:{note}", s.name) })
}

/// Boundary values in named fields that lie outside the swept header regions (DESIGN §6 C02
/// "boundary tables"): (offset, width) of little-endian fields per family.
pub fn field_table(family: &str) -> &'static [(usize, usize)] {
    match family {
        // shmem control block v5: exclusive flag, then the PID-tracking header at 0x154:
        // state, writer_count, total_count, last_modified_slot, generation (u64), max_slots,
        // first PID slots and first mode slots (8 slots in the seed)
        "shmem" => &[(0x150, 4), (0x154, 4), (0x158, 4), (0x15c, 4), (0x160, 4), (0x164, 8), (0x16c, 4), (0x170, 4), (0x174, 4), (0x18c, 4), (0x190, 4), (0x194, 4)],
        _ => &[],
    }
}

/// One to three table fields of a seed set to boundary values (the rest of the file intact).
pub fn fields_case(rng: &mut Rng, seeds: &[Seed], table: &[(usize, usize)]) -> Option<Case> {
    // prefer the largest seed (the one that has the optional trailing structures)
    let s = if rng.chance(3, 4) { seeds.iter().max_by_key(|s| s.data.len())? } else { &seeds[rng.usize_below(seeds.len())] };
    let mut data = s.data.clone();
    let mut note = String::new();
    let n = 1 + rng.usize_below(3);
    for _ in 0..n {
        let &(off, w) = rng.pick(table);
        if off + w > data.len() {
            continue;
        }
        let max = if w >= 8 { u64::MAX } else { (1u64 << (8 * w)) - 1 };
        let v = *rng.pick(&[0u64, 1, 2, 3, 7, 8, 9, max, max - 1, max >> 1, (max >> 1) + 1, 0x100, 0xffff]) & max;
        write_value(&mut data, off, Variant(w, false, v));
        use std::fmt::Write;
        let _ = write!(note, " le{}@{off:#x}={v:#x}", w * 8);
    }
    if data == s.data {
        return None;
    }
    Some(Case { data, aux: s.aux.clone(), flags: rng.next_u32() & 0xff, origin: format!("{} field table:{note}", s.name) })
}

/// Random job -> case. `seeds` = the family of the target, `pool` = seeds of all families.
pub fn random_case(rng: &mut Rng, seeds: &[Seed], pool: &[&Seed], text: bool) -> Case {
    let roll = rng.below(100);
    // purely random bytes
    if roll < 4 {
        let n = rng.size_biased(4096);
        return Case { data: rng.bytes(n), aux: seeds.first().map(|s| s.aux.clone()).unwrap_or_default(), flags: rng.next_u32() & 0xff, origin: format!("random bytes len={n}") };
    }
    // cross-format: another family's seed (possibly mutated once)
    if roll < 7 && !pool.is_empty() {
        let s = *rng.pick(pool);
        if s.data.len() <= 70_000 {
            let mut data = s.data.clone();
            let mut notes = String::new();
            if rng.bool() {
                one_mutation(rng, &mut data, pool, text, &mut notes);
            }
            return Case { data, aux: seeds.first().map(|x| x.aux.clone()).unwrap_or_default(), flags: 0, origin: format!("cross {}{}", s.name, notes) };
        }
    }
    // prefer small seeds: pick two candidates, take the smaller with p=2/3
    let a = rng.usize_below(seeds.len());
    let b = rng.usize_below(seeds.len());
    let si = if rng.chance(2, 3) { if seeds[a].data.len() <= seeds[b].data.len() { a } else { b } } else { a };
    let s = &seeds[si];
    // structured random: valid prefix + random rest
    if roll < 15 {
        let keep = (*rng.pick(&[2usize, 4, 8, 9, 12, 16, 22, 24, 32, 38, 48, 64])).min(s.data.len());
        let n = rng.size_biased(2048);
        let mut data = s.data[..keep].to_vec();
        data.extend(rng.bytes(n));
        if rng.chance(1, 3) && s.data.len() > 28 {
            // keep the footer as well (archive index: fields live in the last 28 bytes)
            data.extend_from_slice(&s.data[s.data.len() - 28..]);
        }
        return Case { data, aux: s.aux.clone(), flags: rng.next_u32() & 0xff, origin: format!("{} keep-prefix {} + random {}", s.name, keep, n) };
    }
    if roll < 20 {
        let (data, origin) = repetition(rng, s, text);
        return Case { data, aux: s.aux.clone(), flags: 0, origin };
    }
    let mut data = s.data.clone();
    let mut notes = String::new();
    let n_mut = match rng.below(10) {
        0..=5 => 1,
        6 | 7 => 2,
        8 => 3,
        _ => 1 + rng.usize_below(6),
    };
    for _ in 0..n_mut {
        one_mutation(rng, &mut data, pool, text, &mut notes);
    }
    let mut aux = s.aux.clone();
    if !aux.is_empty() && rng.chance(1, 8) {
        // old file of a patch: truncated / emptied / other
        match rng.below(3) {
            0 => aux.truncate(rng.usize_below(aux.len() + 1)),
            1 => aux.clear(),
            _ => {
                let n = rng.size_biased(2048);
                aux = rng.bytes(n);
            }
        }
        notes.push_str(" aux-mutated");
    }
    if data.len() > 2 << 20 {
        data.truncate(2 << 20);
    }
    Case { data, aux, flags: rng.next_u32() & 0xff, origin: format!("{}{}", s.name, notes) }
}
