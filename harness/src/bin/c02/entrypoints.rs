//! The entry points ("targets") exercised by C02 and how a worker calls them.

use crate::alloc;
use cascette_client_storage::index::IndexManager;
use cascette_client_storage::index::update::UpdateSection;
use cascette_client_storage::kmt::key_state::ResidencyDb;
use cascette_client_storage::lru::{LruManager, lru_file};
use cascette_client_storage::shmem::control_block::ShmemControlBlock;
use cascette_client_storage::storage::LocalHeader;
use cascette_client_storage::BuildInfoFile;
use cascette_crypto::{TactKey, TactKeyStore};
use cascette_formats::CascFormat;
use cascette_formats::archive::{ArchiveGroup, ArchiveIndex, ChunkedArchiveIndex};
use cascette_formats::blte::BlteFile;
use cascette_formats::bpsv::BpsvDocument;
use cascette_formats::config::{BuildConfig, CdnConfig, KeyringConfig, PatchConfig, ProductConfig};
use cascette_formats::download::DownloadManifest;
use cascette_formats::encoding::EncodingFile;
use cascette_formats::espec::ESpec;
use cascette_formats::install::InstallManifest;
use cascette_formats::patch_archive::PatchArchive;
use cascette_formats::patch_index::PatchIndex;
use cascette_formats::root::RootFile;
use cascette_formats::size::SizeManifest;
use cascette_formats::tvfs::TvfsFile;
use cascette_formats::zbsdiff::{ZbsDiff, ZbsdiffPatcher, apply_patch_memory};
use std::path::Path;

/// Documented decompression cap (blte/compression.rs MAX_DECOMPRESSION_SIZE) + slack.
pub const DECODE_LIMIT: usize = (1usize << 30) + (16usize << 20);

pub const HARNESS_KEY_NAME: u64 = 0x0102_0304_0506_0708;
pub const HARNESS_KEY: [u8; 16] = [0x11, 0x22, 0x33, 0x44, 0x55, 0x66, 0x77, 0x88, 0x99, 0xaa, 0xbb, 0xcc, 0xdd, 0xee, 0xff, 0x00];

pub struct Call<'a> {
    pub input: &'a [u8],
    pub aux: &'a [u8],
    pub flags: u32,
    pub dir: &'a Path,
    pub rt: &'a tokio::runtime::Runtime,
}

pub enum R {
    Ok,
    Err(String),
}

/// Number of post-parse operations (queries, alternative entry points) a target executed
/// during the current call; reported by the worker with every DONE line, so that the evidence
/// shows that the query part of a `*.queries` target really ran on accepted structures.
pub static OPS: std::sync::atomic::AtomicU64 = std::sync::atomic::AtomicU64::new(0);

#[inline]
pub fn op() {
    OPS.fetch_add(1, std::sync::atomic::Ordering::Relaxed);
}

fn err<E: std::fmt::Display>(e: E) -> R {
    R::Err(e.to_string())
}

/// Parse phase thresholds: single request max(16 MiB, 64 x len), live total max(256 MiB, 4096 x len).
pub fn phase_parse(len: usize) {
    let single = (16usize << 20).max(len.saturating_mul(64));
    let total = (256usize << 20).max(len.saturating_mul(4096));
    alloc::arm(single, total);
}

/// Decompression / patch-application phase: the documented 1 GiB cap (+16 MiB slack) for a
/// single request; live total of twice that (output assembled from per-chunk buffers).
pub fn phase_decode() {
    alloc::arm(DECODE_LIMIT, DECODE_LIMIT.saturating_mul(2));
}

pub struct Target {
    pub name: &'static str,
    pub run: fn(&Call) -> R,
    /// seed family (see seeds.rs)
    pub family: &'static str,
    /// text format (dictionary / token mutators preferred)
    pub text: bool,
    /// the target runs post-parse operations (counted with `op()`); the run is inconclusive
    /// when they never ran on a mutated, accepted input
    pub post_ops: bool,
}

fn casc<T: CascFormat>(c: &Call) -> R {
    phase_parse(c.input.len());
    match T::parse(c.input) {
        Ok(v) => {
            drop(v);
            R::Ok
        }
        Err(e) => err(e),
    }
}

fn key_store() -> TactKeyStore {
    let mut ks = TactKeyStore::new();
    ks.add(TactKey::new(HARNESS_KEY_NAME, HARNESS_KEY));
    ks.add(TactKey::new(0, [0u8; 16]));
    ks.add(TactKey::new(u64::MAX, [0xff; 16]));
    ks
}

fn blte_decompress(c: &Call) -> R {
    phase_parse(c.input.len());
    let f = match <BlteFile as CascFormat>::parse(c.input) {
        Ok(f) => f,
        Err(e) => return err(e),
    };
    phase_decode();
    match f.decompress() {
        Ok(v) => {
            drop(v);
            R::Ok
        }
        Err(e) => err(e),
    }
}

fn blte_decompress_keys(c: &Call) -> R {
    let ks = key_store();
    phase_parse(c.input.len());
    let f = match <BlteFile as CascFormat>::parse(c.input) {
        Ok(f) => f,
        Err(e) => return err(e),
    };
    phase_decode();
    match f.decompress_with_keys(&ks) {
        Ok(v) => {
            drop(v);
            R::Ok
        }
        Err(e) => err(e),
    }
}

fn tvfs_blte(c: &Call) -> R {
    phase_decode();
    match TvfsFile::load_from_blte(c.input) {
        Ok(_) => R::Ok,
        Err(e) => err(e),
    }
}

fn encoding_blte(c: &Call) -> R {
    phase_decode();
    match EncodingFile::parse_blte(c.input) {
        Ok(_) => R::Ok,
        Err(e) => err(e),
    }
}

fn build_config_accessors(c: &Call) -> R {
    phase_parse(c.input.len());
    let cfg = match BuildConfig::parse(c.input) {
        Ok(v) => v,
        Err(e) => return err(e),
    };
    let _ = cfg.root();
    let _ = cfg.encoding();
    let _ = cfg.encoding_key();
    let _ = cfg.install();
    let _ = cfg.download();
    let _ = cfg.patch();
    let _ = cfg.patch_config();
    let _ = cfg.patch_index();
    let _ = cfg.size();
    let _ = cfg.vfs_root();
    let _ = cfg.vfs_root_espec();
    let _ = cfg.vfs_espec(1);
    let _ = cfg.client_version();
    let _ = cfg.chunk_entries();
    let _ = cfg.feature_use_hardlinks();
    let _ = cfg.feature_placeholder();
    let _ = cfg.install_high_ver();
    let _ = cfg.key_layout_index_bits();
    let _ = cfg.key_layout_entries();
    let _ = cfg.no_frame_encoding();
    let _ = cfg.vfs_entries();
    let _ = cfg.build_name();
    let _ = cfg.build_uid();
    let _ = cfg.build_product();
    let _ = cfg.build_playtime_url();
    let _ = cfg.build_product_espec();
    let _ = cfg.build_file_db();
    let _ = cfg.build_partial_priority();
    let _ = cfg.vfs_espec(0);
    let _ = cfg.vfs_espec(u32::MAX);
    let _ = cfg.get("root");
    match cfg.validate() {
        Ok(()) => R::Ok,
        Err(e) => err(e),
    }
}

fn cdn_config_accessors(c: &Call) -> R {
    phase_parse(c.input.len());
    let cfg = match CdnConfig::parse(c.input) {
        Ok(v) => v,
        Err(e) => return err(e),
    };
    let _ = cfg.archives();
    let _ = cfg.archive_group();
    let _ = cfg.patch_archive_group();
    let _ = cfg.patch_archives();
    let _ = cfg.file_index();
    let _ = cfg.file_indices();
    let _ = cfg.archive_count();
    let _ = cfg.patch_file_index();
    let _ = cfg.patch_file_index_size();
    let _ = cfg.patch_file_indices();
    match cfg.validate() {
        Ok(()) => R::Ok,
        Err(e) => err(e),
    }
}

fn patch_config_accessors(c: &Call) -> R {
    phase_parse(c.input.len());
    let cfg = match PatchConfig::parse(c.input) {
        Ok(v) => v,
        Err(e) => return err(e),
    };
    let _ = cfg.patch_hash();
    let _ = cfg.patch_size();
    let _ = cfg.entries_by_type("encoding");
    match cfg.validate() {
        Ok(()) => R::Ok,
        Err(e) => err(e),
    }
}

fn keyring_accessors(c: &Call) -> R {
    phase_parse(c.input.len());
    let cfg = match KeyringConfig::parse(c.input) {
        Ok(v) => v,
        Err(e) => return err(e),
    };
    let _ = cfg.get_key("0102030405060708");
    let _ = cfg.get_key_by_id(1);
    match cfg.validate() {
        Ok(()) => R::Ok,
        Err(e) => err(e),
    }
}

fn zbs_parse_apply(c: &Call) -> R {
    phase_parse(c.input.len() + c.aux.len());
    let p = match ZbsDiff::parse(c.input) {
        Ok(p) => p,
        Err(e) => return err(e),
    };
    phase_decode();
    match p.apply(c.aux) {
        Ok(_) => R::Ok,
        Err(e) => err(e),
    }
}

fn zbs_apply_memory(c: &Call) -> R {
    phase_decode();
    match apply_patch_memory(c.aux, c.input) {
        Ok(_) => R::Ok,
        Err(e) => err(e),
    }
}

fn zbs_streaming(c: &Call) -> R {
    phase_parse(c.input.len() + c.aux.len());
    let p = match ZbsDiff::parse(c.input) {
        Ok(p) => p,
        Err(e) => return err(e),
    };
    let out = p.output_size();
    drop(p);
    phase_decode();
    let patcher = ZbsdiffPatcher::new(std::io::Cursor::new(c.aux), out);
    match patcher.apply_patch_from_data(c.input) {
        Ok(_) => R::Ok,
        Err(e) => err(e),
    }
}

fn archive_index(c: &Call) -> R {
    phase_parse(c.input.len());
    match ArchiveIndex::parse(std::io::Cursor::new(c.input)) {
        Ok(ix) => {
            let _ = ix.find_entry(&[0x42; 16]);
            let _ = ix.binary_search_key(&[0x42; 9]);
            let _ = ix.validate();
            R::Ok
        }
        Err(e) => err(e),
    }
}

fn archive_group(c: &Call) -> R {
    phase_parse(c.input.len());
    match ArchiveGroup::parse(&mut std::io::Cursor::new(c.input)) {
        Ok(g) => {
            let _ = g.find_entry(&[0x42; 16]);
            R::Ok
        }
        Err(e) => err(e),
    }
}

fn write_file(c: &Call, name: &str) -> std::path::PathBuf {
    let p = c.dir.join(name);
    let _ = std::fs::write(&p, c.input);
    p
}

fn chunked_index(c: &Call) -> R {
    let p = write_file(c, "chunked.index");
    phase_parse(c.input.len());
    match ChunkedArchiveIndex::open(&p) {
        Ok(mut ix) => {
            let probe: Vec<u8> = if c.aux.is_empty() { vec![0x42; 16] } else { c.aux.to_vec() };
            let r1 = ix.find_entry(&probe).map(|o| o.is_some());
            let r2 = ix.find_entry(&[0u8; 16]).map(|o| o.is_some());
            let r3 = ix.find_entry(&[0xff; 16]).map(|o| o.is_some());
            match (r1, r2, r3) {
                (Err(e), _, _) | (_, Err(e), _) | (_, _, Err(e)) => err(e),
                _ => R::Ok,
            }
        }
        Err(e) => err(e),
    }
}

fn mime_parse(c: &Call) -> R {
    phase_parse(c.input.len());
    match cascette_protocol::mime_parser::parse_v1_mime_response(c.input) {
        Ok(_) => R::Ok,
        Err(e) => err(e),
    }
}

fn mime_to_bpsv(c: &Call) -> R {
    phase_parse(c.input.len());
    match cascette_protocol::mime_parser::parse_v1_mime_to_bpsv(c.input) {
        Ok(_) => R::Ok,
        Err(e) => err(e),
    }
}

fn mime_is(c: &Call) -> R {
    phase_parse(c.input.len());
    let _ = cascette_protocol::mime_parser::is_v1_mime_response(c.input);
    R::Ok
}

fn v1_mime_parse(c: &Call) -> R {
    phase_parse(c.input.len());
    match cascette_protocol::v1_mime::parse_v1_mime_response(c.input, None) {
        Ok(_) => R::Ok,
        Err(e) => err(e),
    }
}

fn v1_mime_is(c: &Call) -> R {
    phase_parse(c.input.len());
    let _ = cascette_protocol::v1_mime::is_v1_mime_response(c.input);
    R::Ok
}

fn idx_load(c: &Call) -> R {
    let p = write_file(c, "0000000001.idx");
    let mut m = IndexManager::new(c.dir);
    let id = if c.flags & 1 == 1 { 0 } else { 1 };
    phase_parse(c.input.len());
    match m.load_index(id, &p) {
        Ok(()) => {
            let _ = m.entry_count();
            let _ = m.lookup(&cascette_crypto::EncodingKey::from_bytes([0x42; 16]));
            R::Ok
        }
        Err(e) => err(e),
    }
}

fn update_section(c: &Call) -> R {
    phase_parse(c.input.len());
    let s = UpdateSection::from_bytes(c.input);
    let _ = s.entry_count();
    let _ = s.search(&[0x42; 9]);
    R::Ok
}

fn residency_load(c: &Call) -> R {
    let p = write_file(c, "residency.db");
    phase_parse(c.input.len());
    match ResidencyDb::load(&p) {
        Ok(db) => {
            let _ = db.entry_count();
            let _ = db.is_resident(&[0x42; 16]);
            let _ = db.scan_keys();
            R::Ok
        }
        Err(e) => err(e),
    }
}

fn lru_load_walk(c: &Call) -> R {
    let generation = 7u64;
    let p = lru_file::lru_file_path(c.dir, generation);
    let _ = std::fs::write(&p, c.input);
    let mut m = LruManager::new(4, c.dir.to_path_buf());
    phase_parse(c.input.len());
    if lru_file::deserialize(c.input).is_none() {
        return R::Err("lru deserialize: None (size/version/hash)".into());
    }
    match c.rt.block_on(m.load_from_disk(generation)) {
        Ok(()) => {
            let mut n = 0u64;
            m.for_each_entry(|_k| n += 1);
            let _ = m.len();
            let _ = m.contains(&[0x42; 9]);
            R::Ok
        }
        Err(e) => err(e),
    }
}

fn shmem_cb(c: &Call) -> R {
    phase_parse(c.input.len());
    match ShmemControlBlock::from_mapped(c.input) {
        Some(cb) => {
            let _ = cb.validate_for_bind();
            R::Ok
        }
        None => R::Err("from_mapped: None (too short / bad version)".into()),
    }
}

fn build_info(c: &Call) -> R {
    let Ok(s) = std::str::from_utf8(c.input) else {
        return R::Err("invalid utf-8 (harness: parse_str takes &str)".into());
    };
    phase_parse(c.input.len());
    match BuildInfoFile::parse_str(s) {
        Ok(f) => {
            let _ = f.entry_count();
            if let Some(e) = f.active_entry() {
                let _ = e.build_key();
                let _ = e.cdn_hosts();
                let _ = e.install_size();
                let _ = e.version();
            }
            for e in f.entries() {
                let _ = e.is_active();
                let _ = e.cdn_servers();
                let _ = e.tags();
            }
            R::Ok
        }
        Err(e) => err(e),
    }
}

fn local_header(c: &Call) -> R {
    phase_parse(c.input.len());
    match LocalHeader::from_bytes(c.input) {
        Some(h) => {
            let _ = h.blte_size();
            let _ = h.validate_checksums(0);
            let _ = h.original_encoding_key();
            R::Ok
        }
        None => R::Err("from_bytes: None (too short)".into()),
    }
}

macro_rules! t {
    ($name:expr, $run:expr, $family:expr, $text:expr) => {
        Target { name: $name, run: $run, family: $family, text: $text, post_ops: false }
    };
}

pub fn targets() -> Vec<Target> {
    let mut v = base_targets();
    v.extend(crate::queries::targets());
    v
}

fn base_targets() -> Vec<Target> {
    vec![
        t!("blte.parse", casc::<BlteFile>, "blte", false),
        t!("blte.decompress", blte_decompress, "blte", false),
        t!("blte.decompress_with_keys", blte_decompress_keys, "blte", false),
        t!("patch_index.parse", casc::<PatchIndex>, "patch_index", false),
        t!("cdn_config.parse", casc::<CdnConfig>, "cdn_config", true),
        t!("cdn_config.accessors", cdn_config_accessors, "cdn_config", true),
        t!("product_config.parse", casc::<ProductConfig>, "product_config", true),
        t!("build_config.parse", casc::<BuildConfig>, "build_config", true),
        t!("build_config.accessors", build_config_accessors, "build_config", true),
        t!("keyring_config.parse", casc::<KeyringConfig>, "keyring_config", true),
        t!("keyring_config.accessors", keyring_accessors, "keyring_config", true),
        t!("patch_config.parse", casc::<PatchConfig>, "patch_config", true),
        t!("patch_config.accessors", patch_config_accessors, "patch_config", true),
        t!("root.parse", casc::<RootFile>, "root", false),
        t!("bpsv.parse", casc::<BpsvDocument>, "bpsv", true),
        t!("install.parse", casc::<InstallManifest>, "install", false),
        t!("espec.parse", casc::<ESpec>, "espec", true),
        t!("size.parse", casc::<SizeManifest>, "size", false),
        t!("tvfs.parse", casc::<TvfsFile>, "tvfs", false),
        t!("tvfs.load_from_blte", tvfs_blte, "tvfs_blte", false),
        t!("encoding.parse", casc::<EncodingFile>, "encoding", false),
        t!("encoding.parse_blte", encoding_blte, "encoding_blte", false),
        t!("patch_archive.parse", casc::<PatchArchive>, "patch_archive", false),
        t!("zbsdiff.parse", casc::<ZbsDiff>, "zbsdiff", false),
        t!("zbsdiff.parse_apply", zbs_parse_apply, "zbsdiff", false),
        t!("zbsdiff.apply_patch_memory", zbs_apply_memory, "zbsdiff", false),
        t!("zbsdiff.streaming_patcher", zbs_streaming, "zbsdiff", false),
        t!("download.parse", casc::<DownloadManifest>, "download", false),
        t!("archive_index.casc_parse", casc::<ArchiveIndex>, "archive_index", false),
        t!("archive_index.parse", archive_index, "archive_index", false),
        t!("archive_group.parse", archive_group, "archive_group", false),
        t!("chunked_archive_index.open", chunked_index, "archive_index", false),
        t!("mime_parser.parse_v1_mime_response", mime_parse, "mime", true),
        t!("mime_parser.parse_v1_mime_to_bpsv", mime_to_bpsv, "mime", true),
        t!("mime_parser.is_v1_mime_response", mime_is, "mime", true),
        t!("v1_mime.parse_v1_mime_response", v1_mime_parse, "mime", true),
        t!("v1_mime.is_v1_mime_response", v1_mime_is, "mime", true),
        t!("idx.load_index", idx_load, "idx", false),
        t!("update_section.from_bytes", update_section, "update_section", false),
        t!("residency_db.load", residency_load, "residency", false),
        t!("lru.deserialize_load_walk", lru_load_walk, "lru", false),
        t!("shmem.control_block.from_mapped", shmem_cb, "shmem", false),
        t!("build_info.parse_str", build_info, "build_info", true),
        t!("local_header.from_bytes", local_header, "local_header", false),
    ]
}
