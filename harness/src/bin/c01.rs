//! C01 — BLTE encode/decode is the identity on content.
//!
//! Workload: generated *builder programs* (1–8 steps over with_compression,
//! with_chunk_size(_unchecked), with_encryption / without_encryption, add_data,
//! add_mixed_data, add_encrypted_data, add_chunk) with payloads of the classes
//! of DESIGN §4.1 and sizes at the chunk boundaries; plus `BlteFile::compress`,
//! `BlteFile::single_chunk`, `BlteFile::multi_chunk`, the extended (0x10) chunk
//! table, and the chunk-level primitives.
//!
//! Oracle (from the property statement):
//!  (a) if every call returned Ok: `BlteFile::parse(build)` then `decompress` /
//!      `decompress_with_keys(matching store)` == concatenation of the added payloads;
//!  (b) the independent decoder `vh::refimpl::blte::decode` over the same bytes
//!      yields the same content (interoperability);
//!  (c) the chunk table is truthful (`vh::refimpl::blte::check_table`);
//!  (d) any Err from a builder call / build is a *refusal*: counted, not judged.
//! A sample of (container, keys, md5 of the expected content) is written to a
//! JSONL log and re-decoded by a second, Python decoder (`pyref/c01.py`).

use cascette_crypto::{TactKey, TactKeyStore};
use cascette_formats::CascFormat;
use cascette_formats::blte::{
    BlteBuilder, BlteFile, BlteHeader, ChunkData, CompressionMode, EncryptionSpec, compress_chunk, decompress_chunk,
    decrypt_chunk_with_keys, encrypt_chunk_with_key,
};
use serde_json::{Value, json};
use std::collections::BTreeMap;
use std::io::Write;
use std::panic::{AssertUnwindSafe, catch_unwind};
use std::sync::Mutex;
use vh::refimpl::blte as rblte;
use vh::{Ctx, Rng, fnv64, genx, hex_short, mix64};

// ------------------------------------------------------------------ program model

#[derive(Clone, Copy, Debug, PartialEq, Eq)]
struct Enc {
    cipher: u8, // b'S' | b'A'
    key_idx: usize,
    iv: [u8; 4],
}

#[derive(Clone, Debug)]
enum Step {
    Compression(u8),
    ChunkSize(usize),
    ChunkSizeUnchecked(usize),
    Encryption(Enc),
    NoEncryption,
    AddData(usize),
    AddMixed(usize, Option<Enc>),
    AddEncrypted(usize, Enc),
    AddChunk(usize, u8),
    /// add_chunk(ChunkData::from_compressed(mode, body, size)): pre-compressed chunk body, decoded size given
    /// (true) or unknown (false)
    AddChunkPre(usize, u8, bool),
}

impl Step {
    fn kind(&self) -> &'static str {
        match self {
            Step::Compression(_) => "with_compression",
            Step::ChunkSize(_) => "with_chunk_size",
            Step::ChunkSizeUnchecked(_) => "with_chunk_size_unchecked",
            Step::Encryption(_) => "with_encryption",
            Step::NoEncryption => "without_encryption",
            Step::AddData(_) => "add_data",
            Step::AddMixed(_, None) => "add_mixed_data(None)",
            Step::AddMixed(_, Some(_)) => "add_mixed_data(Some)",
            Step::AddEncrypted(..) => "add_encrypted_data",
            Step::AddChunk(..) => "add_chunk",
            Step::AddChunkPre(..) => "add_chunk(from_compressed)",
        }
    }
    fn is_add(&self) -> bool {
        matches!(self, Step::AddData(_) | Step::AddMixed(..) | Step::AddEncrypted(..) | Step::AddChunk(..) | Step::AddChunkPre(..))
    }
}

#[derive(Clone, Debug)]
struct Program {
    keys: Vec<(u64, [u8; 16])>,
    payloads: Vec<(String, Vec<u8>)>,
    steps: Vec<Step>,
    extended_table: bool,
}

/// What the model expects one chunk of the container to decode to.
#[derive(Clone, Debug)]
struct ExpChunk {
    payload: Vec<u8>,
    origin: &'static str, // call that produced it
    cipher: u8,           // 0 = not encrypted
}

fn mode_of(b: u8) -> CompressionMode {
    #[allow(deprecated)]
    match b {
        b'Z' => CompressionMode::ZLib,
        b'4' => CompressionMode::LZ4,
        b'E' => CompressionMode::Encrypted,
        b'F' => CompressionMode::Frame,
        _ => CompressionMode::None,
    }
}

fn cipher_name(c: u8) -> &'static str {
    match c {
        b'S' => "salsa20",
        b'A' => "arc4",
        0 => "none",
        _ => "unknown-type",
    }
}

/// Encryption type bytes that are neither 'S' (Salsa20) nor 'A' (ARC4): the `encryption_type` field of
/// `EncryptionSpec` is public, so "all encryption specs" includes them. The encoder must refuse them (or
/// produce a container that decodes to the added bytes).
const UNKNOWN_ENC_TYPES: [u8; 6] = [0x01, b'X', b's', b'a', b'E', 0xFF];

fn spec_of(p: &Program, e: Enc) -> (EncryptionSpec, [u8; 16]) {
    let (name, key) = p.keys[e.key_idx];
    let spec = match e.cipher {
        b'A' => EncryptionSpec::arc4(name, e.iv),
        b'S' => EncryptionSpec::salsa20(name, e.iv),
        other => EncryptionSpec { key_name: name, iv: e.iv, encryption_type: other },
    };
    (spec, key)
}

/// Automatic chunking as documented: one chunk if it fits, else pieces of `cs`.
fn split(payload: &[u8], cs: usize) -> Vec<Vec<u8>> {
    if payload.len() <= cs || cs == 0 {
        vec![payload.to_vec()]
    } else {
        payload.chunks(cs).map(<[u8]>::to_vec).collect()
    }
}

// ------------------------------------------------------------------ generation

const DEFAULT_CHUNK: usize = 256 * 1024;
const MAX_CHUNKS_PER_CALL: usize = 1500;

fn gen_enc(rng: &mut Rng, nkeys: usize) -> Enc {
    let iv = match rng.below(6) {
        0 => [0u8; 4],
        1 => [0xff; 4],
        _ => rng.array::<4>(),
    };
    let cipher = if rng.chance(1, 40) {
        *rng.pick(&UNKNOWN_ENC_TYPES)
    } else if rng.chance(2, 3) {
        b'S'
    } else {
        b'A'
    };
    Enc { cipher, key_idx: rng.usize_below(nkeys), iv }
}

fn gen_payload(rng: &mut Rng, cs: usize, big_ok: bool) -> (String, Vec<u8>) {
    let cap = (64 * 1024).min(cs.saturating_mul(MAX_CHUNKS_PER_CALL)).max(1);
    match rng.below(10) {
        // sizes at the chunk boundaries
        0..=2 => {
            let k = *rng.pick(&[1usize, 1, 1, 2, 2, 3, 5]);
            let base = cs.saturating_mul(k);
            let n = *rng.pick(&genx::around(base));
            let n = if n > 700 * 1024 || (!big_ok && n > 80 * 1024) {
                *rng.pick(&genx::around(cap.min(cs)))
            } else {
                n
            };
            let fill = *rng.pick(&["random", "compressible", "zeros", "mode_bytes_at_chunk_starts"]);
            let mut v = match fill {
                "random" => rng.bytes(n),
                "zeros" => vec![0u8; n],
                "compressible" => {
                    let ul = rng.urange(1, 17);
                    let unit = rng.bytes(ul);
                    unit.iter().cycle().take(n).copied().collect()
                }
                _ => rng.bytes(n),
            };
            if fill == "mode_bytes_at_chunk_starts" && cs > 0 {
                let mut i = 0;
                while i < v.len() {
                    v[i] = *rng.pick(b"NZ4EF");
                    i += cs;
                }
            }
            (format!("boundary({fill})"), v)
        }
        // default chunk size region (only a few: they are big)
        3 if big_ok && cs == DEFAULT_CHUNK && rng.chance(1, 6) => {
            let n = *rng.pick(&[DEFAULT_CHUNK - 1, DEFAULT_CHUNK, DEFAULT_CHUNK + 1, 2 * DEFAULT_CHUNK + 1]);
            let v = if rng.bool() { rng.bytes(n) } else { vec![b'Z'; n] };
            ("default_chunk_boundary".to_string(), v)
        }
        _ => {
            let (class, v) = genx::payload(rng, cap);
            (class.to_string(), v)
        }
    }
}

fn gen_chunk_size(rng: &mut Rng, hint_len: usize) -> Step {
    if rng.chance(1, 3) {
        // validated setter; values outside [1 KiB, 16 MiB] are refusals
        let v = *rng.pick(&[1024usize, 1025, 2048, 4096, 65536, 1023, 0, 16 * 1024 * 1024, 16 * 1024 * 1024 + 1]);
        let v = if rng.bool() { v } else { rng.urange(1024, 70_000) };
        Step::ChunkSize(v)
    } else {
        let v = match rng.below(6) {
            0 => rng.urange(1, 16),
            1 => *rng.pick(&genx::around(hint_len.max(2))),
            2 => 1usize << rng.urange(0, 16),
            3 => (1usize << rng.urange(1, 16)) + 1,
            4 => rng.urange(1, 300),
            _ => rng.urange(1, 65536),
        };
        Step::ChunkSizeUnchecked(v.max(1))
    }
}

/// Pure function of the rng state (replay regenerates the program from its coordinates).
fn gen_program(rng: &mut Rng) -> Program {
    let nkeys = rng.urange(1, 3);
    let mut keys: Vec<(u64, [u8; 16])> = Vec::new();
    while keys.len() < nkeys {
        let name = match rng.below(8) {
            0 => 0,
            1 => u64::MAX,
            2 => 1,
            _ => rng.next_u64(),
        };
        if keys.iter().any(|k| k.0 == name) {
            continue;
        }
        let key = match rng.below(8) {
            0 => [0u8; 16],
            1 => [0xff; 16],
            _ => rng.array::<16>(),
        };
        keys.push((name, key));
    }
    let mut p = Program { keys, payloads: Vec::new(), steps: Vec::new(), extended_table: rng.chance(1, 8) };
    let nsteps = rng.urange(1, 8);
    let mut cs = DEFAULT_CHUNK;
    let mut last_len = 64usize;
    let mut big_used = false;
    // shape bias: some programs are all-add (composition of calls), some config-heavy
    let add_bias = rng.urange(4, 8) as u64;
    // a few programs never add anything: `build` must then refuse (or produce a container that decodes to nothing)
    let no_adds = rng.chance(1, 60);
    for i in 0..nsteps {
        let must_add = !no_adds && i + 1 == nsteps && !p.steps.iter().any(Step::is_add);
        let step = if must_add || (!no_adds && rng.below(10) < add_bias) {
            let (class, payload) = gen_payload(rng, cs, !big_used);
            if payload.len() > 100 * 1024 {
                big_used = true;
            }
            last_len = payload.len();
            p.payloads.push((class, payload));
            let pi = p.payloads.len() - 1;
            match rng.below(10) {
                0..=3 => Step::AddData(pi),
                4 | 5 => Step::AddMixed(pi, if rng.bool() { Some(gen_enc(rng, nkeys)) } else { None }),
                6 | 7 => Step::AddEncrypted(pi, gen_enc(rng, nkeys)),
                _ if rng.chance(1, 3) => Step::AddChunkPre(pi, *rng.pick(b"NZ4"), rng.bool()),
                _ => Step::AddChunk(pi, if rng.chance(1, 25) { *rng.pick(b"EF") } else { *rng.pick(b"NZ4") }),
            }
        } else {
            match rng.below(8) {
                0 | 1 => Step::Compression(if rng.chance(1, 30) { *rng.pick(b"EF") } else { *rng.pick(b"NZ4") }),
                2 | 3 => gen_chunk_size(rng, last_len),
                4..=6 => Step::Encryption(gen_enc(rng, nkeys)),
                _ => Step::NoEncryption,
            }
        };
        match &step {
            Step::ChunkSize(v) if (1024..=16 * 1024 * 1024).contains(v) => cs = *v,
            Step::ChunkSizeUnchecked(v) => cs = *v,
            _ => {}
        }
        p.steps.push(step);
    }
    p
}

fn describe(p: &Program) -> Value {
    let steps: Vec<Value> = p
        .steps
        .iter()
        .map(|s| match s {
            Step::Compression(m) => json!({"call":"with_compression","mode":char::from(*m).to_string()}),
            Step::ChunkSize(v) => json!({"call":"with_chunk_size","size":v}),
            Step::ChunkSizeUnchecked(v) => json!({"call":"with_chunk_size_unchecked","size":v}),
            Step::Encryption(e) => json!({"call":"with_encryption","cipher":cipher_name(e.cipher),"type_byte":e.cipher,"key":e.key_idx,"iv":hex::encode(e.iv)}),
            Step::NoEncryption => json!({"call":"without_encryption"}),
            Step::AddData(i) => json!({"call":"add_data","payload":i}),
            Step::AddMixed(i, e) => json!({"call":"add_mixed_data","payload":i,"enc":e.map(|e| json!({"cipher":cipher_name(e.cipher),"type_byte":e.cipher,"key":e.key_idx,"iv":hex::encode(e.iv)}))}),
            Step::AddEncrypted(i, e) => json!({"call":"add_encrypted_data","payload":i,"cipher":cipher_name(e.cipher),"type_byte":e.cipher,"key":e.key_idx,"iv":hex::encode(e.iv),"block_index":"= chunk position"}),
            Step::AddChunk(i, m) => json!({"call":"add_chunk(ChunkData::new)","payload":i,"mode":char::from(*m).to_string()}),
            Step::AddChunkPre(i, m, known) => json!({"call":"add_chunk(ChunkData::from_compressed)","payload":i,"mode":char::from(*m).to_string(),"decoded_size_given":known}),
        })
        .collect();
    json!({
        "keys": p.keys.iter().map(|(n, k)| json!({"name":format!("{n:#018x}"),"key":hex::encode(k)})).collect::<Vec<_>>(),
        "payloads": p.payloads.iter().map(|(c, v)| json!({"class":c,"len":v.len(),"head":hex_short(v, 24)})).collect::<Vec<_>>(),
        "steps": steps,
        "finalize": if p.extended_table { "build() + BlteHeader::multi_chunk_extended" } else { "build()" },
    })
}

fn program_hash(p: &Program) -> u64 {
    let mut h = fnv64(format!("{:?}|{}", p.steps, p.extended_table).as_bytes());
    for (_, v) in &p.payloads {
        h = mix64(h, fnv64(v));
    }
    for (n, k) in &p.keys {
        h = mix64(h, mix64(*n, fnv64(k)));
    }
    h
}

// ------------------------------------------------------------------ local counters / python log

#[derive(Default)]
struct Local {
    evals: u64,
    hashes: Vec<u64>,
    obs: BTreeMap<String, u64>,
}

impl Local {
    fn obs(&mut self, k: &str, n: u64) {
        *self.obs.entry(k.to_string()).or_insert(0) += n;
    }
    fn obs_max(&mut self, k: &str, n: u64) {
        let e = self.obs.entry(k.to_string()).or_insert(0);
        if n > *e {
            *e = n;
        }
    }
    fn flush(&mut self, ctx: &Ctx) {
        ctx.add_evals(self.evals);
        ctx.add_nontrivial(self.hashes.drain(..));
        for (k, v) in &self.obs {
            if k.starts_with("max.") {
                ctx.obs_max(k, *v);
            } else {
                ctx.obs(k, *v);
            }
        }
        self.evals = 0;
        self.obs.clear();
    }
}

struct PyLog {
    file: Option<std::io::BufWriter<std::fs::File>>,
    every: u64,
    n: u64,
    written: u64,
    bytes: u64,
    byte_budget: u64,
    max_container: usize,
}

impl PyLog {
    #[allow(clippy::too_many_arguments)]
    fn offer(&mut self, entry: &str, container: &[u8], keys: &[(u64, [u8; 16])], expected: &[u8], ref_ok: bool, table_ok: Option<bool>) {
        self.n += 1;
        if ref_ok && self.n % self.every != 0 {
            return;
        }
        if container.len() > self.max_container || self.bytes + container.len() as u64 > self.byte_budget {
            return;
        }
        if let Some(f) = self.file.as_mut() {
            let keymap: serde_json::Map<String, Value> = keys.iter().map(|(n, k)| (format!("{n:016x}"), Value::String(hex::encode(k)))).collect();
            let line = json!({
                "entry": entry,
                "container": hex::encode(container),
                "keys": keymap,
                "expect_len": expected.len(),
                "expect_md5": hex::encode(md5::compute(expected).0),
                "ref_ok": ref_ok,
                "table_ok": table_ok,
            });
            if writeln!(f, "{line}").is_ok() {
                self.written += 1;
                self.bytes += container.len() as u64;
            }
        }
    }
}

fn panic_text(p: &Box<dyn std::any::Any + Send>) -> String {
    vh::monitor::watchdog::panic_message(p)
}

/// Stable class of an error text: the part before the first ':' (when it comes
/// early), otherwise everything up to the first digit or '('.
fn err_class(e: &str) -> String {
    if let Some(c) = e.find(':') {
        if c <= 24 {
            return e[..c].trim().to_string();
        }
    }
    let cut = e.find(|c: char| c.is_ascii_digit() || c == '(').unwrap_or(e.len());
    let mut end = cut.min(40);
    while !e.is_char_boundary(end) {
        end -= 1;
    }
    e[..end].trim().trim_end_matches(':').to_string()
}

// ------------------------------------------------------------------ judging a container

struct Case<'a> {
    entry: &'static str,
    container: &'a [u8],
    keys: &'a [(u64, [u8; 16])],
    expected: &'a [ExpChunk],
    /// extended table built by the harness over encrypted chunks: its decoded-content
    /// checksum cannot be computed without the key — recorded, not judged
    tolerate_dck_on_encrypted: bool,
    detail: Value,
}

fn enc_class(exp: &[ExpChunk]) -> &'static str {
    let s = exp.iter().any(|c| c.cipher == b'S');
    let a = exp.iter().any(|c| c.cipher == b'A');
    if exp.iter().any(|c| c.cipher != 0 && c.cipher != b'S' && c.cipher != b'A') {
        return "enc=unknown-type";
    }
    match (s, a) {
        (false, false) => "enc=none",
        (true, false) => "enc=salsa20",
        (false, true) => "enc=arc4",
        (true, true) => "enc=salsa20+arc4",
    }
}

fn chunk_class(exp: &[ExpChunk], i: usize) -> String {
    match exp.get(i) {
        Some(c) => format!(
            "chunk-from={},cipher={},{},{}",
            c.origin,
            cipher_name(c.cipher),
            if i == 0 { "pos=0" } else { "pos>0" },
            if c.payload.is_empty() { "payload=empty" } else { "payload=nonempty" }
        ),
        None => "chunk-beyond-model".to_string(),
    }
}

fn judge(ctx: &Ctx, loc: &mut Local, pylog: &Mutex<PyLog>, case: &Case<'_>) {
    let entry = case.entry;
    let expected_all: Vec<u8> = case.expected.iter().flat_map(|c| c.payload.iter().copied()).collect();
    let any_enc = case.expected.iter().any(|c| c.cipher != 0);
    let mut store = TactKeyStore::empty();
    for (n, k) in case.keys {
        store.add(TactKey::new(*n, *k));
    }
    let with_detail = |extra: Value| {
        let mut d = case.detail.clone();
        if let Some(m) = d.as_object_mut() {
            m.insert("entry".into(), json!(entry));
            m.insert("container_len".into(), json!(case.container.len()));
            m.insert("container_head".into(), json!(hex_short(case.container, 96)));
            m.insert("expected_len".into(), json!(expected_all.len()));
            m.insert("observed".into(), extra);
        }
        d
    };
    loc.obs_max("max.container_bytes", case.container.len() as u64);
    loc.obs_max("max.chunks", case.expected.len() as u64);

    // ---- (a) the repository's own decoder
    let parsed = catch_unwind(AssertUnwindSafe(|| BlteFile::parse(case.container).map_err(|e| e.to_string())));
    let parsed = match parsed {
        Ok(Ok(f)) => Some(f),
        Ok(Err(e)) => {
            ctx.violation(
                &format!("C01|{entry}|parse-rejects-own-container|{}", enc_class(case.expected)),
                "BlteFile::parse fails on a container that the encoder returned with Ok",
                with_detail(json!({"error":e})),
            );
            None
        }
        Err(p) => {
            ctx.violation(
                &format!("C01|{entry}|parse-panics-on-own-container|{}", enc_class(case.expected)),
                "BlteFile::parse panics on a container that the encoder returned with Ok",
                with_detail(json!({"panic":panic_text(&p)})),
            );
            None
        }
    };
    let mut repo_ok = false;
    if let Some(f) = &parsed {
        let mut runs: Vec<(&'static str, Result<Result<Vec<u8>, String>, String>)> = Vec::new();
        runs.push((
            "decompress_with_keys",
            catch_unwind(AssertUnwindSafe(|| f.decompress_with_keys(&store).map_err(|e| e.to_string()))).map_err(|p| panic_text(&p)),
        ));
        if !any_enc {
            runs.push(("decompress", catch_unwind(AssertUnwindSafe(|| f.decompress().map_err(|e| e.to_string()))).map_err(|p| panic_text(&p))));
        }
        repo_ok = true;
        for (api, r) in runs {
            loc.obs(&format!("decode.{api}"), 1);
            let good = matches!(&r, Ok(Ok(v)) if *v == expected_all);
            if good {
                loc.obs("outcome.decoded==added", 1);
                continue;
            }
            repo_ok = false;
            // locate the first chunk that does not decode to what was added
            let mut first_bad: Option<(usize, String)> = None;
            if f.chunks.len() != case.expected.len() {
                first_bad = Some((usize::MAX, format!("container has {} chunks, model expects {}", f.chunks.len(), case.expected.len())));
            } else {
                for (i, c) in f.chunks.iter().enumerate() {
                    let one = catch_unwind(AssertUnwindSafe(|| {
                        if c.mode == CompressionMode::Encrypted {
                            decrypt_chunk_with_keys(&c.data, &store, i).map_err(|e| e.to_string())
                        } else {
                            c.decompress(i).map_err(|e| e.to_string())
                        }
                    }));
                    match one {
                        Ok(Ok(v)) if v == case.expected[i].payload => {}
                        Ok(Ok(v)) => {
                            first_bad = Some((i, format!("decodes to {} bytes {} instead of {} bytes {}", v.len(), hex_short(&v, 24), case.expected[i].payload.len(), hex_short(&case.expected[i].payload, 24))));
                            break;
                        }
                        Ok(Err(e)) => {
                            first_bad = Some((i, format!("Err: {e}")));
                            break;
                        }
                        Err(p) => {
                            first_bad = Some((i, format!("panic: {}", panic_text(&p))));
                            break;
                        }
                    }
                }
            }
            let what = match &r {
                Ok(Ok(v)) => format!("Ok({} bytes) != added ({} bytes)", v.len(), expected_all.len()),
                Ok(Err(e)) => format!("Err: {e}"),
                Err(p) => format!("panic: {p}"),
            };
            let class = match &first_bad {
                Some((usize::MAX, _)) => "chunk-count-differs-from-model".to_string(),
                Some((i, _)) => chunk_class(case.expected, *i),
                None => "no-single-chunk-at-fault".to_string(),
            };
            loc.obs("outcome.decoded!=added_or_error", 1);
            ctx.violation(
                &format!("C01|{entry}|{api}|container-does-not-decode-to-added-bytes|{class}"),
                "every encoder call returned Ok but decoding the serialized container does not yield the concatenation of the added payloads",
                with_detail(json!({"api":api,"result":what,"first_bad_chunk":first_bad.as_ref().map(|(i, m)| json!({"index": if *i == usize::MAX { Value::Null } else { json!(i) }, "what": m}))})),
            );
        }
    }

    // ---- (a') the same serialized container decoded through the reader entry point (`BinRead::read_options`) from a
    // reader that stands at the container's first byte INSIDE a larger stream (as in a data archive, where other
    // bytes precede the container; a container with a chunk table is also followed by other bytes — a container
    // without table extends to the end of its stream by definition). "Decoding the serialized container" does not
    // depend on where in a stream the container lies. Judged only when the slice decode above is right, so that one
    // defect does not fire twice.
    if repo_ok {
        let has_table = case.container.len() >= 8 && case.container[4..8] != [0, 0, 0, 0];
        let sel = mix64(case.container.len() as u64, case.expected.len() as u64);
        let lead = match sel % 5 {
            0 => 1usize,
            1 => 30,
            2 => 4096,
            3 => case.container.len().clamp(1, 1 << 16),
            _ => 2 + (sel >> 8) as usize % 9000,
        };
        let tail = if has_table { 1 + (sel >> 32) as usize % 200 } else { 0 };
        let mut stream: Vec<u8> = Vec::with_capacity(lead + case.container.len() + tail);
        stream.extend((0..lead).map(|i| (mix64(sel, i as u64 / 8) >> (8 * (i % 8))) as u8));
        stream.extend_from_slice(case.container);
        stream.extend((0..tail).map(|i| (mix64(!sel, i as u64 / 8) >> (8 * (i % 8))) as u8));
        let table = if has_table { "table=present" } else { "table=none" };
        let r = catch_unwind(AssertUnwindSafe(|| {
            let mut cur = std::io::Cursor::new(stream.as_slice());
            cur.set_position(lead as u64);
            let f = <BlteFile as binrw::BinRead>::read_options(&mut cur, binrw::Endian::Big, ()).map_err(|e| format!("read_options: {e}"))?;
            let end = cur.position();
            f.decompress_with_keys(&store).map(|v| (v, end)).map_err(|e| format!("decompress_with_keys: {e}"))
        }))
        .map_err(|p| panic_text(&p));
        loc.obs("embedded.reader_at_nonzero_offset", 1);
        loc.obs(&format!("embedded.{table}"), 1);
        match &r {
            Ok(Ok((v, end))) if *v == expected_all => {
                loc.obs("embedded.outcome.decoded==added", 1);
                // where the reader stands afterwards is not part of the statement: recorded only
                if *end == (lead + case.container.len()) as u64 {
                    loc.obs("embedded.observed.reader_left_at_container_end", 1);
                } else {
                    loc.obs("embedded.observed.reader_left_elsewhere", 1);
                }
            }
            other => {
                let what = match other {
                    Ok(Ok((v, _))) => format!("Ok({} bytes {}) != added ({} bytes)", v.len(), hex_short(v, 24), expected_all.len()),
                    Ok(Err(e)) => format!("Err: {e}"),
                    Err(p) => format!("panic: {p}"),
                };
                loc.obs("embedded.outcome.decoded!=added_or_error", 1);
                ctx.violation(
                    &format!("C01|{entry}|BinRead::read_options(reader-inside-larger-stream)|container-does-not-decode-to-added-bytes(slice-parse-does)|{table}"),
                    "the serialized container decodes to the added bytes when parsed from a slice, but not when read through the reader entry point from a reader positioned at its first byte inside a larger stream",
                    with_detail(json!({"lead_bytes":lead,"trailing_bytes":tail,"result":what})),
                );
            }
        }
    }

    // ---- (b) independent decoder over the same bytes
    let lookup = |name: u64| case.keys.iter().find(|k| k.0 == name).map(|k| k.1);
    let rd = rblte::decode(case.container, &lookup);
    let ref_ok = matches!(&rd, Ok(d) if d.content() == expected_all);
    let table_ok = match &rd {
        Ok(d) if ref_ok => Some(rblte::check_table(case.container, d).is_ok()),
        _ => None,
    };
    pylog.lock().unwrap_or_else(std::sync::PoisonError::into_inner).offer(entry, case.container, case.keys, &expected_all, ref_ok, table_ok);
    match &rd {
        Ok(d) if ref_ok => {
            loc.obs("outcome.ref_decoder==added", 1);
            for c in &d.chunks {
                loc.obs(&format!("chunk.stored_mode.{}", char::from(c.mode)), 1);
            }
        }
        Ok(d) => {
            loc.obs("outcome.ref_decoder!=added", 1);
            if repo_ok {
                let idx = (0..d.chunks.len().max(case.expected.len()))
                    .find(|&i| d.chunks.get(i).map(|c| c.decoded.as_slice()) != case.expected.get(i).map(|c| c.payload.as_slice()))
                    .unwrap_or(0);
                ctx.violation(
                    &format!("C01|{entry}|ref-decoder-disagrees(repo-decoder-yields-added-bytes)|{}", chunk_class(case.expected, idx)),
                    "the repository decodes its own container to the added bytes but an independent BLTE decoder reads different content from the same bytes (self-consistent, not interoperable)",
                    with_detail(json!({"first_differing_chunk":idx,"ref_chunk":d.chunks.get(idx).map(|c| hex_short(&c.decoded, 24))})),
                );
            }
        }
        Err(e) => {
            loc.obs("outcome.ref_decoder_rejects", 1);
            if repo_ok {
                ctx.violation(
                    &format!("C01|{entry}|ref-decoder-rejects(repo-decoder-yields-added-bytes)|{}|{}", err_class(e), enc_class(case.expected)),
                    "the repository decodes its own container to the added bytes but an independent BLTE decoder rejects the same bytes (self-consistent, not interoperable)",
                    with_detail(json!({"ref_error":e})),
                );
            }
        }
    }

    // ---- (c) truthful chunk table (needs the independent per-chunk view)
    if let Ok(d) = &rd {
        if ref_ok {
            let verdict = rblte::check_table(case.container, d);
            let mut flagged = false;
            for (i, c) in d.chunks.iter().enumerate() {
                let stored = &case.container[c.start..c.end];
                let mode = char::from(c.mode);
                let mut bad: Vec<(&'static str, Value)> = Vec::new();
                if let Some(cs) = c.table_compressed_size {
                    loc.obs("table.entries_checked", 1);
                    if cs as usize != stored.len() {
                        bad.push(("table.compressed_size!=bytes-occupied", json!({"table":cs,"actual":stored.len()})));
                    }
                }
                if let Some(ck) = c.table_checksum {
                    if ck != md5::compute(stored).0 {
                        bad.push(("table.checksum!=md5(stored-chunk)", json!({"table":hex::encode(ck)})));
                    }
                }
                if let Some(ds) = c.table_decompressed_size {
                    if ds as usize != c.decoded.len() {
                        bad.push(("table.decompressed_size!=decoded-length", json!({"table":ds,"decoded_len":c.decoded.len(),"stored_len":stored.len()})));
                    }
                }
                if let Some(dck) = c.table_decompressed_checksum {
                    loc.obs("table.extended_entries_checked", 1);
                    if dck != md5::compute(&c.decoded).0 {
                        if case.tolerate_dck_on_encrypted && c.mode == b'E' {
                            loc.obs("observed.extended_table_over_encrypted_chunk.decoded_checksum_not_computable", 1);
                        } else {
                            bad.push(("table.decompressed_checksum!=md5(decoded-chunk)", json!({"table":hex::encode(dck)})));
                        }
                    }
                }
                for (rel, info) in bad {
                    flagged = true;
                    ctx.violation(
                        &format!("C01|{entry}|{rel}|stored-mode={mode}"),
                        "the chunk table written next to the data does not describe the chunk truthfully",
                        with_detail(json!({"chunk":i,"relation":rel,"values":info,"chunk_origin":case.expected.get(i).map(|c| c.origin)})),
                    );
                }
            }
            if let Err(e) = verdict {
                let tolerated = case.tolerate_dck_on_encrypted && e.contains("decompressed checksum");
                if !flagged && !tolerated {
                    ctx.violation(
                        &format!("C01|{entry}|table-untruthful(check_table)|{}", err_class(&e)),
                        "vh::refimpl::blte::check_table reports a disagreement between chunk table and chunks",
                        with_detail(json!({"check_table":e})),
                    );
                }
            } else {
                loc.obs("outcome.table_truthful", 1);
            }
            // header size = offset of the first chunk
            if let Some(first) = d.chunks.first() {
                let hs = d.header_size as usize;
                let expect_off = if hs == 0 { 8 } else { hs };
                if first.start != expect_off {
                    ctx.violation(
                        &format!("C01|{entry}|header_size!=offset-of-first-chunk"),
                        "header size does not point at the first chunk",
                        with_detail(json!({"header_size":hs,"first_chunk_offset":first.start})),
                    );
                }
            }
        }
    }

    // ---- (e) accessors of the parsed container against the serialized bytes. The independent decoder says where
    // the chunks lie in the file and what their MD5 is; the library's own header/chunk accessors and its checksum
    // verifier must describe the same bytes (truthful table, as seen through the library's API).
    if let (Some(f), Ok(d)) = (&parsed, &rd) {
        if ref_ok {
            let table = match d.table_format {
                None => "table=none",
                Some(0x0F) => "table=0x0F",
                Some(0x10) => "table=0x10",
                Some(_) => "table=other",
            };
            loc.obs("accessors.headers_checked", 1);
            let mut rels: Vec<(&'static str, Value)> = Vec::new();
            let (cc, sc) = (f.header.chunk_count(), f.header.is_single_chunk());
            if cc != d.chunks.len() {
                rels.push(("BlteHeader::chunk_count()!=chunks-in-container", json!({"chunk_count()":cc,"chunks_in_container":d.chunks.len()})));
            }
            if sc != d.table_format.is_none() {
                rels.push(("BlteHeader::is_single_chunk()!=(container-has-no-chunk-table)", json!({"is_single_chunk()":sc,"table_format":d.table_format})));
            }
            if let Some(first) = d.chunks.first() {
                let (off, ths) = (f.header.data_offset(), f.header.total_header_size());
                if off != first.start {
                    rels.push(("BlteHeader::data_offset()!=offset-of-first-chunk", json!({"data_offset()":off,"first_chunk_offset":first.start})));
                }
                if ths != first.start {
                    rels.push(("BlteHeader::total_header_size()!=bytes-before-first-chunk", json!({"total_header_size()":ths,"first_chunk_offset":first.start})));
                }
            }
            for (rel, info) in rels {
                ctx.violation(
                    &format!("C01|{entry}|{rel}|{table}"),
                    "a header accessor of the parsed container disagrees with the serialized bytes",
                    with_detail(json!({"relation":rel,"values":info})),
                );
            }
            if f.chunks.len() == d.chunks.len() {
                for (i, (fc, c)) in f.chunks.iter().zip(&d.chunks).enumerate() {
                    let stored = &case.container[c.start..c.end];
                    let mode = char::from(c.mode);
                    let mut bad: Vec<(&'static str, Value)> = Vec::new();
                    let csz = fc.compressed_size();
                    if csz != stored.len() {
                        bad.push(("ChunkData::compressed_size()!=bytes-occupied", json!({"compressed_size()":csz,"actual":stored.len()})));
                    }
                    let real = md5::compute(stored).0;
                    // what a reader would pass: the checksum recorded in the table (its truthfulness is judged in (c));
                    // a single-chunk file has no table: the independently computed MD5
                    let ck = c.table_checksum.unwrap_or(real);
                    if ck == real && !fc.verify_checksum(&ck) {
                        bad.push(("ChunkData::verify_checksum-rejects-md5(stored-chunk)", json!({"checksum":hex::encode(ck)})));
                    }
                    let mut wrong = real;
                    wrong[i % 16] ^= 1 << (i % 8);
                    if wrong != [0u8; 16] && fc.verify_checksum(&wrong) {
                        bad.push(("ChunkData::verify_checksum-accepts-checksum!=md5(stored-chunk)", json!({"checksum":hex::encode(wrong),"md5_of_stored_chunk":hex::encode(real)})));
                    }
                    loc.obs("accessors.chunks_checked", 1);
                    for (rel, info) in bad {
                        ctx.violation(
                            &format!("C01|{entry}|{rel}|stored-mode={mode}"),
                            "a chunk accessor / the checksum verifier of the parsed container disagrees with the serialized chunk",
                            with_detail(json!({"chunk":i,"relation":rel,"values":info,"chunk_origin":case.expected.get(i).map(|c| c.origin)})),
                        );
                    }
                }
            }
        }
    }
}

// ------------------------------------------------------------------ running a builder program

fn run_program(ctx: &Ctx, loc: &mut Local, pylog: &Mutex<PyLog>, p: &Program, coords: &Value) {
    loc.evals += 1;
    loc.obs("programs", 1);
    for s in &p.steps {
        loc.obs(&format!("op.{}", s.kind()), 1);
    }
    for (class, v) in &p.payloads {
        loc.obs(&format!("payload.{class}"), 1);
        loc.obs_max("max.payload_bytes", v.len() as u64);
    }
    // model
    let mut cs = DEFAULT_CHUNK;
    let mut enc: Option<Enc> = None;
    let mut exp: Vec<ExpChunk> = Vec::new();

    let mut builder = BlteBuilder::new();
    let mut refused: Option<(&'static str, String)> = None;
    for s in &p.steps {
        let kind = s.kind();
        // encryption spec this call encrypts with (None: the call does not encrypt)
        let effective_enc = match s {
            Step::AddData(_) => enc,
            Step::AddMixed(_, e) => *e,
            Step::AddEncrypted(_, e) => Some(*e),
            _ => None,
        };
        let unknown_type = effective_enc.is_some_and(|e| e.cipher != b'S' && e.cipher != b'A');
        let r = catch_unwind(AssertUnwindSafe(|| -> Result<BlteBuilder, String> {
            let b = std::mem::take(&mut builder);
            match s {
                Step::Compression(m) => Ok(b.with_compression(mode_of(*m))),
                Step::ChunkSize(v) => b.with_chunk_size(*v).map_err(|e| e.to_string()),
                Step::ChunkSizeUnchecked(v) => Ok(b.with_chunk_size_unchecked(*v)),
                Step::Encryption(e) => {
                    let (spec, key) = spec_of(p, *e);
                    Ok(b.with_encryption(spec, key))
                }
                Step::NoEncryption => Ok(b.without_encryption()),
                Step::AddData(i) => b.add_data(&p.payloads[*i].1).map_err(|e| e.to_string()),
                Step::AddMixed(i, e) => b.add_mixed_data(&p.payloads[*i].1, e.map(|e| spec_of(p, e))).map_err(|e| e.to_string()),
                Step::AddEncrypted(i, e) => {
                    let (spec, key) = spec_of(p, *e);
                    // documented correct use: block index = position the chunk will occupy
                    b.add_encrypted_data(&p.payloads[*i].1, spec, key, exp.len()).map_err(|e| e.to_string())
                }
                Step::AddChunk(i, m) => {
                    let c = ChunkData::new(p.payloads[*i].1.clone(), mode_of(*m)).map_err(|e| format!("ChunkData::new: {e}"))?;
                    Ok(b.add_chunk(c))
                }
                Step::AddChunkPre(i, m, known) => {
                    // compress with the library, then hand the compressed body back as a pre-compressed chunk
                    let c = ChunkData::new(p.payloads[*i].1.clone(), mode_of(*m)).map_err(|e| format!("ChunkData::new: {e}"))?;
                    let body = c.compressed_data()[1..].to_vec();
                    let pre = ChunkData::from_compressed(mode_of(*m), body, known.then_some(p.payloads[*i].1.len()));
                    Ok(b.add_chunk(pre))
                }
            }
        }));
        match r {
            Ok(Ok(b)) => {
                builder = b;
                if unknown_type {
                    // not a refusal: the container is judged like any other (it must decode to the added bytes)
                    loc.obs("unknown_encryption_type.accepted_and_judged", 1);
                }
            }
            Ok(Err(e)) => {
                if unknown_type {
                    loc.obs("unknown_encryption_type.refused", 1);
                }
                refused = Some((kind, e));
                break;
            }
            Err(pn) => {
                // neither Ok nor Err: outside the statement (robustness, C02) — visible, not judged
                loc.obs(&format!("observed.encoder_panicked.{kind}"), 1);
                if ctx.want_sample() {
                    ctx.sample(json!({"kind":"encoder call panicked (observation)","call":kind,"message":panic_text(&pn),"program":describe(p)}));
                }
                return;
            }
        }
        // model transition (only after an Ok)
        match s {
            Step::Compression(_) => {}
            Step::ChunkSize(v) | Step::ChunkSizeUnchecked(v) => cs = *v,
            Step::Encryption(e) => enc = Some(*e),
            Step::NoEncryption => enc = None,
            Step::AddData(i) => {
                for piece in split(&p.payloads[*i].1, cs) {
                    exp.push(ExpChunk { payload: piece, origin: if enc.is_some() { "add_data+with_encryption" } else { "add_data" }, cipher: enc.map_or(0, |e| e.cipher) });
                }
            }
            Step::AddMixed(i, e) => {
                for piece in split(&p.payloads[*i].1, cs) {
                    exp.push(ExpChunk { payload: piece, origin: if e.is_some() { "add_mixed_data(Some)" } else { "add_mixed_data(None)" }, cipher: e.map_or(0, |e| e.cipher) });
                }
            }
            Step::AddEncrypted(i, e) => exp.push(ExpChunk { payload: p.payloads[*i].1.clone(), origin: "add_encrypted_data", cipher: e.cipher }),
            Step::AddChunk(i, _) => exp.push(ExpChunk { payload: p.payloads[*i].1.clone(), origin: "add_chunk", cipher: 0 }),
            Step::AddChunkPre(i, _, known) => exp.push(ExpChunk { payload: p.payloads[*i].1.clone(), origin: if *known { "add_chunk(from_compressed,size-given)" } else { "add_chunk(from_compressed,size-unknown)" }, cipher: 0 }),
        }
    }
    let no_add_calls = !p.steps.iter().any(Step::is_add);
    if no_add_calls {
        loc.obs("programs.no_add_calls", 1);
    }
    if let Some((kind, e)) = refused {
        loc.obs(&format!("refused.{kind}"), 1);
        loc.obs(&format!("refused.reason.{}", err_class(&e)), 1);
        return;
    }
    let built = catch_unwind(AssertUnwindSafe(|| builder.build().map_err(|e| e.to_string())));
    let mut file = match built {
        Ok(Ok(f)) => f,
        Ok(Err(e)) => {
            if no_add_calls {
                loc.obs("programs.no_add_calls.build_refused", 1);
            }
            loc.obs("refused.build", 1);
            loc.obs(&format!("refused.reason.{}", err_class(&e)), 1);
            return;
        }
        Err(pn) => {
            loc.obs("observed.encoder_panicked.build", 1);
            if ctx.want_sample() {
                ctx.sample(json!({"kind":"encoder call panicked (observation)","call":"build","message":panic_text(&pn),"program":describe(p)}));
            }
            return;
        }
    };
    let mut entry: &'static str = "builder";
    if p.extended_table {
        match BlteHeader::multi_chunk_extended(&file.chunks) {
            Ok(h) => {
                file.header = h;
                entry = "builder+extended-table";
                loc.obs("finalize.extended_table", 1);
            }
            Err(_) => loc.obs("refused.multi_chunk_extended", 1),
        }
    }
    let bytes = match catch_unwind(AssertUnwindSafe(|| CascFormat::build(&file).map_err(|e| e.to_string()))) {
        Ok(Ok(b)) => b,
        Ok(Err(_)) => {
            loc.obs("refused.serialize", 1);
            return;
        }
        Err(_) => {
            loc.obs("observed.encoder_panicked.serialize", 1);
            return;
        }
    };
    loc.obs("programs.all_calls_ok", 1);
    if no_add_calls {
        loc.obs("programs.no_add_calls.accepted_and_judged", 1);
    }
    let any_enc = exp.iter().any(|c| c.cipher != 0);
    let adds = p.steps.iter().filter(|s| s.is_add()).count();
    if adds >= 2 || exp.len() >= 2 || any_enc {
        loc.hashes.push(program_hash(p));
        loc.obs("programs.nontrivial", 1);
    }
    if any_enc {
        loc.obs("programs.with_encrypted_chunks", 1);
    }
    if exp.len() >= 2 {
        loc.obs("programs.multi_chunk", 1);
    }
    if exp.windows(2).any(|w| (w[0].cipher != 0) != (w[1].cipher != 0)) {
        loc.obs("programs.mixed_plain_and_encrypted", 1);
    }
    for c in &exp {
        if c.cipher != 0 {
            loc.obs(&format!("encrypted_chunk.{}.{}", c.origin, cipher_name(c.cipher)), 1);
        }
    }
    let detail = json!({"coords": coords, "program": describe(p)});
    let case = Case { entry, container: &bytes, keys: &p.keys, expected: &exp, tolerate_dck_on_encrypted: p.extended_table, detail };
    judge(ctx, loc, pylog, &case);
    if any_enc && exp.len() >= 2 && ctx.want_sample() {
        ctx.sample(json!({"kind":"judged builder program","program":describe(p),"container_len":bytes.len(),"chunks":exp.len(),"coords":coords}));
    }
}

// ------------------------------------------------------------------ other entry points

fn run_direct(ctx: &Ctx, loc: &mut Local, pylog: &Mutex<PyLog>, rng: &mut Rng, coords: &Value) {
    loc.evals += 1;
    let which = rng.below(3);
    let mode_b = if rng.chance(1, 30) { *rng.pick(b"EF") } else { *rng.pick(b"NZ4") };
    let mode = mode_of(mode_b);
    match which {
        0 => {
            // BlteFile::compress(data, chunk_size, mode)
            let cs = match rng.below(4) {
                0 => rng.urange(1, 16),
                1 => 1usize << rng.urange(0, 16),
                2 => rng.urange(1, 5000),
                _ => DEFAULT_CHUNK,
            };
            let (class, data) = gen_payload(rng, cs, true);
            loc.obs("op.BlteFile::compress", 1);
            loc.obs(&format!("payload.{class}"), 1);
            let r = catch_unwind(AssertUnwindSafe(|| -> Result<(usize, Vec<u8>), String> {
                let f = BlteFile::compress(&data, cs, mode).map_err(|e| e.to_string())?;
                Ok((f.chunks.len(), CascFormat::build(&f).map_err(|e| e.to_string())?))
            }));
            match r {
                Ok(Ok((_n, bytes))) => {
                    let exp: Vec<ExpChunk> = split(&data, cs).into_iter().map(|piece| ExpChunk { payload: piece, origin: "BlteFile::compress", cipher: 0 }).collect();
                    if exp.len() >= 2 {
                        loc.hashes.push(mix64(fnv64(b"compress"), mix64(fnv64(&data), mix64(cs as u64, u64::from(mode_b)))));
                    }
                    let detail = json!({"coords":coords,"call":"BlteFile::compress","chunk_size":cs,"mode":char::from(mode_b).to_string(),"payload_class":class,"payload_len":data.len(),"payload_head":hex_short(&data,32)});
                    judge(ctx, loc, pylog, &Case { entry: "BlteFile::compress", container: &bytes, keys: &[], expected: &exp, tolerate_dck_on_encrypted: false, detail });
                }
                Ok(Err(_)) => loc.obs("refused.BlteFile::compress", 1),
                Err(_) => loc.obs("observed.encoder_panicked.BlteFile::compress", 1),
            }
        }
        1 => {
            let (class, data) = gen_payload(rng, 64 * 1024, false);
            loc.obs("op.BlteFile::single_chunk", 1);
            loc.obs(&format!("payload.{class}"), 1);
            let r = catch_unwind(AssertUnwindSafe(|| BlteFile::single_chunk(data.clone(), mode).map_err(|e| e.to_string()).and_then(|f| CascFormat::build(&f).map_err(|e| e.to_string()))));
            match r {
                Ok(Ok(bytes)) => {
                    let exp = vec![ExpChunk { payload: data.clone(), origin: "BlteFile::single_chunk", cipher: 0 }];
                    let detail = json!({"coords":coords,"call":"BlteFile::single_chunk","mode":char::from(mode_b).to_string(),"payload_class":class,"payload_len":data.len(),"payload_head":hex_short(&data,32)});
                    judge(ctx, loc, pylog, &Case { entry: "BlteFile::single_chunk", container: &bytes, keys: &[], expected: &exp, tolerate_dck_on_encrypted: false, detail });
                }
                Ok(Err(_)) => loc.obs("refused.BlteFile::single_chunk", 1),
                Err(_) => loc.obs("observed.encoder_panicked.BlteFile::single_chunk", 1),
            }
        }
        _ => {
            // BlteFile::multi_chunk(vec![ChunkData::new(..)]) with per-chunk modes
            let n = rng.urange(1, 6);
            let mut datas = Vec::new();
            let mut modes = Vec::new();
            for _ in 0..n {
                let (class, d) = gen_payload(rng, 8 * 1024, false);
                loc.obs(&format!("payload.{class}"), 1);
                datas.push(d);
                modes.push(*rng.pick(b"NZ4"));
            }
            loc.obs("op.BlteFile::multi_chunk", 1);
            let r = catch_unwind(AssertUnwindSafe(|| -> Result<Vec<u8>, String> {
                let mut chunks = Vec::new();
                for (d, m) in datas.iter().zip(&modes) {
                    chunks.push(ChunkData::new(d.clone(), mode_of(*m)).map_err(|e| e.to_string())?);
                }
                let f = BlteFile::multi_chunk(chunks).map_err(|e| e.to_string())?;
                CascFormat::build(&f).map_err(|e| e.to_string())
            }));
            match r {
                Ok(Ok(bytes)) => {
                    let exp: Vec<ExpChunk> = datas.iter().map(|d| ExpChunk { payload: d.clone(), origin: "BlteFile::multi_chunk", cipher: 0 }).collect();
                    if n >= 2 {
                        let mut h = fnv64(b"multi_chunk");
                        for d in &datas {
                            h = mix64(h, fnv64(d));
                        }
                        loc.hashes.push(mix64(h, fnv64(&modes)));
                    }
                    let detail = json!({"coords":coords,"call":"BlteFile::multi_chunk","modes":String::from_utf8_lossy(&modes),"payload_lens":datas.iter().map(Vec::len).collect::<Vec<_>>()});
                    judge(ctx, loc, pylog, &Case { entry: "BlteFile::multi_chunk", container: &bytes, keys: &[], expected: &exp, tolerate_dck_on_encrypted: false, detail });
                }
                Ok(Err(_)) => loc.obs("refused.BlteFile::multi_chunk", 1),
                Err(_) => loc.obs("observed.encoder_panicked.BlteFile::multi_chunk", 1),
            }
        }
    }
}

/// Chunk-level primitives: compress_chunk/decompress_chunk and encrypt/decrypt of
/// an inner chunk (mode byte + body, the layout the builder and the format use).
fn run_primitives(ctx: &Ctx, loc: &mut Local, rng: &mut Rng, coords: &Value) {
    loc.evals += 1;
    let (class, data) = genx::payload(rng, 16 * 1024);
    loc.obs("op.chunk_primitives", 1);
    for m in *b"NZ4" {
        let mode = mode_of(m);
        let Ok(Ok(comp)) = catch_unwind(AssertUnwindSafe(|| compress_chunk(&data, mode))) else {
            loc.obs("refused.compress_chunk", 1);
            continue;
        };
        let back = catch_unwind(AssertUnwindSafe(|| decompress_chunk(&comp, mode).map_err(|e| e.to_string())));
        if !matches!(&back, Ok(Ok(v)) if *v == data) {
            ctx.violation(
                &format!("C01|compress_chunk|decompress_chunk(compress_chunk(x))!=x|mode={}", char::from(m)),
                "chunk-level compression round trip is not the identity",
                json!({"coords":coords,"mode":char::from(m).to_string(),"payload_class":class,"payload_len":data.len(),"payload_head":hex_short(&data,32),"result":format!("{back:?}").chars().take(200).collect::<String>()}),
            );
        }
        // interoperability of the body: mode byte + body must be a chunk for the independent decoder
        let mut container = b"BLTE\0\0\0\0".to_vec();
        container.push(m);
        container.extend_from_slice(&comp);
        let none = |_: u64| None;
        match rblte::decode(&container, &none) {
            Ok(d) if d.content() == data => loc.obs("outcome.primitive_body_ref_decodes", 1),
            other => ctx.violation(
                &format!("C01|compress_chunk|ref-decoder-disagrees-on-chunk-body|mode={}", char::from(m)),
                "an independent decoder does not read the compressed chunk body back to the input",
                json!({"coords":coords,"mode":char::from(m).to_string(),"payload_class":class,"payload_len":data.len(),"ref":match other { Ok(d) => format!("Ok({} bytes)", d.content().len()), Err(e) => format!("Err {e}") }}),
            ),
        }
        // encrypted inner chunk
        let name = rng.next_u64();
        let key = rng.array::<16>();
        let iv = rng.array::<4>();
        let bi = rng.urange(0, 70_000);
        let mut store = TactKeyStore::empty();
        store.add(TactKey::new(name, key));
        let unknown = *rng.pick(&UNKNOWN_ENC_TYPES);
        for cipher in [b'S', b'A', unknown] {
            let spec = match cipher {
                b'A' => EncryptionSpec::arc4(name, iv),
                b'S' => EncryptionSpec::salsa20(name, iv),
                other => EncryptionSpec { key_name: name, iv, encryption_type: other },
            };
            // the spec's own classification must be the cipher it was constructed for (the type byte is what is written
            // into the chunk and what the decoder dispatches on)
            if spec.is_salsa20() != (cipher == b'S') || spec.is_arc4() != (cipher == b'A') {
                ctx.violation(
                    &format!("C01|EncryptionSpec|is_salsa20()/is_arc4()-disagree-with-constructor|cipher={}", cipher_name(cipher)),
                    "EncryptionSpec::is_salsa20 / is_arc4 do not report the cipher the spec was constructed for",
                    json!({"coords":coords,"type_byte":cipher,"is_salsa20()":spec.is_salsa20(),"is_arc4()":spec.is_arc4()}),
                );
            }
            let mut inner = vec![m];
            inner.extend_from_slice(&comp);
            let Ok(Ok(ct)) = catch_unwind(AssertUnwindSafe(|| encrypt_chunk_with_key(&inner, spec, &key, bi))) else {
                loc.obs("refused.encrypt_chunk_with_key", 1);
                if cipher == unknown {
                    loc.obs("unknown_encryption_type.refused", 1);
                }
                continue;
            };
            if cipher == unknown {
                // not refused: judged like the known ciphers (must decrypt back to the payload)
                loc.obs("unknown_encryption_type.accepted_and_judged", 1);
            }
            let back = catch_unwind(AssertUnwindSafe(|| decrypt_chunk_with_keys(&ct, &store, bi).map_err(|e| e.to_string())));
            if !matches!(&back, Ok(Ok(v)) if *v == data) {
                ctx.violation(
                    &format!("C01|encrypt_chunk_with_key|decrypt(encrypt(mode-byte+body))!=payload|cipher={},inner={},{}", cipher_name(cipher), char::from(m), if data.is_empty() { "payload=empty" } else { "payload=nonempty" }),
                    "an encrypted inner chunk (mode byte + body) does not decrypt back to the payload",
                    json!({"coords":coords,"cipher":cipher_name(cipher),"inner_mode":char::from(m).to_string(),"block_index":bi,"payload_class":class,"payload_len":data.len(),"payload_head":hex_short(&data,32),"result":format!("{back:?}").chars().take(200).collect::<String>()}),
                );
            } else {
                loc.obs("outcome.primitive_encrypt_roundtrip_ok", 1);
            }
            // raw plaintext without a mode byte: what the decoder should do is not
            // stated by the property (the format always has an inner mode byte) — recorded only
            if m == b'N' {
                if let Ok(Ok(ct)) = catch_unwind(AssertUnwindSafe(|| encrypt_chunk_with_key(&data, spec, &key, bi))) {
                    match catch_unwind(AssertUnwindSafe(|| decrypt_chunk_with_keys(&ct, &store, bi))) {
                        Ok(Ok(v)) if v == data => loc.obs("observed.raw_plaintext_without_mode_byte.roundtrip_same", 1),
                        _ => loc.obs("observed.raw_plaintext_without_mode_byte.roundtrip_differs_or_errs", 1),
                    }
                }
            }
        }
    }
}

// ------------------------------------------------------------------ main

const STREAM_PROGRAM: u64 = 1;
const STREAM_DIRECT: u64 = 2;
const STREAM_PRIM: u64 = 3;

fn run_coords(ctx: &Ctx, loc: &mut Local, pylog: &Mutex<PyLog>, stream: u64, idx: u64) {
    let mut rng = ctx.rng(mix64(stream, idx));
    let coords = json!({"stream":stream,"idx":idx});
    match stream {
        STREAM_PROGRAM => {
            let p = gen_program(&mut rng);
            run_program(ctx, loc, pylog, &p, &coords);
        }
        STREAM_DIRECT => run_direct(ctx, loc, pylog, &mut rng, &coords),
        _ => run_primitives(ctx, loc, &mut rng, &coords),
    }
}

/// Encoder calls with nothing to encode: each must refuse, or return a container that decodes to the empty string
/// (and whose table is truthful). Deterministic, run once.
fn empty_encoder_cases(ctx: &Ctx, loc: &mut Local, pylog: &Mutex<PyLog>) {
    type Made = Result<Result<Vec<u8>, String>, Box<dyn std::any::Any + Send>>;
    let ser = |f: BlteFile| CascFormat::build(&f).map_err(|e| e.to_string());
    let cases: Vec<(&'static str, Made)> = vec![
        ("BlteBuilder::build(no-chunks)", catch_unwind(AssertUnwindSafe(|| BlteBuilder::new().build().map_err(|e| e.to_string()).and_then(ser)))),
        (
            "BlteBuilder::build(no-chunks,encryption-set)",
            catch_unwind(AssertUnwindSafe(|| {
                BlteBuilder::new().with_compression(CompressionMode::ZLib).with_encryption(EncryptionSpec::salsa20(7, [1, 2, 3, 4]), [9u8; 16]).build().map_err(|e| e.to_string()).and_then(ser)
            })),
        ),
        ("BlteFile::multi_chunk(no-chunks)", catch_unwind(AssertUnwindSafe(|| BlteFile::multi_chunk(Vec::new()).map_err(|e| e.to_string()).and_then(ser)))),
        (
            "BlteHeader::multi_chunk(no-chunks)",
            catch_unwind(AssertUnwindSafe(|| BlteHeader::multi_chunk(&[]).map_err(|e| e.to_string()).and_then(|h| ser(BlteFile { header: h, chunks: Vec::new() })))),
        ),
        (
            "BlteHeader::multi_chunk_extended(no-chunks)",
            catch_unwind(AssertUnwindSafe(|| BlteHeader::multi_chunk_extended(&[]).map_err(|e| e.to_string()).and_then(|h| ser(BlteFile { header: h, chunks: Vec::new() })))),
        ),
    ];
    for (entry, made) in cases {
        loc.evals += 1;
        loc.obs("empty_encoder.cases", 1);
        match made {
            Ok(Ok(bytes)) => {
                loc.obs(&format!("empty_encoder.accepted_and_judged.{entry}"), 1);
                let detail = json!({"coords":{"empty_encoder":entry},"call":entry});
                judge(ctx, loc, pylog, &Case { entry, container: &bytes, keys: &[], expected: &[], tolerate_dck_on_encrypted: false, detail });
            }
            Ok(Err(e)) => {
                loc.obs(&format!("empty_encoder.refused.{entry}"), 1);
                loc.obs(&format!("refused.reason.{}", err_class(&e)), 1);
            }
            Err(_) => loc.obs(&format!("observed.encoder_panicked.{entry}"), 1),
        }
    }
}

/// Hand-written regression programs for the compositions the unit tests never make.
fn fixed_programs() -> Vec<Program> {
    let key = (0x1234_5678_90AB_CDEFu64, [0x42u8; 16]);
    let e = |c: u8| Enc { cipher: c, key_idx: 0, iv: [0x11, 0x22, 0x33, 0x44] };
    let pl = |v: &[u8]| ("fixed".to_string(), v.to_vec());
    let mut out = Vec::new();
    for c in *b"SA" {
        // with_encryption + two add_data calls
        out.push(Program { keys: vec![key], payloads: vec![pl(b"first payload"), pl(b"second payload")], steps: vec![Step::Encryption(e(c)), Step::AddData(0), Step::AddData(1)], extended_table: false });
        // plain chunk, then encrypted add_data (chunk position 1, per-call index 0)
        out.push(Program { keys: vec![key], payloads: vec![pl(b"plain"), pl(b"secret")], steps: vec![Step::AddData(0), Step::Encryption(e(c)), Step::AddData(1)], extended_table: false });
        // multi-chunk add_data after another chunk
        out.push(Program { keys: vec![key], payloads: vec![pl(b"x"), pl(b"0123456789abcdefghij")], steps: vec![Step::ChunkSizeUnchecked(7), Step::AddData(0), Step::Encryption(e(c)), Step::AddData(1)], extended_table: false });
        // empty payload, encrypted, every inner mode
        for m in *b"NZ4" {
            out.push(Program { keys: vec![key], payloads: vec![pl(b"")], steps: vec![Step::Compression(m), Step::Encryption(e(c)), Step::AddData(0)], extended_table: false });
            out.push(Program { keys: vec![key], payloads: vec![pl(b"abc"), pl(b"")], steps: vec![Step::Compression(m), Step::AddData(0), Step::AddEncrypted(1, e(c))], extended_table: false });
            out.push(Program { keys: vec![key], payloads: vec![pl(b"NZ4EF-payload-starting-with-mode-bytes"), pl(b"E"), pl(b"F")], steps: vec![Step::Compression(m), Step::Encryption(e(c)), Step::AddData(0), Step::AddMixed(1, Some(e(c))), Step::AddEncrypted(2, e(c))], extended_table: false });
        }
    }
    out
}

// ---------------------------------------------------------------------------------------------
// chunk size 0 ("all chunk sizes"): an encoder call must come back — with an error, or with a container that decodes to
// what was added. A call that loops forever cannot be observed from inside the process, so the three chunking entry
// points are called in a CHILD process (this binary, `--zero-chunk-probe <call>`) under an address-space limit and a
// deadline; the parent judges what the child printed, or that it never answered.

const ZERO_CHUNK_CALLS: [&str; 3] = ["BlteBuilder::add_data", "BlteBuilder::add_mixed_data", "BlteFile::compress"];

fn zero_chunk_child(call: &str) -> ! {
    // 1 GiB of address space is plenty for a 300-byte payload
    let lim = libc::rlimit { rlim_cur: 1 << 30, rlim_max: 1 << 30 };
    // SAFETY: plain setrlimit call with a valid struct
    unsafe {
        libc::setrlimit(libc::RLIMIT_AS, &lim);
    }
    let data: Vec<u8> = (0..300u32).map(|i| (i * 7 + 3) as u8).collect();
    let r: Result<Vec<u8>, String> = match call {
        "BlteBuilder::add_data" => BlteBuilder::new().with_chunk_size_unchecked(0).add_data(&data).and_then(BlteBuilder::build).map_err(|e| e.to_string()).and_then(|f| CascFormat::build(&f).map_err(|e| e.to_string())),
        "BlteBuilder::add_mixed_data" => BlteBuilder::new().with_chunk_size_unchecked(0).add_mixed_data(&data, None).and_then(BlteBuilder::build).map_err(|e| e.to_string()).and_then(|f| CascFormat::build(&f).map_err(|e| e.to_string())),
        _ => BlteFile::compress(&data, 0, CompressionMode::None).map_err(|e| e.to_string()).and_then(|f| CascFormat::build(&f).map_err(|e| e.to_string())),
    };
    match r {
        Err(e) => println!("ZC err {}", e.replace('\n', " ")),
        Ok(bytes) => {
            let none = |_: u64| None;
            match rblte::decode(&bytes, &none) {
                Ok(d) if d.content() == data => println!("ZC ok-decodes-to-input {}", bytes.len()),
                Ok(d) => println!("ZC ok-decodes-to-other {} {}", bytes.len(), d.content().len()),
                Err(e) => println!("ZC ok-undecodable {}", e.replace('\n', " ")),
            }
        }
    }
    std::process::exit(0);
}

fn zero_chunk_probe(ctx: &Ctx) {
    let Ok(exe) = std::env::current_exe() else { return ctx.inconclusive("zero-chunk probe: current_exe") };
    for call in ZERO_CHUNK_CALLS {
        let child = std::process::Command::new(&exe).arg("--zero-chunk-probe").arg(call).stdout(std::process::Stdio::piped()).stderr(std::process::Stdio::null()).spawn();
        let Ok(mut child) = child else { return ctx.inconclusive("zero-chunk probe: spawn") };
        let t0 = std::time::Instant::now();
        let status = loop {
            match child.try_wait() {
                Ok(Some(st)) => break Some(st),
                Ok(None) if t0.elapsed() > std::time::Duration::from_secs(20) => {
                    let _ = child.kill();
                    let _ = child.wait();
                    break None;
                }
                Ok(None) => std::thread::sleep(std::time::Duration::from_millis(20)),
                Err(_) => break None,
            }
        };
        let mut out = String::new();
        if let Some(mut so) = child.stdout.take() {
            use std::io::Read;
            let _ = so.read_to_string(&mut out);
        }
        ctx.eval_nontrivial(mix64(fnv64(b"zero-chunk"), fnv64(call.as_bytes())));
        let line = out.lines().find(|l| l.starts_with("ZC ")).unwrap_or("");
        let detail = json!({"call": call, "chunk_size": 0, "payload_len": 300, "child_output": line, "child_status": format!("{status:?}"), "elapsed_ms": t0.elapsed().as_millis() as u64, "replay": "c01 --zero-chunk-probe <call> (runs the call alone under a 1 GiB address-space limit)"});
        if line.starts_with("ZC err") {
            ctx.obs(&format!("zero_chunk_size.{call}.refused"), 1);
        } else if line.starts_with("ZC ok-decodes-to-input") {
            ctx.obs(&format!("zero_chunk_size.{call}.ok-decodes-to-input"), 1);
        } else if line.starts_with("ZC ok") {
            ctx.violation(&format!("C01|{call}|container-does-not-decode-to-added-bytes|chunk_size=0"), "with chunk size 0 the call returned a container that does not decode to the data", detail);
        } else {
            // no answer: the child was killed at the deadline or died on the address-space limit
            ctx.violation(&format!("C01|{call}|call-never-returns|chunk_size=0"), "with chunk size 0 and non-empty data the call neither returns an error nor a container (endless chunk loop: killed at the 20 s deadline or by the 1 GiB address-space limit)", detail);
        }
    }
}

fn main() {
    {
        let a: Vec<String> = std::env::args().collect();
        if let Some(i) = a.iter().position(|x| x == "--zero-chunk-probe") {
            zero_chunk_child(a.get(i + 1).map_or("", String::as_str));
        }
    }
    let ctx = Ctx::init("C01", "exploration");
    ctx.set_rule("a case is a generated builder program (1-8 calls over with_compression / with_chunk_size(_unchecked) / with_encryption / without_encryption / add_data / add_mixed_data / add_encrypted_data / add_chunk, payload classes of DESIGN 4.1, sizes at chunk boundaries), or one call of BlteFile::compress / single_chunk / multi_chunk, or one chunk-primitive round trip; judged only if every encoder call returned Ok; non-trivial = >= 2 add calls or >= 2 chunks or an encrypted chunk; distinct by hash of (calls, parameters, payload bytes, keys)");
    ctx.assume("vh::refimpl::blte (own header/table parser, own LZ4 block decoder, own Salsa20/RC4, zlib via flate2, MD5 via the md5 crate) decodes BLTE correctly; its primitives are anchored by published vectors at start-up and it is re-checked by the Python decoder pyref/c01.py over a sample of the same container bytes");
    ctx.assume("add_encrypted_data is called with block_index = position the chunk will occupy (documented correct use); the harness predicts that position from the documented chunking rule and the check reports a chunk-count mismatch separately");
    if let Err(e) = vh::refimpl::self_test_all() {
        ctx.inconclusive(&format!("reference self-test failed: {e}"));
        ctx.finish();
    }
    if ctx.replay.is_none() {
        zero_chunk_probe(&ctx);
    }

    let tdir = std::env::var("CARGO_TARGET_DIR").unwrap_or_else(|_| "/verif/harness/target".to_string());
    let _ = std::fs::create_dir_all(&tdir);
    let log_path = format!("{tdir}/c01-events.jsonl");
    let replaying = ctx.replay.is_some();
    let pylog = Mutex::new(PyLog {
        file: if replaying { None } else { std::fs::File::create(&log_path).ok().map(std::io::BufWriter::new) },
        every: ctx.pick(61, 23),
        n: 0,
        written: 0,
        bytes: 0,
        byte_budget: ctx.pick(6 << 20, 256 << 20),
        max_container: ctx.pick(48 * 1024, 128 * 1024),
    });

    // ---- replay of one recorded witness
    if let Some(d) = ctx.replay_detail() {
        let mut loc = Local::default();
        let c = d.get("coords").cloned().unwrap_or(Value::Null);
        if let Some(i) = c.get("fixed").and_then(Value::as_u64) {
            if let Some(p) = fixed_programs().get(i as usize) {
                run_program(&ctx, &mut loc, &pylog, p, &c);
            }
        } else if c.get("empty_encoder").is_some() {
            empty_encoder_cases(&ctx, &mut loc, &pylog);
        } else if let (Some(s), Some(i)) = (c.get("stream").and_then(Value::as_u64), c.get("idx").and_then(Value::as_u64)) {
            run_coords(&ctx, &mut loc, &pylog, s, i);
        } else {
            ctx.inconclusive("replay file carries no case coordinates");
        }
        // the floor of two distinct cases does not apply to a single replayed case
        loc.hashes.push(1);
        loc.hashes.push(2);
        loc.flush(&ctx);
        ctx.finish();
    }

    // ---- fixed regression programs
    {
        let mut loc = Local::default();
        for (i, p) in fixed_programs().iter().enumerate() {
            loc.obs("programs.fixed", 1);
            run_program(&ctx, &mut loc, &pylog, p, &json!({"fixed": i}));
        }
        empty_encoder_cases(&ctx, &mut loc, &pylog);
        loc.flush(&ctx);
    }

    // ---- generated workload
    let threads = 16u64;
    let n_programs: u64 = ctx.pick(24_000, 200_000);
    let n_direct: u64 = ctx.pick(5_000, 40_000);
    let n_prim: u64 = ctx.pick(2_500, 20_000);
    std::thread::scope(|s| {
        for t in 0..threads {
            let (ctx, pylog) = (&ctx, &pylog);
            s.spawn(move || {
                let mut loc = Local::default();
                for (stream, n) in [(STREAM_PROGRAM, n_programs), (STREAM_DIRECT, n_direct), (STREAM_PRIM, n_prim)] {
                    for idx in (0..n).filter(|i| i % threads == t) {
                        run_coords(ctx, &mut loc, pylog, stream, idx);
                        if idx % 256 == t {
                            loc.flush(ctx);
                        }
                    }
                }
                loc.flush(ctx);
            });
        }
    });
    let t_gen = ctx.elapsed_s();

    // ---- minimum evidence: the compositions the property is about must have been judged
    for (k, why) in [
        ("programs.all_calls_ok", "no builder program completed with Ok"),
        ("programs.with_encrypted_chunks", "no program with encrypted chunks was judged"),
        ("programs.mixed_plain_and_encrypted", "no program mixing plain and encrypted chunks was judged"),
        ("encrypted_chunk.add_data+with_encryption.salsa20", "no Salsa20 chunk produced by add_data under with_encryption was judged"),
        ("encrypted_chunk.add_data+with_encryption.arc4", "no ARC4 chunk produced by add_data under with_encryption was judged"),
        ("encrypted_chunk.add_mixed_data(Some).salsa20", "no Salsa20 chunk produced by add_mixed_data was judged"),
        ("encrypted_chunk.add_encrypted_data.salsa20", "no Salsa20 chunk produced by add_encrypted_data was judged"),
        ("chunk.stored_mode.Z", "no zlib chunk was decoded by the independent decoder"),
        ("chunk.stored_mode.4", "no LZ4 chunk was decoded by the independent decoder"),
        ("table.entries_checked", "no chunk table entry was checked"),
        ("table.extended_entries_checked", "no extended (0x10) chunk table entry was checked"),
        ("accessors.headers_checked", "no header accessor (chunk_count / data_offset / total_header_size) was compared with the serialized bytes"),
        ("accessors.chunks_checked", "no chunk accessor (compressed_size / verify_checksum) was compared with the serialized chunk"),
        ("empty_encoder.cases", "the encoder calls without any chunk were not exercised"),
        ("programs.no_add_calls", "no builder program without an add call was generated"),
        ("op.BlteFile::compress", "BlteFile::compress was never called"),
        ("op.BlteFile::single_chunk", "BlteFile::single_chunk was never called"),
        ("embedded.table=present", "no container with a chunk table was read through the reader entry point from inside a larger stream"),
        ("embedded.table=none", "no container without chunk table was read through the reader entry point from inside a larger stream"),
    ] {
        if ctx.get_obs(k) == 0 {
            ctx.inconclusive(&format!("{why} (observation {k} = 0)"));
        }
    }

    if ctx.get_obs("unknown_encryption_type.refused") + ctx.get_obs("unknown_encryption_type.accepted_and_judged") == 0 {
        ctx.inconclusive("no encrypting call with an encryption type other than Salsa20/ARC4 was made");
    }

    let written = {
        let mut g = pylog.lock().unwrap_or_else(std::sync::PoisonError::into_inner);
        if let Some(f) = g.file.as_mut() {
            let _ = f.flush();
        }
        g.file = None;
        g.written
    };
    ctx.obs("event_log_lines", written);
    python_crosscheck(&ctx, &log_path, written);
    let r = |x: f64| (x * 10.0).round() / 10.0;
    ctx.set_extra("phase_seconds", json!({"generated_workload":r(t_gen),"python":r(ctx.elapsed_s() - t_gen)}));
    ctx.finish();
}

fn python_crosscheck(ctx: &Ctx, log_path: &str, written: u64) {
    if written == 0 {
        ctx.inconclusive("event log empty: nothing for the Python cross-check");
        return;
    }
    let out = std::process::Command::new("python3").arg("/verif/pyref/c01.py").arg(log_path).arg("16").output();
    match out {
        Ok(o) => {
            let text = String::from_utf8_lossy(&o.stdout).to_string();
            let mut checked = 0u64;
            let mut disagreements = 0u64;
            for line in text.lines() {
                if let Some(rest) = line.strip_prefix("CHECKED ") {
                    checked = rest.trim().parse().unwrap_or(0);
                }
                if line.starts_with("DISAGREE ") {
                    disagreements += 1;
                    if ctx.want_sample() {
                        ctx.sample(json!({"kind":"python vs rust reference disagreement","line":line}));
                    }
                }
            }
            ctx.obs("python_crosscheck.containers_checked", checked);
            ctx.obs("python_crosscheck.disagreements_with_rust_reference", disagreements);
            if disagreements > 0 {
                ctx.inconclusive("the Python BLTE decoder and the Rust reference decoder disagree on a logged container (reference problem, not a verdict)");
            }
            if !o.status.success() && disagreements == 0 {
                ctx.inconclusive(&format!("python cross-check failed to run: {}", String::from_utf8_lossy(&o.stderr).lines().last().unwrap_or("")));
            } else if checked == 0 {
                ctx.inconclusive("python cross-check checked 0 containers");
            }
        }
        Err(e) => ctx.inconclusive(&format!("python3 not runnable: {e}")),
    }
}
