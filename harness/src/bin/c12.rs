//! C12 — layered caching is coherent, validated, and always returns.
//!
//! Histories of 10-80 operations are executed against `MultiLayerCacheImpl`
//! (memory L1 with max_entries 1-3, memory or disk L2/L3, every promotion
//! strategy, MD5 validation hooks), interleaved with corruption / truncation /
//! deletion of the disk layers' files. EVERY call into the cache runs on a
//! worker thread under a 5 s watchdog; a call that does not return is
//! re-executed from the recorded history twice on fresh instances and only then
//! reported as a hang. Layer contents are OBSERVED with `get_from_layer` probes
//! around each read, so eviction never has to be predicted:
//!
//!  * `get` == first non-empty layer in order (probes taken right before it);
//!  * every layer returns the latest value written to that layer, or nothing;
//!  * after `remove` / `clear` no layer answers for the key;
//!  * a validated read returns bytes hashing to the supplied key or an
//!    error / nothing, and the entry found corrupted is served by no layer afterwards.
//!
//! `--replay FILE` re-executes the history stored in the witness file.

use bytes::Bytes;
use cascette_cache::config::{DiskCacheConfig, MemoryCacheConfig, MultiLayerCacheConfig, PromotionStrategy};
use cascette_cache::key::RibbitKey;
use cascette_cache::traits::MultiLayerCache;
use cascette_cache::validation::{Md5ValidationHooks, NgdpValidationHooks, NoOpValidationHooks, ValidationHooks, ValidationResult};
use cascette_cache::{AsyncCache, EvictionPolicy, MultiLayerCacheImpl};
use cascette_crypto::ContentKey;
use serde::{Deserialize, Serialize};
use serde_json::json;
use std::collections::BTreeMap;
use std::path::{Path, PathBuf};
use std::sync::atomic::{AtomicU32, Ordering};
use std::sync::{Arc, Mutex};
use std::time::Duration;
use tokio::runtime::Runtime;
use vh::monitor::watchdog::{Outcome, run_with_timeout};
use vh::{Ctx, Rng, fnv64, hex_short};

const CALL_LIMIT: Duration = Duration::from_secs(5);
const RERUN_LIMIT: Duration = Duration::from_secs(8);

#[derive(Clone, Debug, Serialize, Deserialize)]
enum LayerKind {
    Memory { max_entries: usize, policy: String },
    Disk { subdir_levels: usize },
}

#[derive(Clone, Debug, Serialize, Deserialize)]
enum Strategy {
    OnHit,
    AfterNHits(u32),
    Frequency { threshold_milli: u64 },
    Age { min_age_ms: u64 },
    Manual,
}

#[derive(Clone, Debug, Serialize, Deserialize)]
struct Cfg {
    layers: Vec<LayerKind>,
    strategy: Strategy,
    /// disk layers run their cleanup task every 25 ms (exercised by `Settle`)
    short_cleanup: bool,
    /// which validation hooks are installed
    #[serde(default)]
    hooks: Hooks,
}

/// Validation hooks installed in the cache under test.
#[derive(Clone, Copy, Debug, Default, Serialize, Deserialize, PartialEq, Eq)]
enum Hooks {
    /// `Md5ValidationHooks`
    #[default]
    Md5,
    /// `NgdpValidationHooks::new()` (delegates to the MD5 hooks)
    Ngdp,
    /// `NgdpValidationHooks::with_tact_key(..).with_jenkins96_validation()`
    NgdpTactJenkins,
    /// hooks of the harness: MD5 comparison, a mismatch is reported as `Err(CacheError)`; no metrics
    StrictErr,
    /// hooks of the harness: MD5 comparison, a mismatch is reported as `Ok(invalid)`; no metrics
    SoftInvalid,
    /// `NoOpValidationHooks` — documented as "performs no actual validation": nothing is demanded of validated calls
    NoOp,
    /// no hooks installed (`set_validation_hooks` never called): the statement's condition "when validation
    /// hooks ... are supplied" does not hold, nothing is demanded of validated calls
    Unset,
}

impl Hooks {
    /// hooks that compare content with its key are installed
    fn validating(self) -> bool {
        !matches!(self, Hooks::NoOp | Hooks::Unset)
    }
    fn name(self) -> &'static str {
        match self {
            Hooks::Md5 => "Md5ValidationHooks",
            Hooks::Ngdp => "NgdpValidationHooks",
            Hooks::NgdpTactJenkins => "NgdpValidationHooks(tact-key,jenkins96)",
            Hooks::StrictErr => "harness-hooks(mismatch=Err)",
            Hooks::SoftInvalid => "harness-hooks(mismatch=Ok(invalid))",
            Hooks::NoOp => "NoOpValidationHooks",
            Hooks::Unset => "none",
        }
    }
}

/// Harness hooks: the MD5 comparison every validating implementation has to perform, with the two ways a
/// `ValidationHooks` implementation can report a mismatch; `get_metrics` stays at the trait's default (`None`).
struct HarnessHooks {
    mismatch_is_err: bool,
}

#[async_trait::async_trait]
impl ValidationHooks for HarnessHooks {
    async fn validate_content(&self, content_key: &ContentKey, data: &[u8]) -> cascette_cache::CacheResult<ValidationResult> {
        let ok = md5::compute(data).0 == *content_key.as_bytes();
        if ok {
            Ok(ValidationResult::valid(Duration::ZERO, Duration::ZERO, data.len()))
        } else if self.mismatch_is_err {
            Err(cascette_cache::CacheError::ContentValidationFailed("harness hooks: content does not hash to its key".to_string()))
        } else {
            Ok(ValidationResult::invalid(Duration::ZERO, Duration::ZERO, data.len()))
        }
    }
}

#[derive(Clone, Copy, Debug, Serialize, Deserialize, PartialEq, Eq)]
enum Damage {
    FlipByte,
    Truncate,
    Delete,
    Replace,
    /// the file is replaced by a directory of the same name: the layer's next read of it FAILS (EISDIR)
    /// instead of reporting a miss
    MakeDirectory,
}

/// Pattern of a `search_content` call, made concrete from the value the layers are observed to hold.
#[derive(Clone, Copy, Debug, Serialize, Deserialize, PartialEq, Eq)]
enum Pat {
    /// `len` bytes of the value starting at `off` (modulo its length)
    FromValue { off: usize, len: usize },
    /// the value's last byte, `len` times (values are long runs of one byte: many overlapping matches)
    Fill { len: usize },
    /// bytes that no generated value contains
    Absent { len: usize },
}

/// Top-level read used by `BreakThenRead`.
#[derive(Clone, Copy, Debug, Serialize, Deserialize, PartialEq, Eq)]
enum ReadKind {
    Get,
    GetValidatedNoKey,
    BatchGet,
    Search,
}

#[derive(Clone, Debug, Serialize, Deserialize)]
enum Op {
    Put { k: usize, len: usize, tag: u64 },
    PutTtl { k: usize, len: usize, tag: u64, zero: bool },
    PutToLayer { k: usize, len: usize, tag: u64, layer: usize },
    Get { k: usize },
    GetFromLayer { k: usize, layer: usize },
    Promote { k: usize, from: usize, to: usize },
    Remove { k: usize },
    Clear,
    BatchGet { ks: Vec<usize> },
    BatchPut { items: Vec<(usize, usize, u64)> },
    /// `ttl`: None = `put_with_validation`, Some(zero?) = `put_with_validation_and_ttl` (0 ns | 3600 s)
    PutValidated {
        k: usize,
        len: usize,
        tag: u64,
        wrong_key: bool,
        #[serde(default)]
        ttl: Option<bool>,
    },
    GetValidated { k: usize, with_key: bool },
    Damage { k: usize, layer: usize, how: Damage },
    /// `search_content`: a read through the layers that reports where a pattern occurs in the served value
    Search { k: usize, pat: Pat },
    /// probe every layer, THEN turn the file of disk layer `layer` into a directory (its read now fails), then
    /// read through the top-level API: the failing layer has to be skipped, a slower layer's entry is still found
    BreakThenRead { k: usize, layer: usize, read: ReadKind },
    Contains { k: usize },
    Size,
    Stats,
    Settle { ms: u64 },
    /// the layered cache is dropped and created again with the same configuration over the same directories:
    /// memory layers start empty, disk layers find the files the earlier instance left
    Reopen,
}

impl Op {
    fn api(&self) -> &'static str {
        match self {
            Op::Put { .. } => "put",
            Op::PutTtl { .. } => "put_with_ttl",
            Op::PutToLayer { .. } => "put_to_layer",
            Op::Get { .. } => "get",
            Op::GetFromLayer { .. } => "get_from_layer",
            Op::Promote { .. } => "promote",
            Op::Remove { .. } => "remove",
            Op::Clear => "clear",
            Op::BatchGet { .. } => "batch_get",
            Op::BatchPut { .. } => "batch_put",
            Op::PutValidated { ttl: None, .. } => "put_with_validation",
            Op::PutValidated { .. } => "put_with_validation_and_ttl",
            Op::Search { .. } => "search_content",
            Op::BreakThenRead { read: ReadKind::Get, .. } => "get",
            Op::BreakThenRead { read: ReadKind::GetValidatedNoKey, .. } => "get_with_validation(no key)",
            Op::BreakThenRead { read: ReadKind::BatchGet, .. } => "batch_get",
            Op::BreakThenRead { read: ReadKind::Search, .. } => "search_content",
            Op::GetValidated { .. } => "get_with_validation",
            Op::Damage { .. } => "damage(harness)",
            Op::Contains { .. } => "contains",
            Op::Size => "size",
            Op::Stats => "stats",
            Op::Settle { .. } => "settle(harness)",
            Op::Reopen => "reopen(harness)",
        }
    }
}

#[derive(Clone, Debug, Serialize, Deserialize)]
struct History {
    label: String,
    cfg: Cfg,
    universe: usize,
    ops: Vec<Op>,
}

fn key(i: usize) -> RibbitKey {
    match i % 4 {
        0 => RibbitKey::new(format!("k{i}"), "us"),
        1 => RibbitKey::new(format!("products/p{i}/versions"), "eu"),
        2 => RibbitKey::new(format!("summary.v{i}"), "us"),
        _ => RibbitKey::with_product("cdns", "kr", format!("prod{i}")),
    }
}

fn make_value(tag: u64, len: usize) -> Bytes {
    let mut v = vec![(tag as u8) ^ 0x5a; len];
    let t = tag.to_le_bytes();
    let n = len.min(8);
    v[..n].copy_from_slice(&t[..n]);
    Bytes::from(v)
}

fn md5_of(b: &[u8]) -> [u8; 16] {
    md5::compute(b).0
}

/// Reference search: every offset at which `pattern` occurs in `hay` (overlapping occurrences included).
fn naive_positions(hay: &[u8], pattern: &[u8]) -> Vec<usize> {
    if pattern.is_empty() || pattern.len() > hay.len() {
        return Vec::new();
    }
    (0..=hay.len() - pattern.len()).filter(|&i| &hay[i..i + pattern.len()] == pattern).collect()
}

/// Concrete pattern bytes for `pat`, given the value the read is expected to be served from (if any).
fn pattern_bytes(pat: Pat, value: Option<&Bytes>) -> Vec<u8> {
    match (pat, value) {
        (Pat::FromValue { off, len }, Some(v)) if !v.is_empty() => {
            let start = off % v.len();
            v[start..(start + len.max(1)).min(v.len())].to_vec()
        }
        (Pat::Fill { len }, Some(v)) if !v.is_empty() => vec![v[v.len() - 1]; len.max(1)],
        (Pat::FromValue { len, .. } | Pat::Fill { len } | Pat::Absent { len }, _) => {
            // make_value produces runs of one byte after an 8-byte tag: an alternating pattern occurs in none of them
            (0..len.max(2)).map(|i| if i % 2 == 0 { 0xa7 } else { 0x13 }).collect()
        }
    }
}

struct World {
    rt: Runtime,
    cache: MultiLayerCacheImpl<RibbitKey>,
}

fn policy_of(name: &str) -> EvictionPolicy {
    match name {
        "Lfu" => EvictionPolicy::Lfu,
        "Fifo" => EvictionPolicy::Fifo,
        "Random" => EvictionPolicy::Random,
        _ => EvictionPolicy::Lru,
    }
}

fn layer_dir(root: &Path, i: usize) -> PathBuf {
    root.join(format!("L{i}"))
}

fn build_world(cfg: &Cfg, root: &Path) -> Result<World, String> {
    let rt = tokio::runtime::Builder::new_current_thread().enable_all().build().map_err(|e| e.to_string())?;
    let mut mc = MultiLayerCacheConfig::new();
    for (i, l) in cfg.layers.iter().enumerate() {
        match l {
            LayerKind::Memory { max_entries, policy } => {
                mc = mc.add_memory_layer(MemoryCacheConfig::new().with_max_entries(*max_entries).with_eviction_policy(policy_of(policy)));
            }
            LayerKind::Disk { subdir_levels } => {
                let mut d = DiskCacheConfig::new(layer_dir(root, i)).with_subdirectories(*subdir_levels > 0, *subdir_levels);
                if cfg.short_cleanup {
                    d.cleanup_interval = Duration::from_millis(25);
                }
                mc = mc.add_disk_layer(d);
            }
        }
    }
    mc = mc.with_promotion_strategy(match &cfg.strategy {
        Strategy::OnHit => PromotionStrategy::OnHit,
        Strategy::AfterNHits(n) => PromotionStrategy::AfterNHits(*n),
        Strategy::Frequency { threshold_milli } => PromotionStrategy::FrequencyBased { threshold: *threshold_milli as f64 / 1000.0 },
        Strategy::Age { min_age_ms } => PromotionStrategy::AgeBased { min_age: Duration::from_millis(*min_age_ms) },
        Strategy::Manual => PromotionStrategy::Manual,
    });
    let cache = {
        let _g = rt.enter();
        let mut c = MultiLayerCacheImpl::<RibbitKey>::new(mc).map_err(|e| e.to_string())?;
        let hooks: Option<Arc<dyn ValidationHooks>> = match cfg.hooks {
            Hooks::Md5 => Some(Arc::new(Md5ValidationHooks::new())),
            Hooks::Ngdp => Some(Arc::new(NgdpValidationHooks::new())),
            Hooks::NgdpTactJenkins => Some(Arc::new(NgdpValidationHooks::with_tact_key(cascette_crypto::TactKey::new(0x1122_3344_5566_7788, [7u8; 16])).with_jenkins96_validation())),
            Hooks::StrictErr => Some(Arc::new(HarnessHooks { mismatch_is_err: true })),
            Hooks::SoftInvalid => Some(Arc::new(HarnessHooks { mismatch_is_err: false })),
            Hooks::NoOp => Some(Arc::new(NoOpValidationHooks)),
            Hooks::Unset => None,
        };
        if hooks.is_some() {
            c.set_validation_hooks(hooks);
        }
        c
    };
    Ok(World { rt, cache })
}

/// Locate the file a disk layer uses for `key_str` (flat or below 2-hex-digit sub-directories).
fn find_file(root: &Path, key_str: &str) -> Option<PathBuf> {
    fn walk(dir: &Path, out: &mut Vec<PathBuf>) {
        if let Ok(rd) = std::fs::read_dir(dir) {
            for e in rd.flatten() {
                let p = e.path();
                if p.is_dir() {
                    walk(&p, out);
                } else {
                    out.push(p);
                }
            }
        }
    }
    let mut files = Vec::new();
    walk(root, &mut files);
    files.into_iter().find(|p| {
        let Ok(rel) = p.strip_prefix(root) else { return false };
        let rel = rel.to_string_lossy().to_string();
        if rel == key_str {
            return true;
        }
        match rel.strip_suffix(key_str) {
            Some(prefix) => prefix.ends_with('/') && prefix.trim_end_matches('/').split('/').all(|c| c.len() == 2 && c.chars().all(|x| x.is_ascii_hexdigit())),
            None => false,
        }
    })
}

// ---------------------------------------------------------------- model

#[derive(Clone, Debug)]
struct Val {
    bytes: Bytes,
    /// TTL 0
    dead: bool,
}

#[derive(Clone, Debug)]
struct Past {
    hash: u64,
    len: usize,
    why: &'static str,
}

#[derive(Clone, Debug, Default)]
struct Cell {
    /// admissible current values of this key in this layer (normally 0 or 1)
    cur: Vec<Val>,
    past: Vec<Past>,
    counted_dropped: bool,
    /// the current value(s) were written through an earlier instance of the cache (disk layers, see `Op::Reopen`)
    carried: bool,
}

impl Cell {
    fn retire(&mut self, why: &'static str) {
        // the distinguishing condition of the witness: the entry was left by an earlier instance
        let why = match (self.carried, why) {
            (true, "removed") => "removed-entry-of-earlier-instance",
            (true, "cleared") => "cleared-entry-of-earlier-instance",
            _ => why,
        };
        self.carried = false;
        for v in self.cur.drain(..) {
            self.past.push(Past { hash: fnv64(&v.bytes), len: v.bytes.len(), why });
        }
        self.counted_dropped = false;
        if self.past.len() > 48 {
            let cut = self.past.len() - 48;
            self.past.drain(..cut);
        }
    }
    fn retire_matching(&mut self, bytes: &Bytes, why: &'static str) {
        let mut keep = Vec::new();
        for v in self.cur.drain(..) {
            if v.bytes == *bytes {
                self.past.push(Past { hash: fnv64(&v.bytes), len: v.bytes.len(), why });
            } else {
                keep.push(v);
            }
        }
        self.cur = keep;
    }
    fn set(&mut self, bytes: Bytes, dead: bool) {
        self.retire("replaced");
        self.cur.push(Val { bytes, dead });
    }
    fn maybe(&mut self, bytes: Bytes, dead: bool) {
        self.cur.push(Val { bytes, dead });
    }
}

struct Found {
    signature: String,
    summary: String,
    detail: serde_json::Value,
}

#[derive(Clone, Debug)]
struct Hang {
    op_index: usize,
    signature: String,
    what: String,
}

type Probe = Result<Option<Bytes>, String>;

// ---------------------------------------------------------------- runner

enum Stop {
    Hang(Hang),
    Panic { op_index: usize, api: String, msg: String },
    /// the harness could not go on (never a verdict about the cache)
    Harness(String),
}

struct Runner<'a> {
    h: &'a History,
    world: Arc<World>,
    root: PathBuf,
    limit: Duration,
    n_layers: usize,
    /// model[layer][key]
    model: Vec<Vec<Cell>>,
    /// md5 of the value most recently handed to any put-like call for the key
    latest: Vec<Option<[u8; 16]>>,
    /// key was put / hit through the top-level API since its last remove/clear
    touched: Vec<bool>,
    obs: BTreeMap<String, u64>,
    found: Vec<Found>,
    op_index: usize,
    served_lower: bool,
    validation_failure_injected: bool,
    /// stop after this op index (re-runs of a hang)
    stop_after: Option<usize>,
    /// index of the latest `Reopen`
    reopened_at: Option<usize>,
}

impl<'a> Runner<'a> {
    fn bump(&mut self, k: &str, n: u64) {
        *self.obs.entry(k.to_string()).or_insert(0) += n;
    }

    fn layer_kind(&self, layer: usize) -> &'static str {
        match self.h.cfg.layers.get(layer) {
            Some(LayerKind::Memory { .. }) => "memory-layer",
            Some(LayerKind::Disk { .. }) => "disk-layer",
            None => "no-layer",
        }
    }

    fn violate(&mut self, signature: String, summary: &str, extra: serde_json::Value) {
        if self.found.iter().any(|f| f.signature == signature) {
            return;
        }
        let op = self.h.ops.get(self.op_index).map(|o| serde_json::to_value(o).unwrap_or_default());
        self.found.push(Found {
            signature,
            summary: summary.to_string(),
            detail: json!({"history": serde_json::to_value(self.h).unwrap_or_default(), "op_index": self.op_index, "op": op, "observed": extra}),
        });
    }

    /// Run one call into the cache on a watchdog thread.
    fn guarded<T: Send + 'static>(&mut self, api: &str, class: &str, f: impl FnOnce(&World) -> T + Send + 'static) -> Result<T, Stop> {
        let w = Arc::clone(&self.world);
        self.bump("calls_under_watchdog", 1);
        match run_with_timeout(self.limit, move || f(&w)) {
            Outcome::Done(v) => Ok(v),
            Outcome::Panicked(msg) => Err(Stop::Panic { op_index: self.op_index, api: api.to_string(), msg }),
            Outcome::TimedOut => Err(Stop::Hang(Hang {
                op_index: self.op_index,
                signature: format!("C12|{api}|never-returns|{class}"),
                what: format!("{api} did not return within {:?} (class {class})", self.limit),
            })),
        }
    }

    fn probe(&mut self, k: usize, layer: usize) -> Result<Probe, Stop> {
        let kk = key(k);
        let r = self.guarded("get_from_layer", "probe", move |w| w.rt.block_on(w.cache.get_from_layer(&kk, layer)).map_err(|e| e.to_string()))?;
        self.judge_layer(k, layer, &r);
        Ok(r)
    }

    fn probe_all(&mut self, k: usize) -> Result<Vec<Probe>, Stop> {
        let mut v = Vec::with_capacity(self.n_layers);
        for l in 0..self.n_layers {
            v.push(self.probe(k, l)?);
        }
        Ok(v)
    }

    /// "each layer returns the latest value put to that layer or nothing"
    fn judge_layer(&mut self, k: usize, layer: usize, r: &Probe) {
        let kind = self.layer_kind(layer);
        match r {
            Ok(Some(b)) => {
                let cell = &self.model[layer][k];
                if cell.cur.iter().any(|v| !v.dead && v.bytes == *b) {
                    self.bump(&format!("layer{layer}.probe.latest_value"), 1);
                    return;
                }
                let hb = fnv64(b);
                let class = if cell.cur.iter().any(|v| v.dead && v.bytes == *b) {
                    "expired-value-served".to_string()
                } else if let Some(p) = cell.past.iter().rev().find(|p| p.len == b.len() && p.hash == hb) {
                    format!("{}-value-served", p.why)
                } else if self.model.iter().any(|lay| lay.iter().any(|c| c.cur.iter().any(|v| v.bytes == *b) || c.past.iter().any(|p| p.len == b.len() && p.hash == hb))) {
                    "value-of-other-key-or-layer-served".to_string()
                } else {
                    "unknown-bytes-served".to_string()
                };
                let admissible: Vec<_> = cell.cur.iter().map(|v| json!({"len": v.bytes.len(), "head": hex_short(&v.bytes, 8), "dead": v.dead})).collect();
                self.violate(
                    format!("C12|get_from_layer|{class}|{kind}"),
                    "a layer returned bytes that are not the latest value written to that layer for the key",
                    json!({"layer": layer, "key": key(k).as_cache_key(), "got_len": b.len(), "got_head": hex_short(b, 16), "admissible": admissible}),
                );
            }
            Ok(None) | Err(_) => {
                if r.is_err() {
                    self.bump(&format!("layer{layer}.probe.err"), 1);
                }
                let cell = &mut self.model[layer][k];
                if cell.cur.len() == 1 && !cell.cur[0].dead {
                    let first = !cell.counted_dropped;
                    cell.counted_dropped = true;
                    if first {
                        self.bump(&format!("layer{layer}.live_entry_dropped(eviction_observed)"), 1);
                    }
                } else {
                    self.bump(&format!("layer{layer}.probe.nothing"), 1);
                }
            }
        }
    }

    fn first_nonempty(probes: &[Probe]) -> Option<(usize, Bytes)> {
        probes.iter().enumerate().find_map(|(i, p)| match p {
            Ok(Some(b)) => Some((i, b.clone())),
            _ => None,
        })
    }

    /// Tolerate (and learn) a read that copied the served value into faster layers.
    fn learn_promotion(&mut self, k: usize, served_layer: usize, value: &Bytes) -> Result<(), Stop> {
        for j in 0..served_layer {
            let kk = key(k);
            let r = self.guarded("get_from_layer", "probe", move |w| w.rt.block_on(w.cache.get_from_layer(&kk, j)).map_err(|e| e.to_string()))?;
            if let Ok(Some(b)) = &r {
                if b == value && !self.model[j][k].cur.iter().any(|v| v.bytes == *b) {
                    self.model[j][k].set(b.clone(), false);
                    self.bump("auto_promotion_observed", 1);
                    continue;
                }
            }
            self.judge_layer(k, j, &r);
        }
        Ok(())
    }

    /// Coherence of a top-level read with the probes taken right before it.
    fn judge_read(&mut self, api: &str, k: usize, pre: &[Probe], got: &Result<Option<Bytes>, String>) -> Option<usize> {
        let expect = Self::first_nonempty(pre);
        match (got, &expect) {
            (Ok(Some(v)), Some((l, e))) if v == e => {
                self.bump(&format!("{api}.served_by_layer{l}"), 1);
                if *l > 0 {
                    self.served_lower = true;
                }
                Some(*l)
            }
            (Ok(Some(v)), Some((l, _))) => {
                let from_slower = pre.iter().enumerate().skip(l + 1).any(|(_, p)| matches!(p, Ok(Some(b)) if b == v));
                let class = if from_slower { "slower-layer-answered-although-faster-layer-holds-key" } else { "differs-from-first-non-empty-layer" };
                self.violate(
                    format!("C12|{api}|{class}"),
                    "a read did not return the value of the first non-empty layer observed right before it",
                    json!({"key": key(k).as_cache_key(), "got_len": v.len(), "got_head": hex_short(v, 16), "first_non_empty_layer": l,
                           "layers_before": pre.iter().map(|p| match p { Ok(Some(b)) => json!({"len": b.len(), "head": hex_short(b, 8)}), Ok(None) => json!(null), Err(e) => json!({"err": e}) }).collect::<Vec<_>>()}),
                );
                None
            }
            (Ok(Some(v)), None) => {
                self.violate(
                    format!("C12|{api}|value-although-every-layer-was-empty"),
                    "a read returned a value although every layer was observed empty right before it",
                    json!({"key": key(k).as_cache_key(), "got_len": v.len(), "got_head": hex_short(v, 16)}),
                );
                None
            }
            (Ok(None), Some((l, e))) => {
                let pos = if *l == 0 { "first-layer" } else { "only-in-slower-layer" };
                let kind = self.layer_kind(*l);
                self.violate(
                    format!("C12|{api}|entry-present-in-a-layer-not-found|{pos}|{kind}"),
                    "a read returned nothing although a layer was observed holding the key right before it",
                    json!({"key": key(k).as_cache_key(), "layer": l, "value_len": e.len()}),
                );
                None
            }
            (Ok(None), None) => {
                self.bump(&format!("{api}.miss_all_layers"), 1);
                None
            }
            (Err(e), _) => {
                self.bump(&format!("{api}.err:{}", e.chars().take(32).collect::<String>()), 1);
                None
            }
        }
    }

    /// `search_content(k, pattern)` judged against a reference search in the value of the first non-empty layer
    /// observed right before it. With `behind_broken = Some(true)` an `Err` is handed back to the caller
    /// (a failing faster layer was not skipped); otherwise `Err` is an observation as for every read.
    fn search_and_judge(&mut self, k: usize, pre: &[Probe], pattern: Vec<u8>, class: &str, behind_broken: Option<bool>) -> Result<Option<String>, Stop> {
        if pattern.is_empty() {
            self.bump("search_content.skipped_empty_pattern", 1);
            return Ok(None);
        }
        let (kk, pat2) = (key(k), pattern.clone());
        let got = self.guarded("search_content", class, move |w| w.rt.block_on(w.cache.search_content(&kk, &pat2)).map_err(|e| e.to_string()))?;
        let expect = Self::first_nonempty(pre);
        let want: Option<Vec<usize>> = expect.as_ref().map(|(_, v)| naive_positions(v, &pattern));
        let got_pos: Vec<usize> = match &got {
            Ok(Some(p)) => p.clone(),
            Ok(None) => Vec::new(),
            Err(e) => {
                if behind_broken == Some(true) {
                    return Ok(Some(e.clone()));
                }
                self.bump(&format!("search_content.err:{}", e.chars().take(32).collect::<String>()), 1);
                return Ok(None);
            }
        };
        match (&expect, &want) {
            (Some((l, v)), Some(w)) if *w == got_pos => {
                self.bump(&format!("search_content.served_by_layer{l}"), 1);
                self.bump(if w.is_empty() { "search_content.no_occurrence(agrees)" } else if w.len() > 1 { "search_content.several_occurrences(agree)" } else { "search_content.one_occurrence(agrees)" }, 1);
                if matches!(&got, Ok(Some(p)) if p.is_empty()) {
                    self.bump("search_content.empty_position_list_instead_of_none(observation)", 1);
                }
                if *l > 0 {
                    self.served_lower = true;
                }
                self.touched[k] = true;
                if *l > 0 {
                    let v = v.clone();
                    self.learn_promotion(k, *l, &v)?;
                }
            }
            (Some((l, _)), Some(w)) => {
                // explained by another layer's value? then it is the coherence of the read that failed, not the search
                let from_slower = pre.iter().enumerate().skip(l + 1).any(|(_, p)| matches!(p, Ok(Some(b)) if !got_pos.is_empty() && naive_positions(b, &pattern) == got_pos));
                let class = if from_slower { "slower-layer-answered-although-faster-layer-holds-key" } else { "positions-differ-from-search-in-first-non-empty-layer" };
                self.violate(
                    format!("C12|search_content|{class}"),
                    "search_content did not report the occurrences of the pattern in the value of the first non-empty layer observed right before it",
                    json!({"key": key(k).as_cache_key(), "pattern": hex_short(&pattern, 16), "got": got_pos.iter().take(12).collect::<Vec<_>>(), "got_count": got_pos.len(),
                           "expected": w.iter().take(12).collect::<Vec<_>>(), "expected_count": w.len(), "first_non_empty_layer": l}),
                );
            }
            _ if got_pos.is_empty() => self.bump("search_content.miss_all_layers", 1),
            _ => self.violate(
                "C12|search_content|positions-although-every-layer-was-empty".into(),
                "search_content reported occurrences although every layer was observed empty right before it",
                json!({"key": key(k).as_cache_key(), "pattern": hex_short(&pattern, 16), "got_count": got_pos.len()}),
            ),
        }
        Ok(None)
    }

    fn hang_class(&self, k: usize, pre: &[Probe]) -> String {
        let base = match Self::first_nonempty(pre) {
            Some((0, _)) => "hit-in-first-layer",
            Some(_) => "hit-in-lower-layer",
            None => "miss",
        };
        if self.touched[k] { format!("second-{base}") } else { format!("first-{base}") }
    }
}

impl<'a> Runner<'a> {
    fn step(&mut self, op: &Op) -> Result<(), Stop> {
        let api = op.api();
        self.bump(&format!("op.{api}"), 1);
        match op {
            Op::Put { k, len, tag } | Op::PutTtl { k, len, tag, .. } => {
                let (k, val) = (*k, make_value(*tag, *len));
                let zero = matches!(op, Op::PutTtl { zero: true, .. });
                let ttl = match op {
                    Op::PutTtl { zero, .. } => Some(if *zero { Duration::ZERO } else { Duration::from_secs(3600) }),
                    _ => None,
                };
                let (kk, v2) = (key(k), val.clone());
                let r = self.guarded(api, "-", move |w| match ttl {
                    Some(t) => w.rt.block_on(w.cache.put_with_ttl(kk, v2, t)).map_err(|e| e.to_string()),
                    None => w.rt.block_on(w.cache.put(kk, v2)).map_err(|e| e.to_string()),
                })?;
                self.latest[k] = Some(md5_of(&val));
                match r {
                    Ok(()) => {
                        self.model[0][k].set(val, zero);
                        self.touched[k] = true;
                    }
                    Err(_) => {
                        self.bump(&format!("{api}.err"), 1);
                        self.model[0][k].maybe(val, zero);
                    }
                }
            }
            Op::PutToLayer { k, len, tag, layer } => {
                let (k, layer, val) = (*k, *layer, make_value(*tag, *len));
                let (kk, v2) = (key(k), val.clone());
                let r = self.guarded(api, "-", move |w| w.rt.block_on(w.cache.put_to_layer(kk, v2, layer)).map_err(|e| e.to_string()))?;
                if layer >= self.n_layers {
                    self.bump(if r.is_err() { "put_to_layer.invalid_layer_refused" } else { "put_to_layer.invalid_layer_accepted(observation)" }, 1);
                    return Ok(());
                }
                self.latest[k] = Some(md5_of(&val));
                match r {
                    Ok(()) => self.model[layer][k].set(val, false),
                    Err(_) => {
                        self.bump("put_to_layer.err", 1);
                        self.model[layer][k].maybe(val, false);
                    }
                }
            }
            Op::Get { k } => {
                let k = *k;
                let pre = self.probe_all(k)?;
                let class = self.hang_class(k, &pre);
                let kk = key(k);
                let got = self.guarded("get", &class, move |w| w.rt.block_on(w.cache.get(&kk)).map_err(|e| e.to_string()))?;
                if let Some(l) = self.judge_read("get", k, &pre, &got) {
                    self.touched[k] = true;
                    if l > 0 {
                        if let Ok(Some(v)) = &got {
                            self.learn_promotion(k, l, v)?;
                        }
                    }
                }
            }
            Op::GetFromLayer { k, layer } => {
                if *layer >= self.n_layers {
                    let (kk, layer) = (key(*k), *layer);
                    let r = self.guarded(api, "-", move |w| w.rt.block_on(w.cache.get_from_layer(&kk, layer)).map(|o| o.is_some()).map_err(|e| e.to_string()))?;
                    self.bump(if r.is_err() { "get_from_layer.invalid_layer_refused" } else { "get_from_layer.invalid_layer_answered(observation)" }, 1);
                } else {
                    let _ = self.probe(*k, *layer)?;
                }
            }
            Op::Promote { k, from, to } => {
                let (k, from, to) = (*k, *from, *to);
                let src = if from < self.n_layers { Some(self.probe(k, from)?) } else { None };
                let kk = key(k);
                let r = self.guarded(api, "-", move |w| w.rt.block_on(w.cache.promote(&kk, from, to)).map_err(|e| e.to_string()))?;
                match r {
                    Ok(true) => {
                        self.bump("promote.returned_true", 1);
                        if to < self.n_layers {
                            if let Some(Ok(Some(v))) = src {
                                self.model[to][k].set(v, false);
                            }
                        }
                    }
                    Ok(false) => self.bump("promote.returned_false", 1),
                    Err(_) => self.bump("promote.err", 1),
                }
            }
            Op::Remove { k } => {
                let k = *k;
                let kk = key(k);
                let r = self.guarded(api, "-", move |w| w.rt.block_on(w.cache.remove(&kk)).map_err(|e| e.to_string()))?;
                if self.reopened_at == Some(self.op_index.wrapping_sub(1)) && (0..self.n_layers).any(|l| self.model[l][k].carried && !self.model[l][k].cur.is_empty()) {
                    self.bump("reopen.remove_right_after_reopen_of_a_key_left_on_disk", 1);
                }
                match r {
                    Ok(found) => {
                        self.bump(&format!("remove.returned_{found}"), 1);
                        for l in 0..self.n_layers {
                            self.model[l][k].retire("removed");
                        }
                        self.touched[k] = false;
                        // "after remove no layer answers for the key"
                        self.probe_all(k)?;
                    }
                    Err(_) => self.bump("remove.err", 1),
                }
            }
            Op::Clear => {
                let r = self.guarded(api, "-", move |w| w.rt.block_on(w.cache.clear()).map_err(|e| e.to_string()))?;
                if self.reopened_at == Some(self.op_index.wrapping_sub(1)) && self.model.iter().any(|lay| lay.iter().any(|c| c.carried && !c.cur.is_empty())) {
                    self.bump("reopen.clear_right_after_reopen_over_entries_left_on_disk", 1);
                }
                match r {
                    Ok(()) => {
                        for l in 0..self.n_layers {
                            for k in 0..self.h.universe {
                                self.model[l][k].retire("cleared");
                            }
                        }
                        for t in &mut self.touched {
                            *t = false;
                        }
                        for k in 0..self.h.universe {
                            self.probe_all(k)?;
                        }
                    }
                    Err(_) => self.bump("clear.err", 1),
                }
            }
            Op::BatchGet { ks } => {
                let mut pre = BTreeMap::new();
                for &k in ks {
                    if !pre.contains_key(&k) {
                        pre.insert(k, self.probe_all(k)?);
                    }
                }
                let keys: Vec<RibbitKey> = ks.iter().map(|&k| key(k)).collect();
                let r = self.guarded(api, "-", move |w| w.rt.block_on(w.cache.batch_get(&keys)).map_err(|e| e.to_string()))?;
                match r {
                    Ok(results) => {
                        if results.len() != ks.len() {
                            self.violate("C12|batch_get|result-count-differs-from-key-count".into(), "batch_get returned a different number of results than keys", json!({"keys": ks.len(), "results": results.len()}));
                            return Ok(());
                        }
                        for (&k, got) in ks.iter().zip(results.iter()) {
                            match got {
                                Some(v) => {
                                    // lenient: any value some layer may currently hold for the key
                                    let ok = (0..self.n_layers).any(|l| self.model[l][k].cur.iter().any(|c| !c.dead && c.bytes == *v));
                                    if ok {
                                        self.touched[k] = true;
                                        let strict = Self::first_nonempty(&pre[&k]).is_some_and(|(_, e)| e == *v);
                                        self.bump(if strict { "batch_get.element_equals_first_non_empty_layer" } else { "batch_get.element_from_other_layer(observation)" }, 1);
                                    } else {
                                        self.violate("C12|batch_get|value-held-by-no-layer".into(), "batch_get returned bytes that no layer may hold for that key", json!({"key": key(k).as_cache_key(), "got_len": v.len(), "got_head": hex_short(v, 16)}));
                                    }
                                }
                                None => {
                                    if let Some((l, _)) = Self::first_nonempty(&pre[&k]) {
                                        // only a violation if a layer still holds it afterwards as well
                                        let post = self.probe_all(k)?;
                                        if Self::first_nonempty(&post).is_some() {
                                            let kind = self.layer_kind(l);
                                            self.violate(format!("C12|batch_get|entry-present-in-a-layer-not-found|{kind}"), "batch_get returned nothing for a key that a layer held before and after the call", json!({"key": key(k).as_cache_key(), "layer": l}));
                                        }
                                    } else {
                                        self.bump("batch_get.miss_all_layers", 1);
                                    }
                                }
                            }
                        }
                    }
                    Err(_) => self.bump("batch_get.err", 1),
                }
            }
            Op::BatchPut { items } => {
                let vals: Vec<(usize, Bytes)> = items.iter().map(|(k, len, tag)| (*k, make_value(*tag, *len))).collect();
                let payload: Vec<(RibbitKey, Bytes)> = vals.iter().map(|(k, v)| (key(*k), v.clone())).collect();
                let r = self.guarded(api, "-", move |w| w.rt.block_on(w.cache.batch_put(payload)).map_err(|e| e.to_string()))?;
                for (k, v) in vals {
                    self.latest[k] = Some(md5_of(&v));
                    if r.is_ok() {
                        self.model[0][k].set(v, false);
                        self.touched[k] = true;
                    } else {
                        self.model[0][k].maybe(v, false);
                    }
                }
                if r.is_err() {
                    self.bump("batch_put.err", 1);
                }
            }
            Op::PutValidated { k, len, tag, wrong_key, ttl } => {
                let (k, val, ttl) = (*k, make_value(*tag, *len), *ttl);
                let ck_bytes = if *wrong_key { md5_of(&make_value(tag ^ 0xdead_beef, len + 1)) } else { md5_of(&val) };
                let matches_key = ck_bytes == md5_of(&val);
                let validating = self.h.cfg.hooks.validating();
                let dead = ttl == Some(true);
                let (kk, v2) = (key(k), val.clone());
                let r = self.guarded(api, "-", move |w| {
                    let ck = ContentKey::from_bytes(ck_bytes);
                    match ttl {
                        None => w.rt.block_on(w.cache.put_with_validation(kk, ck, v2)),
                        Some(zero) => w.rt.block_on(w.cache.put_with_validation_and_ttl(kk, ck, v2, if zero { Duration::ZERO } else { Duration::from_secs(3600) })),
                    }
                    .map(|res| res.is_valid)
                    .map_err(|e| e.to_string())
                })?;
                if !matches_key && validating {
                    self.validation_failure_injected = true;
                    self.bump("validation.put_with_wrong_key_injected", 1);
                }
                match r {
                    Ok(_) => {
                        if !matches_key && validating {
                            self.violate(format!("C12|{api}|accepted-content-not-hashing-to-key"), "a validated put stored content whose MD5 differs from the supplied content key", json!({"key": key(k).as_cache_key(), "len": val.len(), "hooks": self.h.cfg.hooks.name()}));
                        } else if !matches_key {
                            self.bump("validation.no_validating_hooks.put_with_wrong_key_accepted(observation)", 1);
                        }
                        self.latest[k] = Some(md5_of(&val));
                        self.model[0][k].set(val, dead);
                        self.touched[k] = true;
                    }
                    Err(_) => {
                        self.bump(&if matches_key { format!("{api}.err_on_matching_content(observation)") } else { format!("{api}.refused_mismatch") }, 1);
                        // a refused put may or may not have left the value behind: the statement is silent
                        self.model[0][k].maybe(val, dead);
                    }
                }
            }
            Op::GetValidated { k, with_key } => {
                let k = *k;
                let ck = if *with_key { Some(self.latest[k].unwrap_or([0x11; 16])) } else { None };
                let pre = self.probe_all(k)?;
                let first = Self::first_nonempty(&pre);
                let kk = key(k);
                // besides the bytes: what the returned object says about itself (its own lazy MD5 check)
                let got_full = self.guarded(api, "-", move |w| {
                    w.rt.block_on(w.cache.get_with_validation(&kk, ck.map(ContentKey::from_bytes)))
                        .map(|o| o.map(|nb| (nb.as_bytes().clone(), nb.validate_if_needed().map_err(|e| e.to_string()), *nb == *nb.as_bytes() && nb.as_ref() == nb.as_bytes().as_ref())))
                        .map_err(|e| e.to_string())
                })?;
                let self_report = match &got_full {
                    Ok(Some((_, sr, same))) => Some((sr.clone(), *same)),
                    _ => None,
                };
                let got: Result<Option<Bytes>, String> = got_full.map(|o| o.map(|(b, _, _)| b));
                let Some(ck) = ck else {
                    if self.judge_read("get_with_validation(no key)", k, &pre, &got).is_some() {
                        self.touched[k] = true;
                    }
                    return Ok(());
                };
                if !self.h.cfg.hooks.validating() {
                    // no hooks / hooks that declare to validate nothing: the statement's condition does not hold,
                    // the call is a plain read
                    if let Ok(Some(v)) = &got {
                        if md5_of(v) != ck {
                            self.bump("validation.no_validating_hooks.read_returned_bytes_not_hashing_to_key(observation)", 1);
                        }
                    }
                    if self.judge_read("get_with_validation(no validating hooks)", k, &pre, &got).is_some() {
                        self.touched[k] = true;
                    }
                    return Ok(());
                }
                if let (Ok(Some(v)), Some((sr, same))) = (&got, &self_report) {
                    // the returned object must agree with an independent MD5 about itself, and hand out the same bytes
                    // through every accessor
                    if md5_of(v) == ck && *sr != Ok(true) {
                        self.violate("C12|get_with_validation|returned-object-reports-itself-invalid".into(), "a validated read returned bytes hashing to the key inside an object whose own validation says otherwise", json!({"key": key(k).as_cache_key(), "self_validation": format!("{sr:?}")}));
                    }
                    if !*same {
                        self.violate("C12|get_with_validation|returned-object-accessors-disagree".into(), "deref / as_ref / as_bytes of the returned object hand out different bytes", json!({"key": key(k).as_cache_key()}));
                    }
                    self.bump("validation.returned_object_self_check_judged", 1);
                }
                let first_is_valid = first.as_ref().map(|(_, e)| md5_of(e) == ck);
                if first_is_valid == Some(false) {
                    self.validation_failure_injected = true;
                    self.bump("validation.read_of_entry_not_hashing_to_key_injected", 1);
                }
                match &got {
                    Ok(Some(v)) => {
                        if md5_of(v) != ck {
                            self.violate("C12|get_with_validation|returned-bytes-not-hashing-to-key".into(), "a validated read returned bytes whose MD5 differs from the supplied content key", json!({"key": key(k).as_cache_key(), "got_len": v.len(), "got_head": hex_short(v, 16)}));
                        } else {
                            self.bump("validation.read_returned_valid_bytes", 1);
                        }
                        if first_is_valid == Some(true) || first.is_none() {
                            if self.judge_read("get_with_validation", k, &pre, &got).is_some() {
                                self.touched[k] = true;
                            }
                        } else {
                            // the first non-empty layer is corrupt w.r.t. the key; a valid answer can only come from elsewhere
                            self.bump("validation.read_skipped_corrupt_layer_and_found_valid_copy(observation)", 1);
                        }
                    }
                    Ok(None) if first_is_valid == Some(true) => {
                        self.judge_read("get_with_validation", k, &pre, &got);
                    }
                    Ok(None) => self.bump("validation.read_returned_none", 1),
                    Err(_) => self.bump(if first_is_valid == Some(true) { "validation.read_err_on_valid_entry(observation)" } else { "validation.read_returned_error" }, 1),
                }
                // an entry found corrupted must not be served later by any layer
                if first_is_valid == Some(false) && !matches!(&got, Ok(Some(_))) {
                    if let Some((_, bad)) = &first {
                        for l in 0..self.n_layers {
                            self.model[l][k].retire_matching(bad, "corrupted-entry-found-by-validated-read");
                        }
                        self.probe_all(k)?;
                        self.bump("validation.corrupt_entry_drop_checked", 1);
                    }
                }
            }
            Op::Damage { k, layer, how } => {
                let (k, layer) = (*k, *layer);
                if !matches!(self.h.cfg.layers.get(layer), Some(LayerKind::Disk { .. })) {
                    self.bump("damage.skipped_not_a_disk_layer", 1);
                    return Ok(());
                }
                let kk = key(k);
                let Some(path) = find_file(&layer_dir(&self.root, layer), kk.as_cache_key()) else {
                    self.bump("damage.skipped_no_file_for_key", 1);
                    return Ok(());
                };
                if *how == Damage::MakeDirectory {
                    if std::fs::remove_file(&path).is_ok() && std::fs::create_dir(&path).is_ok() {
                        // the layer can serve nothing for the key any more (its read fails)
                        self.model[layer][k].retire("file-replaced-by-directory-by-harness");
                        self.bump("damage.file_MakeDirectory", 1);
                    }
                    return Ok(());
                }
                let old = std::fs::read(&path).unwrap_or_default();
                let new: Option<Vec<u8>> = match how {
                    Damage::Delete => None,
                    Damage::FlipByte if !old.is_empty() => {
                        let mut n = old.clone();
                        let i = (k * 7 + self.op_index) % n.len();
                        n[i] ^= 0x40;
                        Some(n)
                    }
                    Damage::Truncate if old.len() >= 2 => Some(old[..old.len() / 2].to_vec()),
                    _ => Some(format!("corrupted-by-harness-{}-{}", self.op_index, k).into_bytes()),
                };
                match new {
                    None => {
                        let _ = std::fs::remove_file(&path);
                        self.model[layer][k].retire("file-deleted-by-harness");
                        self.bump("damage.file_deleted", 1);
                    }
                    Some(n) => {
                        if std::fs::write(&path, &n).is_ok() {
                            // out-of-band write: from now on the layer holds these bytes (or nothing)
                            self.model[layer][k].retire("overwritten-by-harness");
                            self.model[layer][k].cur.push(Val { bytes: Bytes::from(n), dead: false });
                            self.bump(&format!("damage.file_{how:?}"), 1);
                        }
                    }
                }
            }
            Op::Search { k, pat } => {
                let k = *k;
                let pre = self.probe_all(k)?;
                let class = self.hang_class(k, &pre);
                let pattern = pattern_bytes(*pat, Self::first_nonempty(&pre).as_ref().map(|(_, v)| v));
                self.search_and_judge(k, &pre, pattern, &class, None)?;
            }
            Op::BreakThenRead { k, layer, read } => {
                let (k, layer, read) = (*k, *layer, *read);
                let mut pre = self.probe_all(k)?;
                // break the layer AFTER it was probed: the top-level read is the first to meet the failure
                let mut broke = false;
                if matches!(self.h.cfg.layers.get(layer), Some(LayerKind::Disk { .. })) {
                    if let Some(path) = find_file(&layer_dir(&self.root, layer), key(k).as_cache_key()) {
                        if std::fs::remove_file(&path).is_ok() && std::fs::create_dir(&path).is_ok() {
                            broke = true;
                            self.model[layer][k].retire("file-replaced-by-directory-by-harness");
                            pre[layer] = Ok(None);
                            self.bump("break.file_replaced_by_directory", 1);
                        }
                    }
                }
                if !broke {
                    self.bump("break.skipped_no_file_in_that_layer", 1);
                }
                let holder = Self::first_nonempty(&pre).map(|(l, _)| l);
                let behind_broken = broke && holder.is_some_and(|l| l > layer) && pre.iter().take(layer).all(|p| !matches!(p, Ok(Some(_))));
                if behind_broken {
                    self.bump(&format!("break.entry_only_behind_the_failing_layer.{api}"), 1);
                }
                let class = self.hang_class(k, &pre);
                let not_skipped = |this: &mut Self, e: &str| {
                    this.violate(
                        format!("C12|{api}|entry-present-in-a-layer-not-found|only-in-slower-layer|error-of-faster-layer-not-skipped"),
                        "a read failed with the error of a faster layer although a slower layer was observed holding the key",
                        json!({"key": key(k).as_cache_key(), "failing_layer": layer, "holding_layer": holder, "error": e}),
                    );
                };
                match read {
                    ReadKind::Get | ReadKind::GetValidatedNoKey | ReadKind::BatchGet => {
                        let kk = key(k);
                        let got: Result<Option<Bytes>, String> = match read {
                            ReadKind::Get => self.guarded(api, &class, move |w| w.rt.block_on(w.cache.get(&kk)).map_err(|e| e.to_string()))?,
                            ReadKind::GetValidatedNoKey => self.guarded(api, &class, move |w| w.rt.block_on(w.cache.get_with_validation(&kk, None)).map(|o| o.map(|nb| nb.into_bytes())).map_err(|e| e.to_string()))?,
                            _ => self.guarded(api, &class, move |w| {
                                w.rt.block_on(w.cache.batch_get(std::slice::from_ref(&kk))).map_err(|e| e.to_string()).and_then(|mut v| if v.len() == 1 { Ok(v.remove(0)) } else { Err(format!("batch_get of one key returned {} results", v.len())) })
                            })?,
                        };
                        match &got {
                            Err(e) if behind_broken => not_skipped(self, e),
                            _ => {
                                if let Some(l) = self.judge_read(api, k, &pre, &got) {
                                    self.touched[k] = true;
                                    if l > 0 {
                                        if let Ok(Some(v)) = &got {
                                            self.learn_promotion(k, l, v)?;
                                        }
                                    }
                                }
                            }
                        }
                    }
                    ReadKind::Search => {
                        let pattern = pattern_bytes(Pat::FromValue { off: 0, len: 5 }, Self::first_nonempty(&pre).as_ref().map(|(_, v)| v));
                        if let Some(e) = self.search_and_judge(k, &pre, pattern, &class, Some(behind_broken))? {
                            not_skipped(self, &e);
                        }
                    }
                }
            }
            Op::Contains { k } => {
                let kk = key(*k);
                let _ = self.guarded(api, "-", move |w| w.rt.block_on(w.cache.contains(&kk)).map_err(|e| e.to_string()))?;
            }
            Op::Size => {
                let _ = self.guarded(api, "-", move |w| w.rt.block_on(w.cache.size()).map_err(|e| e.to_string()))?;
                let _ = self.guarded("is_empty", "-", move |w| w.rt.block_on(w.cache.is_empty()).map_err(|e| e.to_string()))?;
            }
            Op::Stats => {
                let _ = self.guarded(api, "-", move |w| w.rt.block_on(w.cache.stats()).map(|s| s.entry_count).map_err(|e| e.to_string()))?;
                let _ = self.guarded("multi_layer_stats", "-", move |w| w.rt.block_on(w.cache.multi_layer_stats()).map(|s| (s.tracked_entries, s.total_entries(), s.total_memory_usage(), s.effective_hit_rate(), s.promotion_rate(), s.validation_stats.is_some())).map_err(|e| e.to_string()))?;
                // the layer structure the cache reports is the configured one
                let n = self.n_layers;
                let (count, hooks_on, last_ok, beyond_ok) = self.guarded("layer_count/layer_stats", "-", move |w| {
                    (w.cache.layer_count(), w.cache.has_validation_hooks(), w.rt.block_on(w.cache.layer_stats(n - 1)).is_ok(), w.rt.block_on(w.cache.layer_stats(n)).is_ok())
                })?;
                if count != n {
                    self.violate("C12|layer_count|differs-from-configured-layers".into(), "layer_count() differs from the number of configured layers", json!({"layer_count": count, "configured": n}));
                }
                if hooks_on != (self.h.cfg.hooks != Hooks::Unset) {
                    self.violate("C12|has_validation_hooks|differs-from-what-was-installed".into(), "has_validation_hooks() disagrees with whether hooks were installed", json!({"has_validation_hooks": hooks_on, "installed": self.h.cfg.hooks.name()}));
                }
                self.bump(if last_ok { "layer_stats.last_layer_ok" } else { "layer_stats.last_layer_err(observation)" }, 1);
                self.bump(if beyond_ok { "layer_stats.invalid_layer_answered(observation)" } else { "layer_stats.invalid_layer_refused" }, 1);
            }
            Op::Settle { ms } => {
                let ms = *ms;
                self.guarded("settle(harness)", "-", move |w| w.rt.block_on(async move { tokio::time::sleep(Duration::from_millis(ms)).await }))?;
            }
            Op::Reopen => {
                // a new instance with the same configuration over the same directories, then the old one is dropped
                let (cfg, root) = (self.h.cfg.clone(), self.root.clone());
                let world = match run_with_timeout(Duration::from_secs(20), move || build_world(&cfg, &root)) {
                    Outcome::Done(Ok(w)) => Arc::new(w),
                    Outcome::Done(Err(e)) => return Err(Stop::Harness(format!("cannot re-create MultiLayerCacheImpl: {e}"))),
                    Outcome::Panicked(msg) => return Err(Stop::Panic { op_index: self.op_index, api: "new(re-created over existing directories)".into(), msg }),
                    Outcome::TimedOut => return Err(Stop::Harness("re-creating MultiLayerCacheImpl did not return within 20 s".into())),
                };
                let old = std::mem::replace(&mut self.world, world);
                match run_with_timeout(Duration::from_secs(20), move || drop(old)) {
                    Outcome::Done(()) => {}
                    Outcome::Panicked(msg) => return Err(Stop::Panic { op_index: self.op_index, api: "drop".into(), msg }),
                    Outcome::TimedOut => return Err(Stop::Harness("dropping the earlier MultiLayerCacheImpl did not return within 20 s".into())),
                }
                let mut carried = 0;
                for l in 0..self.n_layers {
                    let disk = matches!(self.h.cfg.layers[l], LayerKind::Disk { .. });
                    for c in &mut self.model[l] {
                        if disk {
                            // what the earlier instance left on disk stays "the latest value put to that layer"; whether its
                            // time-to-live survives a new instance is not this property's business (C10 lists it)
                            for v in &mut c.cur {
                                v.dead = false;
                            }
                            if !c.cur.is_empty() {
                                c.carried = true;
                                carried += 1;
                            }
                        } else {
                            c.retire("memory-layer-content-of-earlier-instance");
                        }
                    }
                }
                for t in &mut self.touched {
                    *t = false;
                }
                self.reopened_at = Some(self.op_index);
                self.bump("reopen.entries_left_in_disk_layers", carried);
            }
        }
        Ok(())
    }

    fn run(&mut self) -> Result<(), Stop> {
        let ops = self.h.ops.clone();
        for (i, op) in ops.iter().enumerate() {
            self.op_index = i;
            self.step(op)?;
            if self.stop_after == Some(i) {
                return Ok(());
            }
        }
        // final sweep: every layer is judged once more for every key
        self.op_index = ops.len().saturating_sub(1);
        for k in 0..self.h.universe {
            self.probe_all(k)?;
        }
        Ok(())
    }
}

// ---------------------------------------------------------------- execution of one history

struct RunResult {
    stop: Option<Stop>,
    found: Vec<Found>,
    obs: BTreeMap<String, u64>,
    served_lower: bool,
    validation_failure_injected: bool,
    build_error: Option<String>,
}

fn execute(h: &History, limit: Duration, stop_after: Option<usize>) -> RunResult {
    let mut res = RunResult { stop: None, found: Vec::new(), obs: BTreeMap::new(), served_lower: false, validation_failure_injected: false, build_error: None };
    let dir = match tempfile::Builder::new().prefix("vh-c12-").tempdir() {
        Ok(d) => d,
        Err(e) => {
            res.build_error = Some(format!("cannot create temp dir: {e}"));
            return res;
        }
    };
    let root = dir.path().to_path_buf();
    let (cfg, root2) = (h.cfg.clone(), root.clone());
    // the constructor spawns background tasks: it runs under the watchdog as well
    let world = match run_with_timeout(Duration::from_secs(20), move || build_world(&cfg, &root2)) {
        Outcome::Done(Ok(w)) => Arc::new(w),
        Outcome::Done(Err(e)) => {
            res.build_error = Some(format!("cannot construct MultiLayerCacheImpl: {e}"));
            return res;
        }
        Outcome::Panicked(m) => {
            res.build_error = Some(format!("constructor panicked: {m}"));
            return res;
        }
        Outcome::TimedOut => {
            res.build_error = Some("constructor did not return within 20 s".into());
            return res;
        }
    };
    let n_layers = h.cfg.layers.len();
    let mut r = Runner {
        h,
        world,
        root,
        limit,
        n_layers,
        model: vec![vec![Cell::default(); h.universe]; n_layers],
        latest: vec![None; h.universe],
        touched: vec![false; h.universe],
        obs: BTreeMap::new(),
        found: Vec::new(),
        op_index: 0,
        served_lower: false,
        validation_failure_injected: false,
        stop_after,
        reopened_at: None,
    };
    res.stop = r.run().err();
    res.found = std::mem::take(&mut r.found);
    res.obs = std::mem::take(&mut r.obs);
    res.served_lower = r.served_lower;
    res.validation_failure_injected = r.validation_failure_injected;
    let hung = matches!(res.stop, Some(Stop::Hang(_)));
    let world = r.world.clone();
    drop(r);
    if hung {
        // a worker thread is parked inside the cache for ever and owns a reference: leak the world
        std::mem::forget(world);
    } else {
        drop(world);
    }
    drop(dir); // files are removed even when the world is leaked (the parked thread touches no file)
    res
}

struct Shared {
    confirmed: Mutex<Vec<String>>,
    hang_events: AtomicU32,
}

fn run_history(ctx: &Ctx, shared: &Shared, h: &History) {
    let res = execute(h, CALL_LIMIT, None);
    let hash = fnv64(serde_json::to_string(h).unwrap_or_default().as_bytes());
    if let Some(e) = &res.build_error {
        ctx.inconclusive(&format!("harness: {e}"));
        return;
    }
    if res.served_lower || res.validation_failure_injected {
        ctx.eval_nontrivial(hash);
    } else {
        ctx.eval();
    }
    for (k, v) in &res.obs {
        ctx.obs(k, *v);
    }
    ctx.obs("histories", 1);
    ctx.obs(&format!("histories.layers={}", h.cfg.layers.iter().map(|l| match l { LayerKind::Memory { .. } => "M", LayerKind::Disk { .. } => "D" }).collect::<String>()), 1);
    ctx.obs(&format!("histories.strategy={}", match &h.cfg.strategy { Strategy::OnHit => "OnHit", Strategy::AfterNHits(_) => "AfterNHits", Strategy::Frequency { .. } => "FrequencyBased", Strategy::Age { .. } => "AgeBased", Strategy::Manual => "Manual" }), 1);
    ctx.obs("operations.total", h.ops.len() as u64);
    ctx.obs(&format!("histories.hooks={}", h.cfg.hooks.name()), 1);
    if matches!(h.cfg.layers.first(), Some(LayerKind::Disk { .. })) {
        ctx.obs("histories.first_layer_on_disk", 1);
    }
    for f in res.found {
        ctx.violation(&f.signature, &f.summary, f.detail);
    }
    match res.stop {
        None => {}
        Some(Stop::Harness(e)) => ctx.inconclusive(&format!("harness: {e}")),
        Some(Stop::Panic { op_index, api, msg }) => {
            ctx.violation(
                &format!("C12|{api}|panicked"),
                "a cache call panicked instead of returning",
                json!({"history": serde_json::to_value(h).unwrap_or_default(), "op_index": op_index, "panic": msg}),
            );
        }
        Some(Stop::Hang(hang)) => {
            shared.hang_events.fetch_add(1, Ordering::Relaxed);
            ctx.obs("watchdog.fired", 1);
            let already = shared.confirmed.lock().unwrap_or_else(std::sync::PoisonError::into_inner).contains(&hang.signature);
            let detail = json!({"history": serde_json::to_value(h).unwrap_or_default(), "op_index": hang.op_index, "op": serde_json::to_value(&h.ops.get(hang.op_index)).unwrap_or_default(), "what": hang.what});
            if already {
                // same class of hang already reproduced three times in this run: count it
                ctx.violation(&hang.signature, "a cache call never returns (reproduced 3x from the recorded history)", detail);
                return;
            }
            let mut reproduced = 0;
            for _ in 0..2 {
                let again = execute(h, RERUN_LIMIT, Some(hang.op_index));
                ctx.obs("watchdog.reruns", 1);
                if let Some(Stop::Hang(h2)) = &again.stop {
                    if h2.op_index == hang.op_index && h2.signature == hang.signature {
                        reproduced += 1;
                    }
                }
            }
            if reproduced == 2 {
                shared.confirmed.lock().unwrap_or_else(std::sync::PoisonError::into_inner).push(hang.signature.clone());
                ctx.obs("watchdog.hang_reproduced_3x", 1);
                ctx.violation(&hang.signature, "a cache call never returns (reproduced 3x from the recorded history)", detail);
            } else {
                ctx.inconclusive(&format!("watchdog fired at op {} ({}) but the hang was reproduced only {reproduced}/2 times from the recorded history", hang.op_index, hang.signature));
            }
        }
    }
}

// ---------------------------------------------------------------- generation

fn gen_history(rng: &mut Rng, idx: usize) -> History {
    let n_layers = if idx % 3 == 2 { 3 } else { 2 };
    let mut layers = vec![LayerKind::Memory { max_entries: rng.urange(1, 3), policy: (*rng.pick(&["Lru", "Lru", "Lfu", "Fifo", "Random"])).to_string() }];
    if idx % 11 == 5 {
        // a disk cache as the FIRST layer (put / put_with_ttl / validated puts land on disk; nothing is evicted there)
        layers[0] = LayerKind::Disk { subdir_levels: idx % 3 };
    }
    for i in 1..n_layers {
        // make sure most histories have a disk layer (faults need one), some are memory only
        let disk = match (idx / 3) % 4 {
            0 => i == n_layers - 1,
            1 => true,
            2 => i == 1,
            _ => false,
        };
        layers.push(if disk {
            LayerKind::Disk { subdir_levels: rng.urange(0, 2) }
        } else {
            LayerKind::Memory { max_entries: *rng.pick(&[2usize, 4, 16, 64]), policy: "Lru".to_string() }
        });
    }
    let strategy = match idx % 7 {
        0 => Strategy::OnHit,
        1 => Strategy::AfterNHits(rng.range(1, 3) as u32),
        2 => Strategy::Frequency { threshold_milli: 0 },
        3 => Strategy::Frequency { threshold_milli: 1_000_000_000 },
        4 => Strategy::Age { min_age_ms: 0 },
        5 => Strategy::Age { min_age_ms: 3_600_000 },
        _ => Strategy::Manual,
    };
    let hooks = match (idx / 7) % 8 {
        0 | 1 => Hooks::Md5,
        2 => Hooks::Ngdp,
        3 => Hooks::NgdpTactJenkins,
        4 => Hooks::StrictErr,
        5 => Hooks::SoftInvalid,
        6 => Hooks::NoOp,
        _ => Hooks::Unset,
    };
    let short_cleanup = rng.chance(1, 10);
    let universe = rng.urange(4, 10);
    let n_ops = rng.urange(10, 80);
    let mut tag = ((idx as u64) + 1) << 16;
    let hot = rng.urange(1, universe);
    let mut ops = Vec::with_capacity(n_ops);
    let mut settles = 0;
    let disk_layers: Vec<usize> = layers.iter().enumerate().filter(|(_, l)| matches!(l, LayerKind::Disk { .. })).map(|(i, _)| i).collect();
    // (layer, key) pairs the history has written to lower layers: preferred targets of promote / damage
    let mut placed: Vec<(usize, usize)> = Vec::new();
    for _ in 0..n_ops {
        let k = if rng.chance(2, 3) { rng.usize_below(hot) } else { rng.usize_below(universe) };
        let len = match rng.below(8) {
            0 => 0,
            1 => 1,
            2..=5 => rng.urange(8, 200),
            _ => rng.urange(200, 5000),
        };
        tag += 1;
        let r = rng.below(1000);
        let op = if r < 110 {
            Op::Put { k, len, tag }
        } else if r < 160 {
            Op::PutTtl { k, len, tag, zero: rng.chance(1, 2) }
        } else if r < 300 {
            // mostly lower layers; occasionally an invalid index
            let layer = if rng.chance(1, 25) { n_layers } else if rng.chance(3, 4) { rng.urange(1, n_layers - 1) } else { 0 };
            if layer > 0 && layer < n_layers {
                placed.push((layer, k));
            }
            Op::PutToLayer { k, len, tag, layer }
        } else if r < 335 {
            Op::Search {
                k,
                pat: match rng.below(5) {
                    0 | 1 => Pat::FromValue { off: rng.usize_below(64), len: rng.urange(1, 9) },
                    2 | 3 => Pat::Fill { len: rng.urange(1, 9) },
                    _ => Pat::Absent { len: rng.urange(2, 6) },
                },
            }
        } else if r < 355 && !disk_layers.is_empty() {
            // the key ends up only in a disk layer and (if there is one) in a slower layer behind it; then the
            // disk layer's file is broken between the probes and the read
            let d = *rng.pick(&disk_layers);
            ops.push(Op::Remove { k });
            ops.push(Op::PutToLayer { k, len: len.max(6), tag, layer: d });
            if d + 1 < n_layers {
                tag += 1;
                ops.push(Op::PutToLayer { k, len: len.max(6) + 1, tag, layer: rng.urange(d + 1, n_layers - 1) });
            }
            Op::BreakThenRead { k, layer: d, read: *rng.pick(&[ReadKind::Get, ReadKind::Get, ReadKind::GetValidatedNoKey, ReadKind::BatchGet, ReadKind::Search]) }
        } else if r < 520 {
            Op::Get { k }
        } else if r < 570 {
            Op::GetFromLayer { k, layer: if rng.chance(1, 20) { n_layers } else { rng.usize_below(n_layers) } }
        } else if r < 630 {
            if !placed.is_empty() && rng.chance(2, 3) {
                let (from, pk) = *rng.pick(&placed);
                Op::Promote { k: pk, from, to: rng.usize_below(from) }
            } else {
                let bound = if rng.chance(1, 8) { n_layers + 1 } else { n_layers };
                let (a, b) = (rng.usize_below(bound), rng.usize_below(bound));
                if rng.chance(3, 4) { Op::Promote { k, from: a.max(b), to: a.min(b) } } else { Op::Promote { k, from: a, to: b } }
            }
        } else if r < 690 {
            Op::Remove { k }
        } else if r < 705 {
            Op::Clear
        } else if r < 745 {
            let n = rng.urange(0, 6);
            Op::BatchGet { ks: (0..n).map(|_| rng.usize_below(universe)).collect() }
        } else if r < 780 {
            let n = rng.urange(0, 5);
            Op::BatchPut { items: (0..n).map(|j| (rng.usize_below(universe), rng.urange(0, 300), tag * 16 + j as u64)).collect() }
        } else if r < 830 {
            Op::PutValidated { k, len, tag, wrong_key: rng.chance(1, 4), ttl: if rng.chance(1, 3) { Some(rng.bool()) } else { None } }
        } else if r < 910 {
            Op::GetValidated { k, with_key: rng.chance(5, 6) }
        } else if r < 965 && !disk_layers.is_empty() {
            let on_disk: Vec<(usize, usize)> = placed.iter().copied().filter(|(l, _)| disk_layers.contains(l)).collect();
            let (layer, dk) = if !on_disk.is_empty() && rng.chance(5, 6) { *rng.pick(&on_disk) } else { (*rng.pick(&disk_layers), k) };
            Op::Damage { k: dk, layer, how: *rng.pick(&[Damage::FlipByte, Damage::FlipByte, Damage::Truncate, Damage::Truncate, Damage::Delete, Damage::Delete, Damage::Replace, Damage::Replace, Damage::MakeDirectory]) }
        } else if r < 972 {
            Op::Contains { k }
        } else if r < 978 && !disk_layers.is_empty() {
            // the cache is dropped and created again over its directories; half of the time the very next call is a
            // clear / remove / read, i.e. the first thing the new instance is asked concerns what the earlier one left
            ops.push(Op::Reopen);
            let pk = if !placed.is_empty() && rng.chance(3, 4) { rng.pick(&placed).1 } else { k };
            match rng.below(8) {
                0 | 1 => Op::Clear,
                2 | 3 => Op::Remove { k: pk },
                4 => Op::Get { k: pk },
                5 => Op::BatchGet { ks: vec![pk, k] },
                6 => Op::GetValidated { k: pk, with_key: true },
                _ => Op::Stats,
            }
        } else if r < 983 {
            Op::Size
        } else if r < 992 || !short_cleanup || settles >= 2 {
            Op::Stats
        } else {
            settles += 1;
            Op::Settle { ms: 60 }
        };
        ops.push(op);
    }
    History { label: format!("random#{idx}"), cfg: Cfg { layers, strategy, short_cleanup, hooks }, universe, ops }
}

/// Hand-written histories for the behaviours the property text names explicitly.
fn directed() -> Vec<History> {
    let mem = |n: usize| LayerKind::Memory { max_entries: n, policy: "Lru".to_string() };
    let disk = |l: usize| LayerKind::Disk { subdir_levels: l };
    let mut v = Vec::new();
    // 1. the design-time witness: second hit of a key that lives only in a lower layer
    for (name, l2) in [("memory", mem(16)), ("disk", disk(0))] {
        v.push(History {
            label: format!("directed:second-hit-in-lower-{name}-layer"),
            cfg: Cfg { layers: vec![mem(2), l2], strategy: Strategy::OnHit, short_cleanup: false, hooks: Hooks::Md5 },
            universe: 2,
            ops: vec![Op::PutToLayer { k: 0, len: 32, tag: 1, layer: 1 }, Op::Get { k: 0 }, Op::Get { k: 0 }, Op::Get { k: 0 }],
        });
    }
    // 2. put (tracked), L1 evicts it, an older copy sits in L2
    v.push(History {
        label: "directed:older-copy-surfaces-after-eviction".into(),
        cfg: Cfg { layers: vec![mem(1), disk(1)], strategy: Strategy::AfterNHits(2), short_cleanup: false, hooks: Hooks::Md5 },
        universe: 3,
        ops: vec![
            Op::PutToLayer { k: 0, len: 40, tag: 10, layer: 1 },
            Op::Put { k: 0, len: 41, tag: 11 },
            Op::Put { k: 1, len: 42, tag: 12 },
            Op::Get { k: 0 },
            Op::Get { k: 0 },
            Op::GetValidated { k: 0, with_key: true },
            Op::Get { k: 0 },
        ],
    });
    // 3. corrupted disk file found by a validated read must be gone from every layer
    v.push(History {
        label: "directed:corrupted-disk-entry-dropped-everywhere".into(),
        cfg: Cfg { layers: vec![mem(2), mem(8), disk(0)], strategy: Strategy::Manual, short_cleanup: false, hooks: Hooks::Md5 },
        universe: 2,
        ops: vec![
            Op::PutToLayer { k: 0, len: 100, tag: 20, layer: 2 },
            Op::Damage { k: 0, layer: 2, how: Damage::FlipByte },
            Op::Promote { k: 0, from: 2, to: 1 },
            Op::GetValidated { k: 0, with_key: true },
            Op::Get { k: 0 },
            Op::PutToLayer { k: 1, len: 64, tag: 21, layer: 2 },
            Op::Damage { k: 1, layer: 2, how: Damage::Truncate },
            Op::GetValidated { k: 1, with_key: true },
            Op::Get { k: 1 },
        ],
    });
    // 4. remove / clear reach every layer
    v.push(History {
        label: "directed:remove-and-clear-reach-every-layer".into(),
        cfg: Cfg { layers: vec![mem(3), mem(8), disk(2)], strategy: Strategy::Age { min_age_ms: 0 }, short_cleanup: false, hooks: Hooks::Md5 },
        universe: 3,
        ops: vec![
            Op::Put { k: 0, len: 10, tag: 30 },
            Op::PutToLayer { k: 0, len: 11, tag: 31, layer: 1 },
            Op::PutToLayer { k: 0, len: 12, tag: 32, layer: 2 },
            Op::Remove { k: 0 },
            Op::Get { k: 0 },
            Op::PutToLayer { k: 1, len: 13, tag: 33, layer: 2 },
            Op::PutToLayer { k: 2, len: 14, tag: 34, layer: 1 },
            Op::Clear,
            Op::BatchGet { ks: vec![0, 1, 2] },
        ],
    });
    // 5. a faster layer whose read FAILS has to be skipped: the entry behind it is still found (every read entry point)
    for (lname, layers) in [("MDM", vec![mem(2), disk(0), mem(8)]), ("MDD", vec![mem(2), disk(1), disk(0)]), ("DM", vec![disk(0), mem(8)])] {
        for read in [ReadKind::Get, ReadKind::GetValidatedNoKey, ReadKind::BatchGet, ReadKind::Search] {
            let broken = layers.len() - 2;
            v.push(History {
                label: format!("directed:failing-faster-layer-is-skipped/{lname}/{read:?}"),
                cfg: Cfg { layers: layers.clone(), strategy: Strategy::Manual, short_cleanup: false, hooks: Hooks::Md5 },
                universe: 2,
                ops: vec![
                    Op::PutToLayer { k: 0, len: 48, tag: 40, layer: broken },
                    Op::PutToLayer { k: 0, len: 49, tag: 41, layer: broken + 1 },
                    Op::BreakThenRead { k: 0, layer: broken, read },
                    Op::Get { k: 0 },
                    Op::PutToLayer { k: 0, len: 50, tag: 42, layer: broken },
                    Op::Get { k: 0 },
                    Op::Remove { k: 0 },
                ],
            });
        }
    }
    // 6. validated puts with a TTL: refused on a wrong key, stored with that TTL otherwise
    v.push(History {
        label: "directed:validated-put-with-ttl".into(),
        cfg: Cfg { layers: vec![mem(3), disk(0)], strategy: Strategy::OnHit, short_cleanup: false, hooks: Hooks::Md5 },
        universe: 3,
        ops: vec![
            Op::PutValidated { k: 0, len: 70, tag: 50, wrong_key: false, ttl: Some(false) },
            Op::Get { k: 0 },
            Op::PutValidated { k: 1, len: 71, tag: 51, wrong_key: false, ttl: Some(true) },
            Op::Get { k: 1 },
            Op::PutValidated { k: 2, len: 72, tag: 52, wrong_key: true, ttl: Some(false) },
            Op::Get { k: 2 },
            Op::PutValidated { k: 0, len: 73, tag: 53, wrong_key: true, ttl: Some(true) },
            Op::GetValidated { k: 0, with_key: true },
        ],
    });
    // 7. search_content is a read through the layers
    v.push(History {
        label: "directed:search-content-reads-through-the-layers".into(),
        cfg: Cfg { layers: vec![mem(1), mem(8), disk(0)], strategy: Strategy::OnHit, short_cleanup: false, hooks: Hooks::Md5 },
        universe: 3,
        ops: vec![
            Op::Put { k: 0, len: 300, tag: 60 },
            Op::Search { k: 0, pat: Pat::FromValue { off: 0, len: 8 } },
            Op::Search { k: 0, pat: Pat::Fill { len: 5 } },
            Op::Search { k: 0, pat: Pat::Fill { len: 1 } },
            Op::Search { k: 0, pat: Pat::Absent { len: 4 } },
            Op::PutToLayer { k: 1, len: 64, tag: 61, layer: 2 },
            Op::Search { k: 1, pat: Pat::FromValue { off: 3, len: 6 } },
            Op::Search { k: 1, pat: Pat::Fill { len: 4 } },
            Op::Search { k: 1, pat: Pat::Fill { len: 4 } },
            Op::PutToLayer { k: 1, len: 33, tag: 62, layer: 1 },
            Op::Search { k: 1, pat: Pat::Fill { len: 7 } },
            Op::Remove { k: 1 },
            Op::Search { k: 1, pat: Pat::Fill { len: 2 } },
            Op::Search { k: 2, pat: Pat::Absent { len: 3 } },
        ],
    });
    // 8. every kind of validation hooks: wrong-key put, corrupted entry in a lower layer met by a validated read
    for hooks in [Hooks::Md5, Hooks::Ngdp, Hooks::NgdpTactJenkins, Hooks::StrictErr, Hooks::SoftInvalid, Hooks::NoOp, Hooks::Unset] {
        v.push(History {
            label: format!("directed:hooks/{}", hooks.name()),
            cfg: Cfg { layers: vec![mem(2), mem(8), disk(0)], strategy: Strategy::Manual, short_cleanup: false, hooks },
            universe: 2,
            ops: vec![
                Op::PutValidated { k: 0, len: 90, tag: 70, wrong_key: true, ttl: None },
                Op::PutValidated { k: 0, len: 91, tag: 71, wrong_key: false, ttl: None },
                Op::GetValidated { k: 0, with_key: true },
                Op::PutToLayer { k: 1, len: 100, tag: 72, layer: 2 },
                Op::Damage { k: 1, layer: 2, how: Damage::FlipByte },
                Op::Promote { k: 1, from: 2, to: 1 },
                Op::GetValidated { k: 1, with_key: true },
                Op::Get { k: 1 },
                Op::Stats,
                Op::Size,
            ],
        });
    }
    // 10. remove / clear / reads on a cache that was created again over the directories an earlier instance filled
    for (lname, layers) in [("MD", vec![mem(2), disk(0)]), ("MMD", vec![mem(2), mem(8), disk(2)]), ("DM", vec![disk(1), mem(8)]), ("MDD", vec![mem(1), disk(0), disk(1)])] {
        let d = layers.iter().position(|l| matches!(l, LayerKind::Disk { .. })).unwrap_or(0);
        let last = layers.len() - 1;
        v.push(History {
            label: format!("directed:re-created-cache/{lname}"),
            cfg: Cfg { layers, strategy: Strategy::OnHit, short_cleanup: false, hooks: Hooks::Md5 },
            universe: 4,
            ops: vec![
                Op::PutToLayer { k: 0, len: 30, tag: 90, layer: d },
                Op::PutToLayer { k: 1, len: 31, tag: 91, layer: last },
                Op::Put { k: 2, len: 32, tag: 92 },
                Op::Reopen,
                Op::Get { k: 0 },
                Op::Get { k: 2 },
                Op::Reopen,
                Op::Remove { k: 1 },
                Op::Get { k: 1 },
                Op::PutToLayer { k: 3, len: 33, tag: 93, layer: last },
                Op::Reopen,
                Op::Clear,
                Op::BatchGet { ks: vec![0, 1, 2, 3] },
                Op::PutToLayer { k: 1, len: 34, tag: 94, layer: d },
                Op::Reopen,
                Op::GetValidated { k: 1, with_key: true },
                Op::Size,
                Op::Stats,
            ],
        });
    }
    // 9. a disk cache as the first layer
    v.push(History {
        label: "directed:first-layer-on-disk".into(),
        cfg: Cfg { layers: vec![disk(1), mem(4)], strategy: Strategy::AfterNHits(1), short_cleanup: false, hooks: Hooks::Md5 },
        universe: 3,
        ops: vec![
            Op::Put { k: 0, len: 20, tag: 80 },
            Op::PutTtl { k: 1, len: 21, tag: 81, zero: true },
            Op::PutTtl { k: 2, len: 22, tag: 82, zero: false },
            Op::Get { k: 0 },
            Op::Get { k: 1 },
            Op::PutToLayer { k: 1, len: 23, tag: 83, layer: 1 },
            Op::Get { k: 1 },
            Op::Get { k: 1 },
            Op::Damage { k: 2, layer: 0, how: Damage::Truncate },
            Op::GetValidated { k: 2, with_key: true },
            Op::Get { k: 2 },
            Op::Remove { k: 0 },
            Op::Clear,
        ],
    });
    v
}

fn install_noop_sync() -> Option<tempfile::TempDir> {
    // the disk layers' sync task executes the external `sync` command once at start-up
    // (flushes every filesystem of the machine; arbitrarily slow on a busy host and
    // irrelevant here): shadow it with /bin/true so that it cannot trip the watchdog
    let dir = tempfile::Builder::new().prefix("vh-c12-bin-").tempdir().ok()?;
    let truebin = ["/bin/true", "/usr/bin/true"].into_iter().find(|p| Path::new(p).exists())?;
    std::os::unix::fs::symlink(truebin, dir.path().join("sync")).ok()?;
    let old = std::env::var("PATH").unwrap_or_default();
    // SAFETY: called at the very start of main, before any other thread exists.
    unsafe { std::env::set_var("PATH", format!("{}:{old}", dir.path().display())) };
    Some(dir)
}

fn quiet_stderr() {
    // the cache reports every validation failure / layer error with eprintln!: keep the
    // verdict output readable by sending stderr to a log file next to the build output
    let dir = std::env::var("CARGO_TARGET_DIR").unwrap_or_else(|_| "/tmp".to_string());
    let path = format!("{dir}/c12-stderr.log");
    if let Ok(f) = std::fs::File::create(&path) {
        use std::os::unix::io::IntoRawFd;
        let fd = f.into_raw_fd();
        // SAFETY: dup2 on two valid descriptors owned by this process.
        unsafe {
            libc::dup2(fd, 2);
            libc::close(fd);
        }
    }
}

fn main() {
    let fake_bin = install_noop_sync();
    let ctx = Ctx::init("C12", "exploration");
    quiet_stderr();
    ctx.set_rule("histories of 10-80 operations (put / put_with_ttl / put_to_layer / get / get_from_layer / promote / remove / clear / batch_get / batch_put / put_with_validation / get_with_validation + corruption, truncation, deletion of disk-layer files + dropping the cache and creating it again over the same directories) over 2-3 layers (memory L1 with max_entries 1-3; memory or disk L2/L3), all five promotion strategies, every call under a 5 s watchdog; non-trivial = some get served by a layer > 0 or a validation failure injected; distinct by hash of (configuration, operation list)");
    ctx.assume("a call that needs more than 5 s (8 s on re-runs) three times in a row from the same recorded history never returns");
    ctx.assume("bytes written into a disk layer's file by the harness count as the value 'put to that layer' (plain reads are not validated by the statement)");
    if fake_bin.is_none() {
        ctx.obs("harness.noop_sync_not_installed", 1);
    }
    let shared = Shared { confirmed: Mutex::new(Vec::new()), hang_events: AtomicU32::new(0) };

    if let Some(detail) = ctx.replay_detail() {
        match serde_json::from_value::<History>(detail.get("history").cloned().unwrap_or_default()) {
            Ok(h) => {
                run_history(&ctx, &shared, &h);
                ctx.nontrivial(1);
                ctx.nontrivial(2);
            }
            Err(e) => ctx.inconclusive(&format!("replay file carries no history: {e}")),
        }
        drop(fake_bin);
        ctx.finish();
    }

    let n_random = ctx.pick(600usize, 15_000);
    let dir_histories = directed();
    let total = dir_histories.len() + n_random;
    let next = std::sync::atomic::AtomicUsize::new(0);
    let deadline_s = ctx.pick(90.0, 540.0);
    let hang_cap = 12u32;
    std::thread::scope(|s| {
        for _ in 0..16 {
            let (ctx, shared, next, dir_histories) = (&ctx, &shared, &next, &dir_histories);
            s.spawn(move || {
                loop {
                    let i = next.fetch_add(1, Ordering::Relaxed);
                    if i >= total {
                        break;
                    }
                    if ctx.elapsed_s() > deadline_s {
                        ctx.obs("histories.skipped_budget_exhausted", 1);
                        continue;
                    }
                    if shared.hang_events.load(Ordering::Relaxed) >= hang_cap {
                        // verdict is already "violated"; every further hang costs 5 s of wall-clock
                        ctx.obs("histories.skipped_after_hang_cap", 1);
                        continue;
                    }
                    let h = if i < dir_histories.len() { dir_histories[i].clone() } else { gen_history(&mut ctx.rng(5000 + (i - dir_histories.len()) as u64), i - dir_histories.len()) };
                    if ctx.want_sample() && i < dir_histories.len() {
                        ctx.sample(json!({"label": h.label, "cfg": serde_json::to_value(&h.cfg).unwrap_or_default(), "ops": serde_json::to_value(&h.ops).unwrap_or_default()}));
                    }
                    run_history(ctx, shared, &h);
                }
            });
        }
    });

    // self-checks: the run must have observed what it claims to test
    let served_lower: u64 = (1..3).map(|l| ctx.get_obs(&format!("get.served_by_layer{l}"))).sum();
    let evictions = ctx.get_obs("layer0.live_entry_dropped(eviction_observed)");
    let injected = ctx.get_obs("validation.read_of_entry_not_hashing_to_key_injected") + ctx.get_obs("validation.put_with_wrong_key_injected");
    let damaged = ctx.get_obs("damage.file_deleted") + ctx.get_obs("damage.file_FlipByte") + ctx.get_obs("damage.file_Truncate") + ctx.get_obs("damage.file_Replace");
    let skipped = ctx.get_obs("histories.skipped_after_hang_cap");
    if skipped == 0 {
        for (n, why) in [(served_lower, "no get was served by a layer > 0"), (evictions, "no eviction was observed in the first layer"), (injected, "no validation failure was injected"), (damaged, "no disk-layer file was damaged")] {
            if n == 0 {
                ctx.inconclusive(why);
            }
        }
    }
    if skipped == 0 {
        // the sub-workloads added for the APIs and branches the first version never reached must have run
        let mut need: Vec<(String, &str)> = vec![
            ("op.search_content".into(), "search_content was never called"),
            ("search_content.several_occurrences(agree)".into(), "no search_content call with several occurrences was judged"),
            ("op.put_with_validation_and_ttl".into(), "put_with_validation_and_ttl was never called"),
            ("put_with_validation_and_ttl.refused_mismatch".into(), "put_with_validation_and_ttl never met a wrong content key"),
            ("histories.first_layer_on_disk".into(), "no history had a disk cache as its first layer"),
            ("damage.file_MakeDirectory".into(), "no disk-layer file was replaced by a directory"),
            ("validation.returned_object_self_check_judged".into(), "the object returned by a validated read was never cross-checked"),
            ("layer_stats.invalid_layer_refused".into(), "layer_count / layer_stats were never called"),
            ("reopen.entries_left_in_disk_layers".into(), "the cache was never created again over a directory that held entries"),
            ("reopen.clear_right_after_reopen_over_entries_left_on_disk".into(), "clear was never the first call on a cache created again over a filled directory"),
            ("reopen.remove_right_after_reopen_of_a_key_left_on_disk".into(), "remove was never the first call on a cache created again over a directory holding the key"),
        ];
        for api in ["get", "get_with_validation(no key)", "batch_get", "search_content"] {
            need.push((format!("break.entry_only_behind_the_failing_layer.{api}"), "a read entry point never met a failing faster layer with the entry behind it"));
        }
        for hooks in [Hooks::Md5, Hooks::Ngdp, Hooks::NgdpTactJenkins, Hooks::StrictErr, Hooks::SoftInvalid, Hooks::NoOp, Hooks::Unset] {
            need.push((format!("histories.hooks={}", hooks.name()), "a kind of validation hooks was never installed"));
        }
        for (k, why) in need {
            if ctx.get_obs(&k) == 0 {
                ctx.inconclusive(&format!("{why} ({k})"));
            }
        }
    }
    ctx.set_extra("summary", json!({"gets_served_by_lower_layers": served_lower, "first_layer_evictions_observed": evictions, "validation_failures_injected": injected, "disk_files_damaged": damaged, "watchdog_fired": ctx.get_obs("watchdog.fired")}));
    drop(fake_bin);
    ctx.finish();
}
