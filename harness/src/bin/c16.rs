//! C16 — applying a generated ZBSDIFF patch to the old file yields the new file.
//!
//! Workload: ALL pairs of strings of length 0..=5 over {a,b} (3969 pairs) x the
//! four builder entry points (simple, chunked, optimized, `build()`) x
//! max_diff_block_size in {1,2,3,8,default}; random pairs
//! derived from a base file by insert/delete/move/repeat/flip/overwrite edits
//! (plus empty old, empty new, new = old, prefixes, unrelated); the CDN fixture
//! pairs of the repository. Every produced patch is applied by
//! `apply_patch_memory`, `ZbsDiff::parse(..).apply(..)`, the `CascFormat`
//! parse+build entry points, the streaming `ZbsdiffPatcher` with buffer sizes
//! {1,2,7,64,4096,default} and sizes at the largest block of the patch, and
//! `ZbsdiffPatcher::apply_patch` fed through the `ZbsDiff` accessors. The
//! accessors of the parsed patch are compared with an independent parse, and
//! variants of each patch whose parts do not add up are applied: every applier
//! must fail or return exactly the length the header states.
//!
//! Oracle: output == new and len(output) == header.output_size — or the builder
//! returned Err (refusal: counted, not judged). The independent bspatch of
//! `vh::refimpl::bspatch` is applied to the same patch bytes: it tells a
//! builder that emitted a wrong patch from a patcher that mis-applies a right
//! one (the signature says which). A sample of (old, patch, md5(new)) is logged
//! and replayed by a second, Python bspatch (`pyref/c16.py`).

use cascette_formats::CascFormat;
use cascette_formats::zbsdiff::{ControlBlock, ControlEntry, ZbsDiff, ZbsdiffBuilder, ZbsdiffHeader, ZbsdiffPatcher, apply_patch_memory, compress_zlib};
use serde_json::{Value, json};
use std::collections::BTreeMap;
use std::io::{Cursor, Write};
use std::panic::{AssertUnwindSafe, catch_unwind};
use std::sync::Mutex;
use vh::refimpl::bspatch;
use vh::{Ctx, Rng, fnv64, hex_short, mix64};

#[derive(Clone, Copy, PartialEq, Eq, Debug)]
enum Builder {
    Simple,
    Chunked,
    Optimized,
    /// `ZbsdiffBuilder::build()` — the recommended entry point (documented as the suffix-array builder)
    Build,
}

impl Builder {
    const ALL: [Builder; 3] = [Builder::Simple, Builder::Chunked, Builder::Optimized];
    const WITH_BUILD: [Builder; 4] = [Builder::Simple, Builder::Chunked, Builder::Optimized, Builder::Build];
    fn name(self) -> &'static str {
        match self {
            Builder::Simple => "build_simple_patch",
            Builder::Chunked => "build_chunked_patch",
            Builder::Optimized => "build_optimized_patch",
            Builder::Build => "build",
        }
    }
    fn from_name(s: &str) -> Option<Self> {
        Self::WITH_BUILD.into_iter().find(|b| b.name() == s)
    }
}

const BLOCK_SIZES: [Option<usize>; 5] = [Some(1), Some(2), Some(3), Some(8), None];
const BUFFER_SIZES: [Option<usize>; 6] = [Some(1), Some(2), Some(7), Some(64), Some(4096), None];

/// Thread-local counters, flushed into Ctx at the end of a shard.
#[derive(Default)]
struct Local {
    evals: u64,
    hashes: Vec<u64>,
    obs: BTreeMap<String, u64>,
}

impl Local {
    fn obs(&mut self, k: &str, n: u64) {
        *self.obs.entry(k.to_string()).or_insert(0) += n;
    }
    fn obs_max(&mut self, k: &str, n: u64) {
        let e = self.obs.entry(k.to_string()).or_insert(0);
        if n > *e {
            *e = n;
        }
    }
    fn flush(&mut self, ctx: &Ctx) {
        ctx.add_evals(self.evals);
        ctx.add_nontrivial(self.hashes.drain(..));
        for (k, v) in &self.obs {
            if k.starts_with("max.") {
                ctx.obs_max(k, *v);
            } else {
                ctx.obs(k, *v);
            }
        }
        self.evals = 0;
        self.obs.clear();
    }
}

struct PyLog {
    file: Option<std::io::BufWriter<std::fs::File>>,
    every: u64,
    n: u64,
    written: u64,
    bytes: u64,
    byte_budget: u64,
}

impl PyLog {
    fn offer(&mut self, old: &[u8], patch: &[u8], new: &[u8], builder: Builder, ref_ok: bool) {
        self.n += 1;
        // every wrong-per-reference patch is logged; the rest is sampled
        if ref_ok && self.n % self.every != 0 {
            return;
        }
        let cost = (old.len() + patch.len()) as u64;
        if self.bytes + cost > self.byte_budget {
            return;
        }
        if let Some(f) = self.file.as_mut() {
            let line = json!({
                "builder": builder.name(),
                "old": hex::encode(old),
                "patch": hex::encode(patch),
                "new_len": new.len(),
                "new_md5": hex::encode(md5::compute(new).0),
                "ref_ok": ref_ok,
            });
            if writeln!(f, "{line}").is_ok() {
                self.written += 1;
                self.bytes += cost;
            }
        }
    }
}


/// `Read + Seek` wrapper that never returns more than `max` bytes per `read` call.
struct ShortReader<R> {
    inner: R,
    max: usize,
}

impl<R: std::io::Read> std::io::Read for ShortReader<R> {
    fn read(&mut self, buf: &mut [u8]) -> std::io::Result<usize> {
        let n = buf.len().min(self.max);
        self.inner.read(&mut buf[..n])
    }
}

impl<R: std::io::Seek> std::io::Seek for ShortReader<R> {
    fn seek(&mut self, pos: std::io::SeekFrom) -> std::io::Result<u64> {
        self.inner.seek(pos)
    }
}

fn panic_text(p: &Box<dyn std::any::Any + Send>) -> String {
    vh::monitor::watchdog::panic_message(p)
}

/// Error text reduced to a stable class: digits collapsed, truncated.
fn err_class(e: &str) -> String {
    let mut out = String::new();
    let mut last_hash = false;
    for ch in e.chars() {
        if ch.is_ascii_digit() {
            if !last_hash {
                out.push('#');
                last_hash = true;
            }
        } else {
            out.push(ch);
            last_hash = false;
        }
        if out.len() >= 48 {
            break;
        }
    }
    out
}

fn pair_detail(old: &[u8], new: &[u8], b: Builder, block: Option<usize>, origin: &str, extra: Value) -> Value {
    let full = old.len() + new.len() <= 256 * 1024;
    json!({
        "builder": b.name(),
        "max_diff_block_size": block,
        "origin": origin,
        "old_len": old.len(),
        "new_len": new.len(),
        "old_hex": if full { Value::String(hex::encode(old)) } else { Value::Null },
        "new_hex": if full { Value::String(hex::encode(new)) } else { Value::Null },
        "old_head": hex_short(old, 48),
        "new_head": hex_short(new, 48),
        "info": extra,
    })
}

type ApplyResult = Result<Vec<u8>, String>;

fn guarded(f: impl FnOnce() -> ApplyResult) -> ApplyResult {
    match catch_unwind(AssertUnwindSafe(f)) {
        Ok(r) => r,
        Err(p) => Err(format!("PANIC: {}", panic_text(&p))),
    }
}

/// One (old, new, builder, block size) case: build, apply with every applier, judge.
#[allow(clippy::too_many_arguments)]
fn run_case(
    ctx: &Ctx,
    loc: &mut Local,
    pylog: &Mutex<PyLog>,
    old: &[u8],
    new: &[u8],
    b: Builder,
    block: Option<usize>,
    origin: &str,
    gen_info: &Value,
) {
    loc.evals += 1;
    let bname = b.name();
    let t_build = std::time::Instant::now();
    let built = catch_unwind(AssertUnwindSafe(|| {
        let mut zb = ZbsdiffBuilder::new(old.to_vec(), new.to_vec());
        if let Some(bs) = block {
            zb = zb.with_max_diff_block_size(bs);
        }
        match b {
            Builder::Simple => zb.build_simple_patch(),
            Builder::Chunked => zb.build_chunked_patch(),
            Builder::Optimized => zb.build_optimized_patch(),
            Builder::Build => zb.build(),
        }
    }));
    let build_ms = t_build.elapsed().as_millis() as u64;
    loc.obs_max(&format!("max.build_ms.{bname}"), build_ms);
    if build_ms > 2000 && std::env::var_os("C16_PROFILE").is_some() {
        eprintln!("slow build: {bname} {build_ms} ms old={} new={} gen={gen_info}", old.len(), new.len());
    }
    let patch = match built {
        Err(p) => {
            // neither a patch nor an Err: outside the statement of C16 (a C02-style
            // robustness matter) — made visible, not judged
            loc.obs(&format!("build.panicked.{bname}"), 1);
            if ctx.want_sample() {
                ctx.sample(json!({"kind":"builder panicked (observation)","builder":bname,"message":panic_text(&p),"old_len":old.len(),"new_len":new.len()}));
            }
            return;
        }
        Ok(Err(e)) => {
            let class = if new.is_empty() { "new_empty" } else { "other" };
            loc.obs(&format!("build.refused.{bname}.{class}"), 1);
            if class == "other" && ctx.want_sample() {
                ctx.sample(json!({"kind":"builder refusal (observation)","builder":bname,"error":e.to_string(),"old_len":old.len(),"new_len":new.len()}));
            }
            return;
        }
        Ok(Ok(p)) => p,
    };
    loc.obs(&format!("build.ok.{bname}"), 1);
    loc.obs_max("max.patch_bytes", patch.len() as u64);
    loc.obs_max("max.old_bytes", old.len() as u64);
    loc.obs_max("max.new_bytes", new.len() as u64);

    // ---- independent view of the patch
    let parsed = bspatch::parse(&patch);
    let mut max_diff_block = 0i64;
    let mut max_block = 0i64;
    let nontrivial = match &parsed {
        Ok(p) => {
            let n = p.control.len();
            let cls = match n {
                0 => "0",
                1 => "1",
                2..=3 => "2-3",
                4..=15 => "4-15",
                16..=255 => "16-255",
                _ => "256+",
            };
            loc.obs(&format!("patch.control_entries.{cls}"), 1);
            let shape = match (p.diff.is_empty(), p.extra.is_empty()) {
                (true, true) => "empty",
                (false, true) => "diff_only",
                (true, false) => "extra_only",
                (false, false) => "diff_and_extra",
            };
            loc.obs(&format!("patch.shape.{shape}"), 1);
            if p.diff.iter().any(|&d| d != 0) {
                loc.obs("patch.has_nonzero_diff_bytes", 1);
            }
            if p.control.iter().any(|c| c.2 < 0) {
                loc.obs("patch.has_negative_seek", 1);
            }
            if p.control.iter().any(|c| c.2 > 0) {
                loc.obs("patch.has_positive_seek", 1);
            }
            max_diff_block = p.control.iter().map(|c| c.0).max().unwrap_or(0);
            max_block = p.control.iter().map(|c| c.0.max(c.1)).max().unwrap_or(0);
            n >= 2 || (!p.diff.is_empty() && !p.extra.is_empty())
        }
        Err(_) => false,
    };
    if nontrivial {
        let h = mix64(
            mix64(fnv64(old), fnv64(new)),
            mix64(fnv64(bname.as_bytes()), block.map_or(u64::MAX, |x| x as u64)),
        );
        loc.hashes.push(h);
    }
    let ref_out = bspatch::apply(old, &patch);
    let patch_right = matches!(&ref_out, Ok(o) if o.as_slice() == new);
    pylog.lock().unwrap_or_else(std::sync::PoisonError::into_inner).offer(old, &patch, new, b, patch_right);

    // ---- header
    let header = ZbsdiffHeader::parse_from_patch(&patch);
    let header_out = header.as_ref().ok().map(|h| h.output_size);
    match header_out {
        Some(n) if n == new.len() as i64 => {}
        Some(n) => ctx.violation(
            &format!("C16|{bname}|header.output_size!=len(new)"),
            "the patch header states an output size different from the length of the new file",
            pair_detail(old, new, b, block, origin, json!({"header_output_size":n,"gen":gen_info})),
        ),
        None => ctx.violation(
            &format!("C16|{bname}|own-header-rejected-by-parse_from_patch"),
            "ZbsdiffHeader::parse_from_patch rejects the header of a patch the builder just produced",
            pair_detail(old, new, b, block, origin, json!({"error":header.as_ref().err().map(ToString::to_string),"gen":gen_info})),
        ),
    }

    // ---- appliers
    let mut results: Vec<(&'static str, Option<usize>, ApplyResult)> = Vec::new();
    results.push(("apply_patch_memory", None, guarded(|| apply_patch_memory(old, &patch).map_err(|e| e.to_string()))));
    results.push((
        "ZbsDiff::apply",
        None,
        guarded(|| ZbsDiff::parse(&patch).map_err(|e| e.to_string())?.apply(old).map_err(|e| e.to_string())),
    ));
    let out_size = header_out.unwrap_or(new.len() as i64).max(0) as usize;
    for buf in BUFFER_SIZES {
        results.push((
            "ZbsdiffPatcher",
            buf,
            guarded(|| {
                let mut p = ZbsdiffPatcher::new(Cursor::new(old), out_size);
                if let Some(bs) = buf {
                    p = p.with_buffer_size(bs);
                }
                p.apply_patch_from_data(&patch).map_err(|e| e.to_string())
            }),
        ));
        if max_diff_block > buf.unwrap_or(8192).max(1024) as i64 {
            loc.obs("stream.diff_block_larger_than_buffer", 1);
        }
    }

    // the old file behind a reader that returns short reads (allowed by `std::io::Read`): a pipe, a network
    // file system or a decompressing reader behaves like this, `Cursor` and local files do not
    for (chunk, buf) in [(1usize, None), (5, Some(7usize)), (13, Some(4096))] {
        results.push((
            "ZbsdiffPatcher(short-reads)",
            buf,
            guarded(|| {
                let mut p = ZbsdiffPatcher::new(ShortReader { inner: Cursor::new(old), max: chunk }, out_size);
                if let Some(bs) = buf {
                    p = p.with_buffer_size(bs);
                }
                p.apply_patch_from_data(&patch).map_err(|e| e.to_string())
            }),
        ));
    }

    // the old file behind a reader that was USED before it is handed to the patcher (read to its end to verify a
    // checksum, partly read, or positioned by an earlier attempt): the old content is what the source holds, not
    // where its cursor happens to stand. Every other applier above gets a fresh reader at position 0.
    if !old.is_empty() {
        let h = mix64(fnv64(&patch), old.len() as u64);
        let n = old.len();
        let mut starts: Vec<(&'static str, usize)> = vec![("read-to-end", n), ("seek", 1), ("partial-read", 1 + (h as usize) % n)];
        if n > 1 {
            starts.push(("seek", n - 1));
        }
        starts.dedup_by_key(|s| s.1);
        for (i, (how, at)) in starts.into_iter().enumerate() {
            let buf = [None, Some(1024usize), Some(4096)][(i + (h >> 40) as usize) % 3];
            let components = (h >> 32).wrapping_add(i as u64) % 4 == 0;
            loc.obs(&format!("stream.old_reader_not_at_start.{how}"), 1);
            results.push((
                "ZbsdiffPatcher(old-reader-used-before)",
                buf,
                guarded(|| {
                    use std::io::{Read, Seek, SeekFrom};
                    let mut rd = Cursor::new(old);
                    match how {
                        "seek" => {
                            rd.seek(SeekFrom::Start(at as u64)).map_err(|e| format!("harness: {e}"))?;
                        }
                        "read-to-end" => {
                            let mut sink = Vec::new();
                            rd.read_to_end(&mut sink).map_err(|e| format!("harness: {e}"))?;
                        }
                        _ => {
                            let mut sink = vec![0u8; at];
                            rd.read_exact(&mut sink).map_err(|e| format!("harness: {e}"))?;
                        }
                    }
                    debug_assert_eq!(rd.position(), at as u64);
                    if components {
                        let zd = ZbsDiff::parse(&patch).map_err(|e| e.to_string())?;
                        let cb = zd.control_block().map_err(|e| e.to_string())?;
                        let d = zd.diff_data().map_err(|e| e.to_string())?;
                        let e = zd.extra_data().map_err(|e| e.to_string())?;
                        let mut p = ZbsdiffPatcher::new(rd, zd.output_size());
                        if let Some(bs) = buf {
                            p = p.with_buffer_size(bs);
                        }
                        return p.apply_patch(&cb, &d, &e).map_err(|e| e.to_string());
                    }
                    let mut p = ZbsdiffPatcher::new(rd, out_size);
                    if let Some(bs) = buf {
                        p = p.with_buffer_size(bs);
                    }
                    p.apply_patch_from_data(&patch).map_err(|e| e.to_string())
                }),
            ));
        }
    }

    // buffer sizes at the largest diff/extra block of this patch (the patcher raises every size to >= 1024, so this
    // only matters for blocks larger than that): block fits exactly / by one byte / misses by one byte
    if max_block > 1024 {
        let m = max_block as usize;
        let mut more = vec![1025usize, m - 1, m, m + 1, 65536, 1 << 20];
        more.sort_unstable();
        more.dedup();
        for bs in more {
            loc.obs("stream.buffer_sized_around_largest_block", 1);
            results.push((
                "ZbsdiffPatcher",
                Some(bs),
                guarded(|| ZbsdiffPatcher::new(Cursor::new(old), out_size).with_buffer_size(bs).apply_patch_from_data(&patch).map_err(|e| e.to_string())),
            ));
        }
    }

    // the pre-parsed-components entry point of the streaming patcher, fed through the ZbsDiff accessors
    results.push((
        "ZbsdiffPatcher::apply_patch(components)",
        None,
        guarded(|| {
            let zd = ZbsDiff::parse(&patch).map_err(|e| e.to_string())?;
            let cb = zd.control_block().map_err(|e| e.to_string())?;
            let d = zd.diff_data().map_err(|e| e.to_string())?;
            let e = zd.extra_data().map_err(|e| e.to_string())?;
            ZbsdiffPatcher::new(Cursor::new(old), zd.output_size()).apply_patch(&cb, &d, &e).map_err(|e| e.to_string())
        }),
    ));
    // the CascFormat entry points: parse, serialise again, apply the re-serialised patch
    results.push((
        "CascFormat::parse+build",
        None,
        guarded(|| {
            let zd = <ZbsDiff as CascFormat>::parse(&patch).map_err(|e| e.to_string())?;
            let rebuilt = CascFormat::build(&zd).map_err(|e| e.to_string())?;
            apply_patch_memory(old, &rebuilt).map_err(|e| e.to_string())
        }),
    ));

    let mut repo_all_new = true;
    for (applier, buf, r) in &results {
        loc.obs(&format!("apply.{applier}"), 1);
        match r {
            Ok(out) if out.as_slice() == new => {
                loc.obs("outcome.output==new", 1);
                if let Some(n) = header_out {
                    if out.len() as i64 != n {
                        ctx.violation(
                            &format!("C16|{applier}|len(output)!=header.output_size|builder={bname}"),
                            "patcher returned Ok with a length different from the header's output size",
                            pair_detail(old, new, b, block, origin, json!({"buffer_size":buf,"out_len":out.len(),"header_output_size":n,"gen":gen_info})),
                        );
                    }
                }
            }
            Ok(out) => {
                repo_all_new = false;
                loc.obs("outcome.output!=new", 1);
                if let Some(n) = header_out {
                    if out.len() as i64 != n {
                        ctx.violation(
                            &format!("C16|{applier}|len(output)!=header.output_size|builder={bname}"),
                            "patcher returned Ok with a length different from the header's output size",
                            pair_detail(old, new, b, block, origin, json!({"buffer_size":buf,"out_len":out.len(),"header_output_size":n,"gen":gen_info})),
                        );
                    }
                }
                if patch_right {
                    let first = out.iter().zip(new).position(|(a, b)| a != b);
                    ctx.violation(
                        &format!("C16|{applier}|mis-applies-right-patch(ref-bspatch-yields-new)|builder={bname}"),
                        "the patch is right (the independent bspatch turns old into new) but the repository patcher returned different bytes with Ok",
                        pair_detail(old, new, b, block, origin, json!({"buffer_size":buf,"out_len":out.len(),"first_diff":first,"gen":gen_info})),
                    );
                } else if matches!(&ref_out, Ok(o) if o == out) {
                    loc.obs("outcome.patcher_agrees_with_ref_on_wrong_patch", 1);
                } else {
                    loc.obs("outcome.patcher_differs_from_ref_on_wrong_patch", 1);
                }
            }
            Err(e) => {
                repo_all_new = false;
                loc.obs("outcome.apply_error", 1);
                if patch_right {
                    let kind = if e.starts_with("PANIC") { "panics" } else { "fails" };
                    ctx.violation(
                        &format!("C16|{applier}|{kind}-on-right-patch(ref-bspatch-yields-new)|builder={bname}"),
                        "the patch is right (the independent bspatch turns old into new) but the repository patcher did not apply it",
                        pair_detail(old, new, b, block, origin, json!({"buffer_size":buf,"error":e,"gen":gen_info})),
                    );
                }
            }
        }
    }

    if !patch_right {
        let refc = match &ref_out {
            Ok(_) => "ref-output!=new".to_string(),
            Err(e) => format!("ref-rejects:{}", err_class(e)),
        };
        let repo = if repo_all_new { "repo-patchers-yield-new" } else { "repo-patchers-wrong-too" };
        let (first, ref_len) = match &ref_out {
            Ok(o) => (o.iter().zip(new).position(|(a, b)| a != b), Some(o.len())),
            Err(_) => (None, None),
        };
        let control: Vec<(i64, i64, i64)> = parsed.as_ref().map(|p| p.control.iter().take(12).copied().collect()).unwrap_or_default();
        ctx.violation(
            &format!("C16|{bname}|emits-wrong-patch|{refc}|{repo}"),
            "the builder returned Ok but the patch does not turn old into new (judged by the independent bspatch over the same patch bytes)",
            pair_detail(
                old,
                new,
                b,
                block,
                origin,
                json!({"ref_first_diff":first,"ref_len":ref_len,"ref_error":ref_out.as_ref().err(),"first_control_entries":control,
                       "appliers": results.iter().map(|(a,bf,r)| json!({"applier":a,"buffer":bf,"result": match r { Ok(o) if o.as_slice()==new => "new".to_string(), Ok(o) => format!("different ({} bytes)", o.len()), Err(e) => format!("Err {e}") }})).collect::<Vec<_>>(),
                       "gen":gen_info}),
            ),
        );
    }

    if let Ok(p) = &parsed {
        accessor_relations(ctx, loc, old, new, b, block, origin, gen_info, &patch, p);
        // second sentence of the statement ("applying ANY patch gives the stated length or fails"): variants of this
        // patch whose header / control block / data blocks no longer agree. Every 8th case of the exhaustive part, all
        // remaining cases in quick, every third of them in thorough.
        let sampled = match origin {
            "exhaustive" => loc.evals % 8 == 0,
            "replay" => true,
            _ => ctx.quick() || fnv64(&patch) % 3 == 0,
        };
        if patch_right && sampled {
            tampered_patches(ctx, loc, old, new, b, block, origin, gen_info, &patch, p);
        }
    }

    if nontrivial && ctx.want_sample() && origin != "exhaustive" {
        ctx.sample(json!({"kind":"judged case","origin":origin,"builder":bname,"max_diff_block_size":block,"old_len":old.len(),"new_len":new.len(),
            "patch_len":patch.len(),"control_entries":parsed.as_ref().map(|p| p.control.len()).unwrap_or(0),
            "diff_bytes":parsed.as_ref().map(|p| p.diff.len()).unwrap_or(0),"extra_bytes":parsed.as_ref().map(|p| p.extra.len()).unwrap_or(0),
            "ref_bspatch_yields_new":patch_right,"gen":gen_info}));
    }
}

// ------------------------------------------------------------------ accessors of a parsed patch

/// The accessors of `ZbsDiff` / `ControlBlock` / `ZbsdiffHeader` over a patch a builder produced, against the
/// independent parse of the same bytes and against the header ("the length stated in the patch header").
#[allow(clippy::too_many_arguments)]
fn accessor_relations(ctx: &Ctx, loc: &mut Local, old: &[u8], new: &[u8], b: Builder, block: Option<usize>, origin: &str, gen_info: &Value, patch: &[u8], p: &bspatch::Patch) {
    let bname = b.name();
    type Views = (usize, Vec<(i64, i64, i64)>, i64, usize, bool, Vec<i64>, Vec<u8>, Vec<u8>, usize, i64);
    let views = catch_unwind(AssertUnwindSafe(|| -> Result<Views, String> {
        let zd = ZbsDiff::parse(patch).map_err(|e| e.to_string())?;
        let cb = zd.control_block().map_err(|e| e.to_string())?;
        Ok((
            zd.output_size(),
            cb.entries.iter().map(|e| (e.diff_size, e.extra_size, e.seek_offset)).collect(),
            cb.total_output_size(),
            cb.entry_count(),
            cb.is_empty(),
            cb.entries.iter().map(ControlEntry::output_bytes).collect(),
            zd.diff_data().map_err(|e| e.to_string())?,
            zd.extra_data().map_err(|e| e.to_string())?,
            zd.header.minimum_patch_size(),
            zd.header.compressed_data_size(),
        ))
    }));
    let (output_size, entries, total, count, empty, out_bytes, diff, extra, min_size, comp_size) = match views {
        Ok(Ok(v)) => v,
        Ok(Err(e)) => {
            ctx.violation(
                &format!("C16|ZbsDiff::accessors|fail-on-own-patch|builder={bname}"),
                "ZbsDiff::parse / control_block / diff_data / extra_data fails on a patch the builder just produced",
                pair_detail(old, new, b, block, origin, json!({"error":e,"gen":gen_info})),
            );
            return;
        }
        Err(pn) => {
            loc.obs("accessors.panicked", 1);
            if ctx.want_sample() {
                ctx.sample(json!({"kind":"accessor panicked (observation)","message":panic_text(&pn)}));
            }
            return;
        }
    };
    loc.obs("accessors.patches_checked", 1);
    // block sizes as written in the header bytes (independent read)
    let (c_sz, d_sz) = (bspatch::offtin(&patch[8..16]), bspatch::offtin(&patch[16..24]));
    let mut bad: Vec<(&'static str, Value)> = Vec::new();
    if output_size as i64 != p.output_size {
        bad.push(("ZbsDiff::output_size()!=header-bytes", json!({"output_size()":output_size,"header":p.output_size})));
    }
    if entries != p.control {
        let i = entries.iter().zip(&p.control).position(|(a, b)| a != b).unwrap_or(entries.len().min(p.control.len()));
        bad.push(("ZbsDiff::control_block()!=independent-parse", json!({"first_differing_entry":i,"repo":entries.get(i),"independent":p.control.get(i),"repo_len":entries.len(),"independent_len":p.control.len()})));
    }
    if total != p.output_size {
        bad.push(("ControlBlock::total_output_size()!=header.output_size", json!({"total_output_size()":total,"header_output_size":p.output_size})));
    }
    if count != p.control.len() || empty != p.control.is_empty() {
        bad.push(("ControlBlock::entry_count()/is_empty()!=independent-parse", json!({"entry_count()":count,"is_empty()":empty,"independent_len":p.control.len()})));
    }
    if out_bytes.iter().zip(&p.control).any(|(o, c)| *o != c.0 + c.1) {
        bad.push(("ControlEntry::output_bytes()!=diff_size+extra_size", json!({})));
    }
    if diff != p.diff {
        bad.push(("ZbsDiff::diff_data()!=independent-parse", json!({"repo_len":diff.len(),"independent_len":p.diff.len()})));
    }
    if extra != p.extra {
        bad.push(("ZbsDiff::extra_data()!=independent-parse", json!({"repo_len":extra.len(),"independent_len":p.extra.len()})));
    }
    if min_size as i64 != 32 + c_sz + d_sz || min_size > patch.len() {
        bad.push(("ZbsdiffHeader::minimum_patch_size()!=32+control+diff-or-beyond-patch", json!({"minimum_patch_size()":min_size,"control_size":c_sz,"diff_size":d_sz,"patch_len":patch.len()})));
    }
    if comp_size != c_sz + d_sz {
        bad.push(("ZbsdiffHeader::compressed_data_size()!=control+diff", json!({"compressed_data_size()":comp_size,"control_size":c_sz,"diff_size":d_sz})));
    }
    for (rel, info) in bad {
        ctx.violation(
            &format!("C16|{rel}|builder={bname}"),
            "an accessor of the parsed patch disagrees with the patch bytes (independent parse) or with the header",
            pair_detail(old, new, b, block, origin, json!({"relation":rel,"values":info,"gen":gen_info})),
        );
    }
}

// ------------------------------------------------------------------ patches that do not add up

/// Variants of a right patch in which header, control block and data blocks no longer agree (assembled with the
/// library's own `ControlBlock::new/add_entry/to_compressed`, `ZbsdiffHeader::new`, `ZbsDiff::build`, `compress_zlib`).
/// They are not "patches this library generated", so only the second sentence applies: every applier either fails or
/// returns exactly `header.output_size` bytes.
#[allow(clippy::too_many_arguments)]
fn tampered_patches(ctx: &Ctx, loc: &mut Local, old: &[u8], new: &[u8], b: Builder, block: Option<usize>, origin: &str, gen_info: &Value, patch: &[u8], p: &bspatch::Patch) {
    let bname = b.name();
    let mut rng = ctx.rng(mix64(0x7a3b_16, fnv64(patch)));
    let out = p.output_size;
    let Ok(zd) = ZbsDiff::parse(patch) else { return };
    let assemble = |control: Option<&[(i64, i64, i64)]>, diff: Option<&[u8]>, extra: Option<&[u8]>, out_size: i64, use_default: bool| -> Result<Vec<u8>, String> {
        let control_data = match control {
            Some(entries) if entries.len() % 3 == 2 => {
                // third constructor: all entries at once
                let cb = ControlBlock::with_entries(entries.iter().map(|(d, e, s)| ControlEntry::new(*d, *e, *s)).collect()).map_err(|e| e.to_string())?;
                cb.to_compressed().map_err(|e| e.to_string())?
            }
            Some(entries) => {
                let mut cb = if use_default { ControlBlock::default() } else { ControlBlock::new() };
                for (d, e, s) in entries {
                    cb.add_entry(ControlEntry::new(*d, *e, *s)).map_err(|e| e.to_string())?;
                }
                cb.to_compressed().map_err(|e| e.to_string())?
            }
            None => zd.control_data.clone(),
        };
        let diff_data = match diff {
            Some(d) => compress_zlib(d).map_err(|e| e.to_string())?,
            None => zd.diff_data.clone(),
        };
        let extra_data = match extra {
            Some(e) => compress_zlib(e).map_err(|e| e.to_string())?,
            None => zd.extra_data.clone(),
        };
        let header = ZbsdiffHeader::new(control_data.len() as i64, diff_data.len() as i64, out_size).map_err(|e| e.to_string())?;
        ZbsDiff { header, control_data, diff_data, extra_data }.build().map_err(|e| e.to_string())
    };
    let delta = |rng: &mut Rng| -> i64 { *rng.pick(&[1i64, 1, 2, 5, 17, 300]) };

    // (kind, tampered patch, output size handed to ZbsdiffPatcher::new)
    let mut variants: Vec<(&'static str, Result<Vec<u8>, String>, Option<i64>)> = Vec::new();
    // K1: header says another output size
    {
        let d = delta(&mut rng);
        let o2 = match rng.below(4) {
            0 => out + d,
            1 => (out - d).max(0),
            2 => 0,
            _ => out * 2 + 1,
        };
        if o2 != out {
            variants.push(("header.output_size-altered", assemble(None, None, None, o2, false), None));
        }
    }
    // K2: one control entry resized, header unchanged (cannot add up) or header adjusted to the new total
    if !p.control.is_empty() {
        let j = rng.usize_below(p.control.len());
        let field_diff = rng.bool();
        let d = delta(&mut rng);
        let grow = rng.bool();
        let mut entries = p.control.clone();
        let cur = if field_diff { entries[j].0 } else { entries[j].1 };
        let nv = if grow { cur + d } else { (cur - d).max(0) };
        if nv != cur {
            if field_diff {
                entries[j].0 = nv;
            } else {
                entries[j].1 = nv;
            }
            variants.push(("control-entry-resized,header-unchanged", assemble(Some(&entries), None, None, out, j % 2 == 0), None));
            let total: i64 = entries.iter().map(|e| e.0 + e.1).sum();
            variants.push(("control-entry-resized,header-adjusted", assemble(Some(&entries), None, None, total, j % 2 == 1), None));
        }
        // K2b: the last entry produces less and the header says so: a patch that adds up again (shorter output)
        let mut entries = p.control.clone();
        if let Some(last) = entries.last_mut() {
            let cut = d.min(last.1);
            if cut > 0 {
                last.1 -= cut;
                variants.push(("last-extra-shortened,header-adjusted", assemble(Some(&entries), None, None, out - cut, false), None));
            }
        }
    }
    // K3: a data block is shorter than the control block needs
    if !p.diff.is_empty() {
        let k = (delta(&mut rng) as usize).min(p.diff.len());
        variants.push(("diff-block-truncated", assemble(None, Some(&p.diff[..p.diff.len() - k]), None, out, false), None));
    }
    if !p.extra.is_empty() {
        let k = (delta(&mut rng) as usize).min(p.extra.len());
        variants.push(("extra-block-truncated", assemble(None, None, Some(&p.extra[..p.extra.len() - k]), out, false), None));
    }
    // K4: the right patch, but the streaming patcher is constructed with another output size than the header states
    {
        let d = delta(&mut rng);
        let o2 = if rng.bool() { out + d } else { (out - d).max(0) };
        if o2 != out {
            variants.push(("patcher-constructed-with-other-output-size", Ok(patch.to_vec()), Some(o2)));
        }
    }

    // K5/K6: control block / header written byte by byte by the harness (own offtout + zlib), so that values the
    // library's constructors refuse can be put into a patch: negative and oversized entries, an incomplete entry, no
    // entry at all, saturating seeks, negative / oversized / inconsistent header fields, a cut file. Every fourth patch.
    if fnv64(patch) % 4 == 0 {
        let offtout = |v: i64| -> [u8; 8] {
            let mut b = v.unsigned_abs().to_le_bytes();
            if v < 0 {
                b[7] |= 0x80;
            }
            b
        };
        let zlib = |d: &[u8]| -> Vec<u8> {
            let mut e = flate2::write::ZlibEncoder::new(Vec::new(), flate2::Compression::default());
            let _ = e.write_all(d);
            e.finish().unwrap_or_default()
        };
        let raw = |control_raw: &[u8], out_size: i64| -> Vec<u8> {
            let c = zlib(control_raw);
            let mut t = b"ZBSDIFF1".to_vec();
            t.extend_from_slice(&(c.len() as i64).to_le_bytes());
            t.extend_from_slice(&(zd.diff_data.len() as i64).to_le_bytes());
            t.extend_from_slice(&out_size.to_le_bytes());
            t.extend_from_slice(&c);
            t.extend_from_slice(&zd.diff_data);
            t.extend_from_slice(&zd.extra_data);
            t
        };
        let control_bytes = |entries: &[(i64, i64, i64)]| -> Vec<u8> {
            let mut v = Vec::with_capacity(entries.len() * 24);
            for (d, e, sk) in entries {
                v.extend_from_slice(&offtout(*d));
                v.extend_from_slice(&offtout(*e));
                v.extend_from_slice(&offtout(*sk));
            }
            v
        };
        let j = if p.control.is_empty() { 0 } else { rng.usize_below(p.control.len()) };
        match rng.below(5) {
            0 if !p.control.is_empty() => {
                let mut e = p.control.clone();
                if rng.bool() {
                    e[j].0 = -(e[j].0 + 1);
                } else {
                    e[j].1 = -(e[j].1 + 1);
                }
                variants.push(("raw-control:negative-size", Ok(raw(&control_bytes(&e), out)), None));
            }
            1 if !p.control.is_empty() => {
                let mut e = p.control.clone();
                if rng.bool() {
                    e[j].0 = 10_000_001;
                } else {
                    e[j].1 = 10_000_001;
                }
                variants.push(("raw-control:oversized-entry", Ok(raw(&control_bytes(&e), out)), None));
            }
            2 => {
                let mut c = control_bytes(&p.control);
                let k = rng.urange(1, 23);
                c.extend(std::iter::repeat(0u8).take(k));
                variants.push(("raw-control:incomplete-entry", Ok(raw(&c, out)), None));
            }
            3 => {
                variants.push(("raw-control:no-entry", Ok(raw(&[], if rng.bool() { 0 } else { out })), None));
            }
            _ if !p.control.is_empty() => {
                let mut e = p.control.clone();
                e[j].2 = *rng.pick(&[i64::MAX, -i64::MAX, 1 << 40, -(1 << 40)]);
                variants.push(("raw-control:saturating-seek", Ok(raw(&control_bytes(&e), out)), None));
            }
            _ => {}
        }
        let mut t = patch.to_vec();
        let (c_sz, d_sz) = (zd.header.control_size, zd.header.diff_size);
        let put = |t: &mut Vec<u8>, at: usize, v: i64| t[at..at + 8].copy_from_slice(&v.to_le_bytes());
        let kind = match rng.below(9) {
            0 => {
                put(&mut t, 8, -1);
                "raw-header:negative-control_size"
            }
            1 => {
                put(&mut t, 16, -5);
                "raw-header:negative-diff_size"
            }
            2 => {
                put(&mut t, 24, -1 - rng.range(0, 1000) as i64);
                "raw-header:negative-output_size"
            }
            3 => {
                if rng.bool() {
                    put(&mut t, if rng.bool() { 8 } else { 16 }, 1_000_000_001);
                } else {
                    // each block size passes on its own, their sum does not
                    put(&mut t, 8, 600_000_000);
                    put(&mut t, 16, 600_000_000);
                }
                "raw-header:oversized-block-size"
            }
            4 => {
                put(&mut t, 24, 1_000_000_001);
                "raw-header:oversized-output_size"
            }
            5 => {
                let i = rng.usize_below(8);
                t[i] ^= 1 << rng.below(8);
                "raw-header:signature-bit-flipped"
            }
            6 => {
                // block boundaries shifted by a few bytes
                let d = *rng.pick(&[-3i64, -1, 1, 2, 7]);
                put(&mut t, 8, (c_sz + d).max(0));
                "raw-header:control_size-shifted"
            }
            7 => {
                put(&mut t, 16, (patch.len() as i64 - 32 - c_sz).max(0) + rng.range(1, 40) as i64);
                let _ = d_sz;
                "raw-header:diff_size-beyond-patch"
            }
            _ => {
                let cut = if rng.bool() { rng.urange(0, 31) } else { rng.urange(32.min(patch.len()), patch.len().saturating_sub(1).max(32.min(patch.len()))) };
                t.truncate(cut.min(patch.len()));
                "raw-header:file-cut"
            }
        };
        variants.push((kind, Ok(t), None));
    }

    for (kind, made, patcher_size) in variants {
        let t = match made {
            Ok(t) => t,
            Err(_) => {
                loc.obs(&format!("tampered.not_assembled.{kind}"), 1);
                continue;
            }
        };
        loc.obs(&format!("tampered.patches.{kind}"), 1);
        // the length the header states (the format's header fields are plain little-endian i64); a file too short to
        // have a header states nothing: any Ok is then a wrong-length result
        let stated = if t.len() >= 32 { i64::from_le_bytes([t[24], t[25], t[26], t[27], t[28], t[29], t[30], t[31]]) } else { -1 };
        let psize = patcher_size.unwrap_or(stated).max(0) as usize;
        // the header-only reader must report what the header bytes say, or fail
        match catch_unwind(AssertUnwindSafe(|| ZbsdiffHeader::parse_from_patch(&t).map(|h| h.output_size))) {
            Ok(Ok(n)) if n == stated && t.len() >= 32 => loc.obs("tampered.parse_from_patch.ok_states_header_bytes", 1),
            Ok(Ok(n)) => ctx.violation(
                &format!("C16|ZbsdiffHeader::parse_from_patch|output_size!=header-bytes|tampered:{kind}"),
                "parse_from_patch returned Ok with an output size that is not what bytes 24..32 of the patch say (or for a file without a complete header)",
                pair_detail(old, new, b, block, origin, json!({"tamper":kind,"returned":n,"header_bytes_say":stated,"patch_len":t.len(),"gen":gen_info})),
            ),
            Ok(Err(_)) => loc.obs("tampered.parse_from_patch.err", 1),
            Err(_) => loc.obs("tampered.outcome.panic(observation)", 1),
        }
        let mut results: Vec<(&'static str, ApplyResult)> = Vec::new();
        if patcher_size.is_none() {
            results.push(("apply_patch_memory", guarded(|| apply_patch_memory(old, &t).map_err(|e| e.to_string()))));
            results.push(("ZbsDiff::apply", guarded(|| ZbsDiff::parse(&t).map_err(|e| e.to_string())?.apply(old).map_err(|e| e.to_string()))));
        }
        results.push(("ZbsdiffPatcher", guarded(|| ZbsdiffPatcher::new(Cursor::new(old), psize).apply_patch_from_data(&t).map_err(|e| e.to_string()))));
        results.push(("ZbsdiffPatcher", guarded(|| ZbsdiffPatcher::new(Cursor::new(old), psize).with_buffer_size(1).apply_patch_from_data(&t).map_err(|e| e.to_string()))));
        results.push((
            "ZbsdiffPatcher::apply_patch(components)",
            guarded(|| {
                let z = ZbsDiff::parse(&t).map_err(|e| e.to_string())?;
                let cb = z.control_block().map_err(|e| e.to_string())?;
                let d = z.diff_data().map_err(|e| e.to_string())?;
                let e = z.extra_data().map_err(|e| e.to_string())?;
                ZbsdiffPatcher::new(Cursor::new(old), if patcher_size.is_some() { psize } else { z.output_size() }).apply_patch(&cb, &d, &e).map_err(|e| e.to_string())
            }),
        ));
        for (applier, r) in &results {
            match r {
                Ok(o) if o.len() as i64 == stated => loc.obs("tampered.outcome.ok_with_stated_length", 1),
                Ok(o) => {
                    loc.obs("tampered.outcome.ok_with_other_length", 1);
                    ctx.violation(
                        &format!("C16|{applier}|len(output)!=header.output_size|tampered:{kind}"),
                        "a patcher returned Ok with a length different from the output size stated in the patch header (the patch is a variant of a generated one whose parts do not add up)",
                        pair_detail(old, new, b, block, origin, json!({"tamper":kind,"out_len":o.len(),"header_output_size":stated,"patcher_constructed_with":patcher_size,"tampered_patch_head":hex_short(&t, 64),"derived_from_builder":bname,"gen":gen_info})),
                    );
                }
                Err(e) if e.starts_with("PANIC") => loc.obs("tampered.outcome.panic(observation)", 1),
                Err(_) => loc.obs("tampered.outcome.err", 1),
            }
        }
    }
}

// ------------------------------------------------------------------ generators

fn short_strings() -> Vec<Vec<u8>> {
    let mut v = Vec::new();
    for len in 0..=5usize {
        for bits in 0..(1u32 << len) {
            v.push((0..len).map(|i| if bits >> i & 1 == 1 { b'b' } else { b'a' }).collect());
        }
    }
    v
}

fn base_file(rng: &mut Rng, n: usize) -> (&'static str, Vec<u8>) {
    match rng.below(6) {
        0 => ("random", rng.bytes(n)),
        1 => {
            let alpha = b"abcd";
            ("low_entropy", (0..n).map(|_| *rng.pick(alpha)).collect())
        }
        2 => {
            // repeated unit with sparse variations (many equally good matches)
            let ul = rng.urange(3, 200);
            let unit = rng.bytes(ul);
            let mut v: Vec<u8> = unit.iter().cycle().take(n).copied().collect();
            let muts = n / 97;
            for _ in 0..muts {
                let i = rng.usize_below(n.max(1));
                if i < v.len() {
                    v[i] = rng.next_u32() as u8;
                }
            }
            ("repeated_unit", v)
        }
        3 => ("zeros", vec![0u8; n]),
        4 => {
            // record-structured: counters + fixed fields
            let mut v = Vec::with_capacity(n + 16);
            let mut c: u32 = rng.next_u32() & 0xffff;
            while v.len() < n {
                v.extend_from_slice(&c.to_le_bytes());
                v.extend_from_slice(b"REC\0");
                v.extend_from_slice(&rng.bytes(4));
                v.extend_from_slice(&[0u8; 4]);
                c = c.wrapping_add(1);
            }
            v.truncate(n);
            ("records", v)
        }
        _ => {
            let words: [&[u8]; 8] = [b"alpha ", b"beta ", b"gamma ", b"delta ", b"\n", b"the ", b"patch ", b"0123456789"];
            let mut v = Vec::with_capacity(n + 10);
            while v.len() < n {
                v.extend_from_slice(*rng.pick(&words[..]));
            }
            v.truncate(n);
            ("text", v)
        }
    }
}

const EDIT_OPS: [&str; 9] = ["insert", "delete", "move", "repeat", "flip", "overwrite", "truncate", "prepend", "append"];

fn apply_edit(rng: &mut Rng, v: &mut Vec<u8>, op: &str, max_block: usize) {
    let n = v.len();
    let blk = |rng: &mut Rng, n: usize| -> (usize, usize) {
        if n == 0 {
            return (0, 0);
        }
        let s = rng.usize_below(n);
        let l = rng.urange(1, max_block.min(n - s).max(1)).min(n - s);
        (s, l)
    };
    match op {
        "insert" => {
            let p = rng.urange(0, n);
            let l = rng.urange(1, max_block.max(1));
            let ins = if rng.bool() { rng.bytes(l) } else { vec![*rng.pick(b"ab\0\xff"); l] };
            v.splice(p..p, ins);
        }
        "delete" => {
            let (s, l) = blk(rng, n);
            v.drain(s..s + l);
        }
        "move" => {
            let (s, l) = blk(rng, n);
            let piece: Vec<u8> = v.drain(s..s + l).collect();
            let p = rng.urange(0, v.len());
            v.splice(p..p, piece);
        }
        "repeat" => {
            let (s, l) = blk(rng, n);
            let piece: Vec<u8> = v[s..s + l].to_vec();
            let p = if rng.bool() { s + l } else { rng.urange(0, n) };
            v.splice(p..p, piece);
        }
        "flip" => {
            // point mutations inside a window: produces non-zero diff bytes inside long matches
            if n > 0 {
                let (s, l) = blk(rng, n);
                let k = rng.urange(1, 32);
                for _ in 0..k {
                    let i = s + rng.usize_below(l.max(1));
                    if i < v.len() {
                        v[i] = v[i].wrapping_add(rng.urange(1, 255) as u8);
                    }
                }
            }
        }
        "overwrite" => {
            let (s, l) = blk(rng, n);
            let r = rng.bytes(l);
            v[s..s + l].copy_from_slice(&r);
        }
        "truncate" => {
            let keep = rng.urange(0, n);
            v.truncate(keep);
        }
        "prepend" => {
            let l = rng.urange(1, max_block.max(1));
            let r = rng.bytes(l);
            v.splice(0..0, r);
        }
        _ => {
            let l = rng.urange(1, max_block.max(1));
            v.extend(rng.bytes(l));
        }
    }
}

/// (old, new, description). Pure function of the rng state.
fn gen_pair(rng: &mut Rng, max: usize) -> (Vec<u8>, Vec<u8>, Value) {
    let n = if rng.bool() { rng.size_biased(max) } else { rng.urange(max.min(64), max) };
    let (base_class, mut old) = base_file(rng, n);
    // The suffix-array builder needs quadratic time on long runs / periodic data
    // (200 KB of zeros: ~50 s). That is a cost observation, not part of C16; such
    // bases are kept short so that the budget goes into judged cases.
    if matches!(base_class, "zeros" | "repeated_unit") && old.len() > 16 * 1024 {
        old.truncate(16 * 1024);
    }
    let special = rng.below(20);
    match special {
        0 => return (Vec::new(), old, json!({"class":"empty_old","base":base_class})),
        1 => return (old, Vec::new(), json!({"class":"empty_new","base":base_class})),
        2 => return (old.clone(), old, json!({"class":"new==old","base":base_class})),
        3 => return (Vec::new(), Vec::new(), json!({"class":"both_empty"})),
        4 => {
            let k = rng.urange(0, old.len());
            return (old[..k].to_vec(), old, json!({"class":"old_is_prefix_of_new","base":base_class}));
        }
        5 => {
            let k = rng.urange(0, old.len());
            let new = old[k..].to_vec();
            return (old, new, json!({"class":"new_is_suffix_of_old","base":base_class}));
        }
        6 => {
            let m = rng.size_biased(max);
            let (c2, new) = base_file(rng, m);
            return (old, new, json!({"class":"unrelated","base":base_class,"new_base":c2}));
        }
        _ => {}
    }
    let mut new = old.clone();
    let edits = rng.urange(1, 8);
    let max_block = match rng.below(3) {
        0 => 8,
        1 => 300,
        _ => (n / 4).max(16),
    };
    let mut ops = Vec::new();
    for _ in 0..edits {
        let op = *rng.pick(&EDIT_OPS);
        apply_edit(rng, &mut new, op, max_block);
        ops.push(op);
    }
    if new.len() > 2 * max + 4096 {
        new.truncate(2 * max + 4096);
    }
    (old, new, json!({"class":"edited","base":base_class,"ops":ops}))
}

fn random_pair_for(ctx: &Ctx, stream: u64, idx: u64, max: usize) -> (Vec<u8>, Vec<u8>, Value) {
    let mut rng = ctx.rng(mix64(stream, idx));
    let (o, n, mut info) = gen_pair(&mut rng, max);
    if let Some(m) = info.as_object_mut() {
        m.insert("stream".into(), json!(stream));
        m.insert("idx".into(), json!(idx));
        m.insert("max".into(), json!(max));
    }
    (o, n, info)
}

fn count_ops(loc: &mut Local, info: &Value) {
    if let Some(c) = info.get("class").and_then(Value::as_str) {
        loc.obs(&format!("pair.class.{c}"), 1);
    }
    if let Some(b) = info.get("base").and_then(Value::as_str) {
        loc.obs(&format!("pair.base.{b}"), 1);
    }
    if let Some(ops) = info.get("ops").and_then(Value::as_array) {
        for o in ops {
            if let Some(s) = o.as_str() {
                loc.obs(&format!("edit.{s}"), 1);
            }
        }
    }
}

// ------------------------------------------------------------------ main

fn main() {
    let ctx = Ctx::init("C16", "exploration");
    ctx.set_rule("a case is (old, new, builder entry point, max_diff_block_size); every patch a builder returns is applied by apply_patch_memory, ZbsDiff::apply, CascFormat parse+build, the streaming ZbsdiffPatcher (6 buffer sizes + sizes at the largest block, short-read readers, pre-parsed components) and by an independent bspatch; variants of the patch that do not add up must fail or yield the stated length; non-trivial = the patch has >= 2 control entries or both diff and extra bytes; distinct by hash of (old, new, builder, block size)");
    ctx.assume("vh::refimpl::bspatch implements classic bspatch semantics (relative seek, wrapping add, zlib streams, offtin sign-magnitude) correctly; it is re-checked by the Python bspatch in pyref/c16.py over a sample of the same patch bytes");
    ctx.assume("flate2 (zlib) inflates correctly");

    let tdir = std::env::var("CARGO_TARGET_DIR").unwrap_or_else(|_| "/verif/harness/target".to_string());
    let _ = std::fs::create_dir_all(&tdir);
    let log_path = format!("{tdir}/c16-events.jsonl");
    let replaying = ctx.replay.is_some();
    let pylog = Mutex::new(PyLog {
        file: if replaying { None } else { std::fs::File::create(&log_path).ok().map(std::io::BufWriter::new) },
        every: ctx.pick(211, 97),
        n: 0,
        written: 0,
        bytes: 0,
        byte_budget: ctx.pick(24 << 20, 96 << 20),
    });

    // ---- replay of one recorded witness
    if let Some(d) = ctx.replay_detail() {
        let b = d.get("builder").and_then(Value::as_str).and_then(Builder::from_name).unwrap_or(Builder::Chunked);
        let block = d.get("max_diff_block_size").and_then(Value::as_u64).map(|x| x as usize);
        let pair = match (d.get("old_hex").and_then(Value::as_str), d.get("new_hex").and_then(Value::as_str)) {
            (Some(o), Some(n)) => hex::decode(o).ok().zip(hex::decode(n).ok()),
            _ => None,
        };
        let pair = pair.or_else(|| {
            let g = d.get("info")?.get("gen")?;
            let (o, n, _) = random_pair_for(&ctx, g.get("stream")?.as_u64()?, g.get("idx")?.as_u64()?, g.get("max")?.as_u64()? as usize);
            Some((o, n))
        });
        match pair {
            Some((old, new)) => {
                let mut loc = Local::default();
                run_case(&ctx, &mut loc, &pylog, &old, &new, b, block, "replay", &json!({}));
                // the floor of two distinct cases does not apply to a single replay
                loc.hashes.push(1);
                loc.hashes.push(2);
                loc.flush(&ctx);
            }
            None => ctx.inconclusive("replay file carries neither old/new bytes nor generator coordinates"),
        }
        ctx.finish();
    }

    let threads = 16usize;

    // ---- 1. exhaustive short strings
    let strings = short_strings();
    let npairs = strings.len() * strings.len();
    std::thread::scope(|s| {
        for t in 0..threads {
            let (ctx, pylog, strings) = (&ctx, &pylog, &strings);
            s.spawn(move || {
                let mut loc = Local::default();
                for k in (0..npairs).filter(|k| k % threads == t) {
                    let (old, new) = (&strings[k / strings.len()], &strings[k % strings.len()]);
                    for b in Builder::WITH_BUILD {
                        for block in BLOCK_SIZES {
                            run_case(ctx, &mut loc, pylog, old, new, b, block, "exhaustive", &json!({}));
                        }
                    }
                    loc.obs("exhaustive.pairs", 1);
                }
                loc.flush(ctx);
            });
        }
    });
    let t_exh = ctx.elapsed_s();
    ctx.set_extra(
        "exhaustive_subspace",
        json!({"alphabet":"ab","max_len":5,"strings":strings.len(),"pairs":npairs,"builders":4,"max_diff_block_sizes":["1","2","3","8","default"],"complete":true}),
    );

    // ---- 2. random edited pairs
    let n_random: u64 = ctx.pick(12_000, 200_000);
    let max_small: usize = 64 * 1024;
    std::thread::scope(|s| {
        for t in 0..threads {
            let (ctx, pylog) = (&ctx, &pylog);
            s.spawn(move || {
                let mut loc = Local::default();
                let mut pick = ctx.rng(900 + t as u64);
                for idx in (0..n_random).filter(|i| (*i as usize) % threads == t) {
                    // size ceiling varies so that small and large files are both frequent
                    let max = match idx % 4 {
                        0 => 512,
                        1 => 4096,
                        2 => 16 * 1024,
                        _ => max_small,
                    };
                    let (old, new, info) = random_pair_for(ctx, 16, idx, max);
                    count_ops(&mut loc, &info);
                    loc.obs("random.pairs", 1);
                    let builders: &[Builder] = if idx % 3 == 0 { &Builder::WITH_BUILD } else { &Builder::ALL };
                    for &b in builders {
                        let block = match pick.below(8) {
                            0 => Some(1),
                            1 => Some(2),
                            2 => Some(3),
                            3 => Some(8),
                            4 => Some(64),
                            5 => Some(1000),
                            _ => None,
                        };
                        run_case(ctx, &mut loc, pylog, &old, &new, b, block, "random", &info);
                    }
                    if idx % 64 == 0 {
                        loc.flush(ctx);
                    }
                }
                loc.flush(ctx);
            });
        }
    });

    let t_rand = ctx.elapsed_s();
    // ---- 3. larger pairs (thorough: up to 1 MiB, plus a few beyond the 10 MB per-entry limit)
    let n_large: u64 = ctx.pick(64, 320);
    let large_max: usize = ctx.pick(256 * 1024, 1024 * 1024);
    std::thread::scope(|s| {
        for t in 0..threads {
            let (ctx, pylog) = (&ctx, &pylog);
            s.spawn(move || {
                let mut loc = Local::default();
                for idx in (0..n_large).filter(|i| (*i as usize) % threads == t) {
                    let (old, new, info) = random_pair_for(ctx, 17, idx, large_max);
                    count_ops(&mut loc, &info);
                    loc.obs("large.pairs", 1);
                    let builders: &[Builder] = if idx % 4 == 0 { &Builder::WITH_BUILD } else { &Builder::ALL };
                    for &b in builders {
                        run_case(ctx, &mut loc, pylog, &old, &new, b, None, "large", &info);
                    }
                }
                if !ctx.quick() && t < 3 {
                    // beyond ControlEntry's 10,000,000-byte limit: refusal or a correct patch
                    let mut rng = ctx.rng(1700 + t as u64);
                    let n = 10_000_000 + rng.urange(1, 1_500_000);
                    // (never a run/periodic base here: see gen_pair)
                    let old: Vec<u8> = if t == 0 {
                        rng.bytes(n)
                    } else {
                        let mut v = Vec::with_capacity(n + 16);
                        let mut c: u32 = rng.next_u32();
                        while v.len() < n {
                            v.extend_from_slice(&c.to_le_bytes());
                            v.extend_from_slice(b"REC\0");
                            v.extend_from_slice(&rng.bytes(8));
                            c = c.wrapping_add(1);
                        }
                        v.truncate(n);
                        v
                    };
                    let mut new = old.clone();
                    for _ in 0..4 {
                        let op = *rng.pick(&["insert", "delete", "flip", "overwrite"]);
                        apply_edit(&mut rng, &mut new, op, 5000);
                    }
                    loc.obs("huge.pairs", 1);
                    for b in Builder::ALL {
                        run_case(ctx, &mut loc, pylog, &old, &new, b, None, "huge", &json!({"class":"huge","t":t}));
                    }
                }
                loc.flush(ctx);
            });
        }
    });

    let t_large = ctx.elapsed_s();
    // ---- 4. CDN fixtures
    fixtures(&ctx, &pylog);
    let t_fix = ctx.elapsed_s();

    // ---- minimum evidence: the interesting sites must have been reached
    for (k, why) in [
        ("build.ok.build_chunked_patch", "chunked builder never produced a patch"),
        ("build.ok.build_optimized_patch", "suffix-array builder never produced a patch"),
        ("build.ok.build_simple_patch", "simple builder never produced a patch"),
        ("build.ok.build", "ZbsdiffBuilder::build() never produced a patch"),
        ("apply.ZbsdiffPatcher::apply_patch(components)", "the pre-parsed-components entry point of the streaming patcher was never used"),
        ("apply.CascFormat::parse+build", "the CascFormat entry points were never used"),
        ("accessors.patches_checked", "no ZbsDiff / ControlBlock accessor was compared with the independent parse"),
        ("stream.buffer_sized_around_largest_block", "no streaming application with a buffer sized at the largest block"),
        ("tampered.outcome.err", "no patch whose parts do not add up was refused"),
        ("tampered.outcome.ok_with_stated_length", "no hand-assembled consistent patch variant was applied"),
        ("patch.shape.diff_and_extra", "no patch with both diff and extra bytes was produced"),
        ("patch.has_nonzero_diff_bytes", "no patch with a non-zero diff byte was produced"),
        ("patch.has_negative_seek", "no patch with a negative seek was produced"),
        ("patch.has_positive_seek", "no patch with a positive seek was produced"),
        ("stream.diff_block_larger_than_buffer", "the streaming patcher never had to split a diff block over several buffer fills"),
        ("stream.old_reader_not_at_start.read-to-end", "the streaming patcher was never handed an old-file reader that had been read to its end"),
        ("stream.old_reader_not_at_start.seek", "the streaming patcher was never handed an old-file reader positioned away from the start"),
    ] {
        if ctx.get_obs(k) == 0 {
            ctx.inconclusive(&format!("{why} (observation {k} = 0)"));
        }
    }

    let written = {
        let mut g = pylog.lock().unwrap_or_else(std::sync::PoisonError::into_inner);
        if let Some(f) = g.file.as_mut() {
            let _ = f.flush();
        }
        g.file = None;
        g.written
    };
    ctx.obs("event_log_lines", written);
    python_crosscheck(&ctx, &log_path, written);
    let r = |x: f64| (x * 10.0).round() / 10.0;
    ctx.set_extra(
        "phase_seconds",
        json!({"exhaustive":r(t_exh),"random":r(t_rand - t_exh),"large":r(t_large - t_rand),"fixtures":r(t_fix - t_large),"python":r(ctx.elapsed_s() - t_fix)}),
    );
    ctx.finish();
}

fn fixtures(ctx: &Ctx, pylog: &Mutex<PyLog>) {
    let dir = "/repo/crates/cascette-formats/test_fixtures/zbsdiff";
    let Ok(rd) = std::fs::read_dir(dir) else {
        ctx.obs("fixtures.dir_missing", 1);
        return;
    };
    let mut stems: Vec<String> = rd
        .flatten()
        .filter_map(|e| {
            let p = e.path();
            (p.extension()? == "zbsdiff").then(|| p.file_stem()?.to_str().map(str::to_string))?
        })
        .collect();
    stems.sort();
    let mut loc = Local::default();
    for stem in stems {
        let patch = std::fs::read(format!("{dir}/{stem}.zbsdiff"));
        let old = std::fs::read(format!("{dir}/{stem}.old"));
        let new = std::fs::read(format!("{dir}/{stem}.new"));
        let (Ok(patch), Ok(old), Ok(new)) = (patch, old, new) else {
            loc.obs("fixtures.incomplete_triple_skipped", 1);
            continue;
        };
        loc.obs("fixtures.triples", 1);
        // (a) the CDN patch itself: not generated by this library, so only the
        // second sentence of the statement applies (right length or failure);
        // content agreement is recorded.
        let ref_out = bspatch::apply(&old, &patch);
        let hdr = ZbsdiffHeader::parse_from_patch(&patch).ok().map(|h| h.output_size);
        let mut outs: Vec<(&str, ApplyResult)> = vec![("apply_patch_memory", guarded(|| apply_patch_memory(&old, &patch).map_err(|e| e.to_string())))];
        for buf in BUFFER_SIZES {
            outs.push((
                "ZbsdiffPatcher",
                guarded(|| {
                    let mut p = ZbsdiffPatcher::new(Cursor::new(&old[..]), hdr.unwrap_or(0).max(0) as usize);
                    if let Some(bs) = buf {
                        p = p.with_buffer_size(bs);
                    }
                    p.apply_patch_from_data(&patch).map_err(|e| e.to_string())
                }),
            ));
        }
        loc.evals += 1;
        loc.hashes.push(mix64(fnv64(b"fixture"), fnv64(&patch)));
        for (applier, r) in &outs {
            match r {
                Ok(out) => {
                    if let Some(n) = hdr {
                        if out.len() as i64 != n {
                            ctx.violation(
                                &format!("C16|{applier}|len(output)!=header.output_size|cdn-fixture"),
                                "patcher returned Ok with a length different from the header's output size on a CDN patch",
                                json!({"fixture":stem,"out_len":out.len(),"header_output_size":n}),
                            );
                        }
                    }
                    if out == &new {
                        loc.obs("fixtures.cdn_patch.output==new", 1);
                    } else {
                        loc.obs("fixtures.cdn_patch.output!=new", 1);
                    }
                }
                Err(_) => loc.obs("fixtures.cdn_patch.apply_error", 1),
            }
        }
        match &ref_out {
            Ok(o) if o == &new => loc.obs("fixtures.cdn_patch.ref_bspatch==new", 1),
            Ok(_) => loc.obs("fixtures.cdn_patch.ref_bspatch!=new", 1),
            Err(_) => loc.obs("fixtures.cdn_patch.ref_bspatch_error", 1),
        }
        // (b) the fixture pair as input of the library's own builders: fully judged
        for b in Builder::WITH_BUILD {
            for block in [Some(8), None] {
                run_case(ctx, &mut loc, pylog, &old, &new, b, block, "fixture_pair", &json!({"fixture":stem}));
            }
        }
    }
    loc.flush(ctx);
}

fn python_crosscheck(ctx: &Ctx, log_path: &str, written: u64) {
    if written == 0 {
        ctx.inconclusive("event log empty: nothing for the Python cross-check");
        return;
    }
    let out = std::process::Command::new("python3").arg("/verif/pyref/c16.py").arg(log_path).output();
    match out {
        Ok(o) => {
            let text = String::from_utf8_lossy(&o.stdout).to_string();
            let mut checked = 0u64;
            let mut disagreements = 0u64;
            for line in text.lines() {
                if let Some(rest) = line.strip_prefix("CHECKED ") {
                    checked = rest.trim().parse().unwrap_or(0);
                }
                if line.starts_with("DISAGREE ") {
                    disagreements += 1;
                    if ctx.want_sample() {
                        ctx.sample(json!({"kind":"python vs rust reference disagreement","line":line}));
                    }
                }
            }
            ctx.obs("python_crosscheck.patches_checked", checked);
            ctx.obs("python_crosscheck.disagreements_with_rust_reference", disagreements);
            if disagreements > 0 {
                // two references that disagree cannot judge anything
                ctx.inconclusive("the Python bspatch and the Rust reference bspatch disagree on a logged patch (reference problem, not a verdict)");
            }
            if !o.status.success() && disagreements == 0 {
                ctx.inconclusive(&format!("python cross-check failed to run: {}", String::from_utf8_lossy(&o.stderr).lines().last().unwrap_or("")));
            } else if checked == 0 {
                ctx.inconclusive("python cross-check checked 0 patches");
            }
        }
        Err(e) => ctx.inconclusive(&format!("python3 not runnable: {e}")),
    }
}
