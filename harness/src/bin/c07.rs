//! C07 — integrity checks reject every corruption of what they protect.
//!
//! Valid artifacts (builders + fixtures read at run time) are mutated INSIDE the
//! region their checksum protects (declared below per format from the format
//! documentation) and handed to the VERIFYING loader the property anchors name.
//! Oracle: the load fails / reports invalid, or succeeds with logical content
//! equal to the original. For the validating cache APIs: whatever happens to
//! the backing entry, returned bytes must hash (MD5) to the requested key.
//!
//! Verifying entry points used (a format's non-verifying loaders are only
//! observed, never judged):
//!   encoding      EncodingFile::parse  (IndexEntry::verify in parse_ckey_pages / parse_ekey_pages)
//!   archive index ArchiveIndex::parse  (IndexFooter::is_valid, validate_format, validate_file_size)
//!   LRU file      lru_file::deserialize
//!   update entry  UpdateEntry::from_bytes + validate_hash_guard   (UpdateSection::from_bytes does not verify)
//!   local header  LocalHeader::from_bytes + validate_checksums(base_offset)
//!   V1 MIME       mime_parser::parse_v1_mime_to_bpsv (extract_checksum / validate_checksum)
//!   caches        ContentAddressedCache::{put_validated,get_validated},
//!                 MultiLayerCacheImpl::{put_with_validation,get_with_validation} + Md5ValidationHooks

use bytes::Bytes;
use cascette_cache::config::{DiskCacheConfig, MemoryCacheConfig, MultiLayerCacheConfig};
use cascette_cache::key::BlteBlockKey;
use cascette_cache::traits::{AsyncCache, MultiLayerCache};
use cascette_cache::validation::{Md5ValidationHooks, NgdpValidationHooks, ValidationHooks};
use cascette_cache::{DiskCache, MemoryCache, MultiLayerCacheImpl};
use cascette_client_storage::index::ArchiveLocation;
use cascette_client_storage::index::update::{UPDATE_ENTRY_SIZE, UpdateEntry, UpdateSection, UpdateStatus};
use cascette_client_storage::lru::lru_file::{self, LruFileEntry, LruFileHeader};
use cascette_client_storage::storage::local_header::{LOCAL_HEADER_SIZE, LocalHeader};
use cascette_crypto::{ContentKey, EncodingKey};
use cascette_formats::archive::{ArchiveIndex, ArchiveIndexBuilder};
use cascette_formats::encoding::{CKeyEntryData, EKeyEntryData, EncodingBuilder, EncodingFile};
use cascette_protocol::mime_parser::parse_v1_mime_to_bpsv;
use serde_json::{Value, json};
use sha2::{Digest, Sha256};
use std::collections::BTreeMap;
use std::io::Cursor;
use std::ops::Range;
use std::sync::Arc;
use std::sync::Mutex;
use std::time::Duration;
use vh::refimpl::lookup3;
use vh::{Ctx, Rng, fnv64, hex_short, mix64};

// ---------------------------------------------------------------------------
// generic mutation machinery

#[derive(Debug, Clone)]
enum Outcome {
    /// load failed / reported invalid
    Rejected,
    /// load succeeded, logical content equals the original
    AcceptedEqual,
    /// load succeeded and the content differs: refuting unless `collision`
    AcceptedAltered { what: String, collision: bool },
    /// the loader panicked (a C02 matter; for C07 the data was not returned as good)
    Panicked,
}

struct Artifact {
    /// canonical artifact kind used in signatures
    kind: &'static str,
    /// which instance (fixture name / builder parameters): evidence only
    instance: String,
    bytes: Vec<u8>,
    /// protected region, split into canonically named parts
    parts: Vec<(&'static str, Range<usize>)>,
    /// verifying load + comparison with the original
    check: Box<dyn Fn(&[u8]) -> Outcome + Send + Sync>,
    /// fixed-size record at offset 0 followed by context bytes (no truncation classes)
    fixed_record: bool,
    /// appended bytes fall under the check (LRU: MD5 over the whole file; archive index: the footer
    /// is located from the end and validate_file_size ties the length to the footer fields)
    length_protected: bool,
}

impl Artifact {
    fn region_len(&self) -> usize {
        self.parts.iter().map(|(_, r)| r.len()).sum()
    }
    /// i-th byte of the protected region -> (file offset, part name)
    fn region_pos(&self, mut i: usize) -> (usize, &'static str) {
        for (name, r) in &self.parts {
            if i < r.len() {
                return (r.start + i, name);
            }
            i -= r.len();
        }
        (0, "?")
    }
}

#[derive(Default)]
struct Tally {
    counts: BTreeMap<String, u64>,
    evals: u64,
    hashes: Vec<u64>,
}

impl Tally {
    fn add(&mut self, kind: &str, class: &str, outcome: &str) {
        *self.counts.entry(format!("{kind}.{class}.{outcome}")).or_insert(0) += 1;
    }
    fn flush(self, ctx: &Ctx) {
        for (k, v) in self.counts {
            ctx.obs(&k, v);
        }
        ctx.add_evals(self.evals);
        ctx.add_nontrivial(self.hashes);
    }
}

static PANICS: Mutex<Vec<String>> = Mutex::new(Vec::new());

fn run_check(a: &Artifact, data: &[u8]) -> Outcome {
    match std::panic::catch_unwind(std::panic::AssertUnwindSafe(|| (a.check)(data))) {
        Ok(o) => o,
        Err(_) => Outcome::Panicked,
    }
}

/// Application-supplied validation hooks: the same MD5 judgement as the stock hooks, but a mismatch is refused with an
/// error instead of an "invalid" verdict.
struct RefusingHooks {
    kind: u8,
}

#[async_trait::async_trait]
impl ValidationHooks for RefusingHooks {
    async fn validate_content(&self, content_key: &ContentKey, data: &[u8]) -> cascette_cache::CacheResult<cascette_cache::validation::ValidationResult> {
        if md5::compute(data).0 == *content_key.as_bytes() {
            return Ok(cascette_cache::validation::ValidationResult::valid(Duration::ZERO, Duration::ZERO, data.len()));
        }
        Err(match self.kind {
            1 => cascette_cache::CacheError::ContentValidationFailed("content does not hash to its key".to_string()),
            2 => cascette_cache::CacheError::Backend("validator: content does not hash to its key".to_string()),
            _ => cascette_cache::CacheError::LockTimeout("validator gave up on content that does not hash to its key".to_string()),
        })
    }
}

/// "Any change to the protected bytes makes the load fail" is judged literally for in-place changes (bit flip, byte
/// substitution) inside the declared region, also when the changed byte is not part of the logical content (reserved
/// fields, flag bits nobody interprets, padding): every kind declares as its region exactly the bytes its documented
/// checksum is taken over (LRU checkpoint: MD5 over the whole file with the hash field zeroed; encoding table / index
/// entry: MD5 of the whole page; local header: Jenkins hash of bytes 0..22 and XOR accumulation of bytes 0..26 —
/// module doc of local_header.rs; residency entry: hashlittle over bytes 4..37; archive-index footer: MD5 of the field
/// bytes; BLTE chunk: MD5 of the stored chunk; V1 reply: SHA-256 / MD5 over the message bytes). A byte of such a region
/// that can be changed in place without the load failing is not protected, whether or not the loader exposes it
/// (a verifier that hashes what it re-serialises instead of what it read has exactly this effect).
/// No kind is exempt. (The update entry was, until the end of round 5: its parser maps unknown status values to Normal and
/// its verifier hashes the re-serialised entry, so a changed status byte of a Normal entry validates — recorded as benign
/// by the first version of the check, now reported and listed as a known finding.)
const IN_PLACE_JUDGED_BY_CONTENT_ONLY: &[&str] = &[];

#[allow(clippy::too_many_arguments)]
fn judge(ctx: &Ctx, t: &mut Tally, a: &Artifact, class: &str, part: &str, mutated: &[u8], describe: impl Fn() -> Value) {
    if mutated == a.bytes.as_slice() {
        t.add(a.kind, class, "noop-skipped");
        return;
    }
    t.evals += 1;
    t.hashes.push(mix64(fnv64(a.kind.as_bytes()), fnv64(mutated)));
    // the V1 loaders added by the coverage-driven extension: cutting the reply anywhere removes the
    // (optional) checksum line, one cause whatever part the cut falls into -> one signature per loader
    let part = if class == "truncate-artifact" && a.kind != "v1-mime" && a.kind.starts_with("v1-mime") { "checksum-line-cut-off" } else { part };
    match run_check(a, mutated) {
        Outcome::Rejected => t.add(a.kind, class, "rejected"),
        Outcome::AcceptedEqual if part.contains("stored") && (class == "bitflip" || class.starts_with("subst-")) => {
            // the stored checksum itself was changed in place: stored != computed, so a check that
            // still says "good" does not compare the whole checksum
            t.add(a.kind, class, "ACCEPTED-ALTHOUGH-STORED-CHECKSUM-CHANGED");
            ctx.violation(
                &format!("C07|{}|{class}|accepted-although-stored-checksum-changed|{part}", a.kind),
                "the stored checksum was changed in place and the artifact still loaded as good",
                json!({"artifact": a.kind, "instance": a.instance, "mutation_class": class, "region_part": part, "mutation": describe(),
                       "original_hex": if a.bytes.len() <= 4096 { hex::encode(&a.bytes) } else { hex_short(&a.bytes, 64) },
                       "mutated_hex": if mutated.len() <= 4096 { hex::encode(mutated) } else { hex_short(mutated, 64) }}),
            );
        }
        Outcome::AcceptedEqual if !IN_PLACE_JUDGED_BY_CONTENT_ONLY.contains(&a.kind) && (class == "bitflip" || class.starts_with("subst-")) => {
            // the checksum is taken over every byte of the declared region: a byte that can be changed in place
            // without the load failing is no longer protected, whether or not it is exposed
            t.add(a.kind, class, "ACCEPTED-ALTHOUGH-PROTECTED-BYTE-CHANGED");
            ctx.violation(
                &format!("C07|{}|{class}|accepted-although-protected-byte-changed|{part}", a.kind),
                "a byte inside the region the checksum is taken over was changed in place and the artifact still loaded as good",
                json!({"artifact": a.kind, "instance": a.instance, "mutation_class": class, "region_part": part, "mutation": describe(),
                       "original_hex": if a.bytes.len() <= 4096 { hex::encode(&a.bytes) } else { hex_short(&a.bytes, 64) },
                       "mutated_hex": if mutated.len() <= 4096 { hex::encode(mutated) } else { hex_short(mutated, 64) }}),
            );
        }
        Outcome::AcceptedEqual => t.add(a.kind, class, "accepted-content-equal(benign)"),
        Outcome::Panicked => t.add(a.kind, class, "loader-panicked(not-returned-as-good)"),
        Outcome::AcceptedAltered { what, collision } => {
            if collision {
                t.add(a.kind, class, "accepted-altered-genuine-hash-collision");
                ctx.sample(json!({"kind":"hash collision (reference hash agrees)", "artifact": a.kind, "mutation": describe(), "what": what}));
            } else {
                t.add(a.kind, class, "ACCEPTED-WITH-ALTERED-CONTENT");
                ctx.violation(
                    &format!("C07|{}|{class}|accepted-with-altered-content|{part}", a.kind),
                    "a mutation inside the protected region loaded as good with content different from the original",
                    json!({"artifact": a.kind, "instance": a.instance, "mutation_class": class, "region_part": part, "mutation": describe(), "difference": what,
                           "original_len": a.bytes.len(), "mutated_len": mutated.len(),
                           "original_hex": if a.bytes.len() <= 4096 { hex::encode(&a.bytes) } else { hex_short(&a.bytes, 64) },
                           "mutated_hex": if mutated.len() <= 4096 { hex::encode(mutated) } else { hex_short(mutated, 64) }}),
                );
            }
        }
    }
}

const SUBST: [(&str, fn(u8) -> u8); 4] = [("subst-00", |_| 0), ("subst-ff", |_| 0xff), ("subst-xor80", |b| b ^ 0x80), ("subst-plus1", |b| b.wrapping_add(1))];

/// Apply every mutation class to one artifact. Returns whether the single-bit
/// flips were enumerated exhaustively.
fn mutate_artifact(ctx: &Ctx, a: &Artifact, rng: &mut Rng, exhaustive_limit: usize, samples: usize) -> bool {
    let mut t = Tally::default();
    let n = a.region_len();
    // sanity: the unmodified artifact must load with equal content
    match run_check(a, &a.bytes) {
        Outcome::AcceptedEqual => {}
        other => {
            ctx.inconclusive(&format!("the unmodified {} artifact ({}) does not load with equal content: {other:?}", a.kind, a.instance));
            return false;
        }
    }
    let exhaustive = n <= exhaustive_limit;
    let mut buf = a.bytes.clone();

    // --- single-bit flips
    if exhaustive {
        for i in 0..n {
            let (pos, part) = a.region_pos(i);
            for bit in 0..8 {
                buf[pos] ^= 1 << bit;
                judge(ctx, &mut t, a, "bitflip", part, &buf, || json!({"op":"bitflip","offset":pos,"bit":bit}));
                buf[pos] ^= 1 << bit;
            }
        }
    } else {
        for _ in 0..samples {
            let (pos, part) = a.region_pos(rng.usize_below(n));
            let bit = rng.below(8) as u8;
            buf[pos] ^= 1 << bit;
            judge(ctx, &mut t, a, "bitflip", part, &buf, || json!({"op":"bitflip","offset":pos,"bit":bit}));
            buf[pos] ^= 1 << bit;
        }
        // first/last byte of every part are always covered
        for (part, r) in &a.parts {
            for pos in [r.start, r.end - 1] {
                for bit in [0u8, 7] {
                    buf[pos] ^= 1 << bit;
                    judge(ctx, &mut t, a, "bitflip", part, &buf, || json!({"op":"bitflip","offset":pos,"bit":bit}));
                    buf[pos] ^= 1 << bit;
                }
            }
        }
    }

    // --- byte substitutions
    let subst_positions: Vec<usize> = if exhaustive { (0..n).collect() } else { (0..samples / 4).map(|_| rng.usize_below(n)).collect() };
    for &i in &subst_positions {
        let (pos, part) = a.region_pos(i);
        let orig = buf[pos];
        for (class, f) in SUBST {
            buf[pos] = f(orig);
            judge(ctx, &mut t, a, class, part, &buf, || json!({"op":class,"offset":pos,"from":orig}));
        }
        buf[pos] = orig;
    }

    // --- deletions and insertions of 1..=16 bytes inside the region
    let lens: [usize; 6] = [1, 2, 3, 4, 8, 16];
    let indel: Vec<(usize, usize)> = if n <= 64 {
        (0..n).flat_map(|i| lens.iter().map(move |&l| (i, l))).collect()
    } else {
        (0..samples / 8).map(|_| (rng.usize_below(n), rng.urange(1, 16))).collect()
    };
    for &(i, len) in &indel {
        let (pos, part) = a.region_pos(i);
        // deletion (kept inside the part)
        let part_end = a.parts.iter().find(|(_, r)| r.contains(&pos)).map_or(pos + 1, |(_, r)| r.end);
        let dl = len.min(part_end - pos);
        let mut m = Vec::with_capacity(a.bytes.len());
        m.extend_from_slice(&a.bytes[..pos]);
        m.extend_from_slice(&a.bytes[pos + dl..]);
        judge(ctx, &mut t, a, "delete", part, &m, || json!({"op":"delete","offset":pos,"len":dl}));
        // insertion: random bytes, zero bytes, or a copy of the bytes that follow
        let ins: Vec<u8> = match rng.below(3) {
            0 => rng.bytes(len),
            1 => vec![0u8; len],
            _ => a.bytes[pos..(pos + len).min(a.bytes.len())].to_vec(),
        };
        let mut m = Vec::with_capacity(a.bytes.len() + ins.len());
        m.extend_from_slice(&a.bytes[..pos]);
        m.extend_from_slice(&ins);
        m.extend_from_slice(&a.bytes[pos..]);
        judge(ctx, &mut t, a, "insert", part, &m, || json!({"op":"insert","offset":pos,"bytes":hex::encode(&ins)}));
    }

    // --- truncations
    if !a.fixed_record {
        let cuts: Vec<usize> = if n <= 64 { (0..n).collect() } else { (0..samples / 16).map(|_| rng.usize_below(n)).chain([0, n - 1]).collect() };
        for &i in &cuts {
            let (pos, part) = a.region_pos(i);
            // (a) the rest of the part is cut out, whatever follows the part is kept
            let part_end = a.parts.iter().find(|(_, r)| r.contains(&pos)).map_or(pos + 1, |(_, r)| r.end);
            let mut m = a.bytes[..pos].to_vec();
            m.extend_from_slice(&a.bytes[part_end..]);
            judge(ctx, &mut t, a, "truncate-region-tail", part, &m, || json!({"op":"truncate-region-tail","from":pos,"to":part_end}));
            // (b) the artifact ends here
            judge(ctx, &mut t, a, "truncate-artifact", part, &a.bytes[..pos], || json!({"op":"truncate-artifact","keep":pos}));
        }
    }
    if !a.fixed_record && a.length_protected {
        // --- extension of the artifact (appended bytes)
        for len in [1usize, 2, 16, 20, 24, 4096] {
            let mut m = a.bytes.clone();
            m.extend(rng.bytes(len));
            judge(ctx, &mut t, a, "extend-artifact", "end-of-artifact", &m, || json!({"op":"append","len":len}));
            let mut m = a.bytes.clone();
            m.extend(std::iter::repeat_n(0u8, len));
            judge(ctx, &mut t, a, "extend-artifact", "end-of-artifact", &m, || json!({"op":"append-zero","len":len}));
        }
    }
    *t.counts.entry(format!("{}.artifacts", a.kind)).or_insert(0) += 1;
    if exhaustive {
        *t.counts.entry(format!("{}.artifacts-with-exhaustive-bitflips", a.kind)).or_insert(0) += 1;
    }
    t.flush(ctx);
    exhaustive
}

// ---------------------------------------------------------------------------
// artifacts

fn encoding_logical(f: &EncodingFile) -> String {
    // what the page MD5s protect: the pages (parsed entries and raw page bytes). The header, the
    // ESpec block, the first_key fields of the page index and the trailing ESpec are not covered
    // by any checksum and are not part of the comparison.
    format!(
        "{:?}|{:?}",
        f.ckey_pages.iter().map(|p| (&p.entries, fnv64(&p.original_data), p.original_data.len())).collect::<Vec<_>>(),
        f.ekey_pages.iter().map(|p| (&p.entries, fnv64(&p.original_data), p.original_data.len())).collect::<Vec<_>>(),
    )
}

fn encoding_artifact(instance: String, bytes: Vec<u8>) -> Result<Artifact, String> {
    let parsed = EncodingFile::parse(&bytes).map_err(|e| format!("{instance}: {e}"))?;
    let h = &parsed.header;
    let (cp, ep) = (h.ckey_page_count as usize, h.ekey_page_count as usize);
    let (cps, eps) = (h.ckey_page_size(), h.ekey_page_size());
    // layout (docs/src/formats/encoding.md): header(22) | espec block | ckey index (32 B/page:
    // first_key[16] page_hash[16]) | ckey pages | ekey index | ekey pages | trailing espec.
    // page_hash = MD5 of the page data: protected = every page byte; the stored hash
    // fields are included (a changed stored hash must be rejected as well).
    let ckey_index = 22 + h.espec_block_size as usize;
    let ckey_pages = ckey_index + cp * 32;
    let ekey_index = ckey_pages + cp * cps;
    let ekey_pages = ekey_index + ep * 32;
    let end = ekey_pages + ep * eps;
    if end > bytes.len() {
        return Err(format!("{instance}: computed layout exceeds the file"));
    }
    let mut parts: Vec<(&'static str, Range<usize>)> = Vec::new();
    for i in 0..cp {
        parts.push(("ckey-index-stored-md5", ckey_index + i * 32 + 16..ckey_index + i * 32 + 32));
    }
    for i in 0..cp {
        let name = if i + 1 == cp { "ckey-page-last" } else if i == 0 { "ckey-page-first" } else { "ckey-page-middle" };
        parts.push((name, ckey_pages + i * cps..ckey_pages + (i + 1) * cps));
    }
    for i in 0..ep {
        parts.push(("ekey-index-stored-md5", ekey_index + i * 32 + 16..ekey_index + i * 32 + 32));
    }
    for i in 0..ep {
        let name = if i + 1 == ep { "ekey-page-last" } else if i == 0 { "ekey-page-first" } else { "ekey-page-middle" };
        parts.push((name, ekey_pages + i * eps..ekey_pages + (i + 1) * eps));
    }
    let want = encoding_logical(&parsed);
    Ok(Artifact {
        kind: "encoding",
        instance,
        bytes,
        parts,
        check: Box::new(move |d| match EncodingFile::parse(d) {
            Err(_) => Outcome::Rejected,
            Ok(f) => {
                let got = encoding_logical(&f);
                if got == want { Outcome::AcceptedEqual } else { Outcome::AcceptedAltered { what: first_diff(&want, &got), collision: false } }
            }
        }),
        fixed_record: false,
        length_protected: false,
    })
}

fn first_diff(a: &str, b: &str) -> String {
    let i = a.bytes().zip(b.bytes()).position(|(x, y)| x != y).unwrap_or(a.len().min(b.len()));
    let s = i.saturating_sub(60);
    let cut = |t: &str| t.chars().skip(s).take(160).collect::<String>();
    format!("first difference at debug offset {i}: original ..{}.. loaded ..{}..", cut(a), cut(b))
}

fn build_encoding(rng: &mut Rng, page_kb: u16, n_ckey: usize, n_ekey: usize, trailing: bool) -> Result<Vec<u8>, String> {
    let mut b = EncodingBuilder::new().with_page_sizes(page_kb, page_kb);
    if trailing {
        b = b.with_trailing_espec("b:{22=n,54=z,*=n}".to_string());
    }
    let especs = ["n", "z", "b:{256K*=z}", "b:{164=z,16K*565=z,1656=z}"];
    for _ in 0..n_ckey {
        let nk = if rng.chance(1, 8) { 2 } else { 1 };
        b.add_ckey_entry(CKeyEntryData {
            content_key: ContentKey::from_bytes(rng.array::<16>()),
            file_size: rng.range(0, 0xff_ffff_ffff),
            encoding_keys: (0..nk).map(|_| EncodingKey::from_bytes(rng.array::<16>())).collect(),
        });
    }
    for _ in 0..n_ekey {
        b.add_ekey_entry(EKeyEntryData { encoding_key: EncodingKey::from_bytes(rng.array::<16>()), espec: (*rng.pick(&especs)).to_string(), file_size: rng.range(0, 0xff_ffff_ffff) });
    }
    let f = b.build().map_err(|e| e.to_string())?;
    f.build().map_err(|e| e.to_string())
}

fn archive_logical(i: &ArchiveIndex) -> String {
    format!("{:?}|{:?}|{:?}", i.footer, i.toc, i.entries)
}

fn archive_artifact(instance: String, bytes: Vec<u8>) -> Result<Artifact, String> {
    let parsed = ArchiveIndex::parse(Cursor::new(&bytes)).map_err(|e| format!("{instance}: {e}"))?;
    let n = bytes.len();
    if n < 28 {
        return Err("archive index shorter than its footer".into());
    }
    // footer (docs/src/formats/archives.md): toc_hash[8] | version reserved[2] page_size_kb
    // offset_bytes size_bytes ekey_length footer_hash_bytes element_count(LE) | footer_hash[8].
    // footer_hash = MD5(the 12 field bytes, zero-padded to 20)[:8]: protected = the 12 field
    // bytes; the stored footer_hash is included. toc_hash is itself a stored checksum of
    // the TOC which this implementation documents as deliberately unenforced (observed only).
    let f = n - 28;
    let parts: Vec<(&'static str, Range<usize>)> = vec![
        ("footer-field-version", f + 8..f + 9),
        ("footer-field-reserved", f + 9..f + 11),
        ("footer-field-page_size_kb", f + 11..f + 12),
        ("footer-field-offset_bytes", f + 12..f + 13),
        ("footer-field-size_bytes", f + 13..f + 14),
        ("footer-field-ekey_length", f + 14..f + 15),
        ("footer-field-footer_hash_bytes", f + 15..f + 16),
        ("footer-field-element_count", f + 16..f + 20),
        ("footer-stored-hash", f + 20..f + 28),
    ];
    let want = archive_logical(&parsed);
    Ok(Artifact {
        kind: "archive-index",
        instance,
        bytes,
        parts,
        check: Box::new(move |d| {
            if d.len() < 13 {
                // ArchiveIndex::parse seeks to End(-13) first; shorter input cannot be a valid index
                return match ArchiveIndex::parse(Cursor::new(d)) {
                    Err(_) => Outcome::Rejected,
                    Ok(i) => Outcome::AcceptedAltered { what: format!("{} entries from {} bytes", i.entries.len(), d.len()), collision: false },
                };
            }
            match ArchiveIndex::parse(Cursor::new(d)) {
                Err(_) => Outcome::Rejected,
                Ok(i) => {
                    let got = archive_logical(&i);
                    if got == want { Outcome::AcceptedEqual } else { Outcome::AcceptedAltered { what: first_diff(&want, &got), collision: false } }
                }
            }
        }),
        fixed_record: false,
        length_protected: true,
    })
}

fn build_archive_index(rng: &mut Rng, entries: usize) -> Result<Vec<u8>, String> {
    let mut b = ArchiveIndexBuilder::new();
    let mut off = 0u64;
    for _ in 0..entries {
        let size = rng.range(1, 1 << 20) as u32;
        b.add_entry(rng.bytes(16), size, off);
        off += u64::from(size);
    }
    let mut out = Cursor::new(Vec::new());
    b.build(&mut out).map_err(|e| e.to_string())?;
    Ok(out.into_inner())
}

fn lru_logical(h: &LruFileHeader, e: &[LruFileEntry]) -> String {
    format!("{}|{}|{}|{:?}", h.version, h.mru_head, h.lru_tail, e.iter().map(|x| (x.prev, x.next, x.ekey, x.flags)).collect::<Vec<_>>())
}

fn lru_artifact(rng: &mut Rng, n: usize) -> Artifact {
    // layout (lru_file.rs module doc): 28-byte header = version(2) reserved(2) MD5(16) mru_head(4)
    // lru_tail(4), then N x 20-byte entries. MD5 is computed over the whole file with the hash
    // field zeroed: protected = every byte of the file (stored hash included).
    // active entries are chained tail -> ... -> head in a random order (next points towards the MRU
    // head, prev towards the LRU tail); free slots (zero key) are unlinked
    let mut entries: Vec<LruFileEntry> = Vec::with_capacity(n);
    let mut order: Vec<usize> = Vec::new();
    for i in 0..n {
        let mut ekey = [0u8; 9];
        rng.fill(&mut ekey);
        if n > 3 && rng.chance(1, 10) {
            ekey = [0; 9]; // free slot
        } else {
            order.push(i);
        }
        entries.push(LruFileEntry { prev: lru_file::LRU_SENTINEL, next: lru_file::LRU_SENTINEL, ekey, flags: rng.next_u32() as u8 });
    }
    rng.shuffle(&mut order);
    for j in 0..order.len() {
        entries[order[j]].prev = if j == 0 { lru_file::LRU_SENTINEL } else { order[j - 1] as u32 };
        entries[order[j]].next = if j + 1 == order.len() { lru_file::LRU_SENTINEL } else { order[j + 1] as u32 };
    }
    let header = LruFileHeader {
        version: if rng.bool() { 1 } else { 0 },
        hash: [0; 16],
        mru_head: order.last().map_or(lru_file::LRU_SENTINEL, |&i| i as u32),
        lru_tail: order.first().map_or(lru_file::LRU_SENTINEL, |&i| i as u32),
    };
    let bytes = lru_file::serialize(&header, &entries);
    let want = lru_logical(&header, &entries);
    let len = bytes.len();
    let mut parts: Vec<(&'static str, Range<usize>)> = vec![("header-version", 0..2), ("header-reserved", 2..4), ("header-stored-md5", 4..20), ("header-mru-head", 20..24), ("header-lru-tail", 24..28)];
    if len > 28 {
        if len > 48 {
            parts.push(("entries", 28..len - 20));
        }
        parts.push(("entry-last", len - 20..len));
    }
    Artifact {
        kind: "lru-file",
        instance: format!("{n} entries"),
        bytes,
        parts,
        check: Box::new(move |d| match lru_file::deserialize(d) {
            None => Outcome::Rejected,
            Some((h, e)) => {
                let got = lru_logical(&h, &e);
                if got == want { Outcome::AcceptedEqual } else { Outcome::AcceptedAltered { what: first_diff(&want, &got), collision: false } }
            }
        }),
        fixed_record: false,
        length_protected: true,
    }
}

fn update_logical(e: &UpdateEntry) -> String {
    format!("{:?}|{}|{}|{}|{:?}", e.ekey, e.archive_location.archive_id, e.archive_location.archive_offset, e.encoded_size, e.status)
}

fn gen_update_entry(rng: &mut Rng) -> UpdateEntry {
    let status = *rng.pick(&[UpdateStatus::Normal, UpdateStatus::Normal, UpdateStatus::Delete, UpdateStatus::HeaderNonResident, UpdateStatus::DataNonResident]);
    let ekey: [u8; 9] = if rng.chance(1, 10) { [0xff; 9] } else { rng.array::<9>() };
    UpdateEntry::new(ekey, ArchiveLocation { archive_id: rng.below(1024) as u16, archive_offset: rng.next_u32() & 0x3FFF_FFFF }, if rng.chance(1, 8) { 0 } else { rng.next_u32() }, status)
}

fn update_entry_artifact(rng: &mut Rng) -> Artifact {
    // layout (update.rs module doc): hash_guard(4, LE) | ekey(9) | location(5) | encoded_size(4, LE) |
    // status(1) | pad(1); hash_guard = hashlittle(bytes[4..23], 0) | 0x80000000: protected =
    // bytes 4..23, the stored guard (0..4) is included; byte 23 (padding) is outside.
    let e = gen_update_entry(rng);
    let next = gen_update_entry(rng);
    let mut bytes = e.to_bytes().to_vec();
    bytes.extend_from_slice(&next.to_bytes()); // context: the next entry of the page
    let want = update_logical(&e);
    Artifact {
        kind: "update-entry",
        instance: format!("status {:?}", e.status),
        bytes,
        parts: vec![("stored-hash-guard", 0..4), ("ekey", 4..13), ("archive-location", 13..18), ("encoded-size", 18..22), ("status", 22..23)],
        check: Box::new(move |d| {
            if d.len() < UPDATE_ENTRY_SIZE {
                return Outcome::Rejected;
            }
            let mut raw = [0u8; UPDATE_ENTRY_SIZE];
            raw.copy_from_slice(&d[..UPDATE_ENTRY_SIZE]);
            let p = UpdateEntry::from_bytes(&raw);
            if !p.validate_hash_guard() {
                return Outcome::Rejected;
            }
            let got = update_logical(&p);
            if got == want {
                return Outcome::AcceptedEqual;
            }
            // inherent 31-bit collision? re-check with the independent lookup3 reference over the raw bytes
            let stored = u32::from_le_bytes([raw[0], raw[1], raw[2], raw[3]]);
            let reference = lookup3::hashlittle(&raw[4..23], 0) | 0x8000_0000;
            Outcome::AcceptedAltered { what: format!("{want} -> {got}"), collision: stored == reference }
        }),
        fixed_record: true,
        length_protected: false,
    }
}

fn local_header_artifact(rng: &mut Rng) -> Artifact {
    // layout (docs/src/client/local-storage.md + local_header.rs): ekey reversed(16) | size BE(4) |
    // flags(2) | ChecksumA(4) = hashlittle(bytes 0..22, 0x3D6BE971) | ChecksumB(4) = rotating XOR of
    // bytes 0..26: protected = bytes 0..26 (ChecksumA's value is covered by B), stored B included.
    let base_offset = if rng.bool() { rng.usize_below(4) } else { rng.usize_below(1 << 30) };
    let h = LocalHeader::new(rng.array::<16>(), rng.range(0, 0x7fff_ffff) as u32, base_offset);
    let mut bytes = h.to_bytes().to_vec();
    bytes.extend_from_slice(b"BLTE");
    bytes.extend(rng.bytes(28));
    let want = format!("{:?}|{}|{}", h.encoding_key, h.size_with_header, h.flags);
    Artifact {
        kind: "local-header",
        instance: format!("base_offset&3={}", base_offset & 3),
        bytes,
        parts: vec![("ekey", 0..16), ("size", 16..20), ("flags", 20..22), ("stored-checksum-a", 22..26), ("stored-checksum-b", 26..30)],
        check: Box::new(move |d| {
            let Some(p) = LocalHeader::from_bytes(d) else { return Outcome::Rejected };
            if !p.validate_checksums(base_offset) {
                return Outcome::Rejected;
            }
            let got = format!("{:?}|{}|{}", p.encoding_key, p.size_with_header, p.flags);
            if got == want {
                return Outcome::AcceptedEqual;
            }
            // both stored checksums genuinely match the mutated bytes? (reference implementations)
            let raw = &d[..LOCAL_HEADER_SIZE];
            let a_ref = lookup3::hashlittle(&raw[..22], 0x3D6B_E971);
            let mut b_ref = [0u8; 4];
            for (i, &x) in raw[..26].iter().enumerate() {
                b_ref[(base_offset + i) & 3] ^= x;
            }
            let a_stored = u32::from_le_bytes([raw[22], raw[23], raw[24], raw[25]]);
            let collision = a_ref == a_stored && b_ref == raw[26..30];
            Outcome::AcceptedAltered { what: format!("{want} -> {got}"), collision }
        }),
        fixed_record: true,
        length_protected: false,
    }
}

fn bpsv_logical(doc: &cascette_formats::bpsv::BpsvDocument) -> String {
    format!("{}|{:?}|{:?}", doc.schema().to_header(), doc.sequence_number(), doc.rows().iter().map(|r| r.raw_values().to_vec()).collect::<Vec<_>>())
}

fn mime_artifact(instance: String, text: Vec<u8>) -> Result<Artifact, String> {
    // V1 reply: MIME message followed by the epilogue line "Checksum: <sha256 hex>\r\n";
    // SHA-256 covers every byte before the checksum line (tcp/v1.rs wrap_in_mime,
    // mime_parser.rs extract_checksum): protected = [0, start of "Checksum: ").
    let pos = text.windows(10).rposition(|w| w == b"Checksum: ").ok_or("no checksum line")?;
    let doc = parse_v1_mime_to_bpsv(&text).map_err(|e| format!("{instance}: {e}"))?;
    let want = bpsv_logical(&doc);
    // parts: MIME framing before the body, the BPSV body, framing after the body
    // a second MIME part with the signature (coverage-driven extension) follows the data part:
    // the data part is looked for before it
    const SIG: &[u8] = b"Content-Disposition: signature";
    let sig_part = text[..pos].windows(SIG.len()).position(|w| w == SIG).and_then(|p| text[..p].windows(4).rposition(|w| w == b"\r\n--"));
    let data_end = sig_part.unwrap_or(pos);
    let body_start = text[..data_end].windows(4).rposition(|w| w == b"\r\n\r\n").map_or(0, |p| p + 4).min(data_end);
    let body_start = if body_start >= data_end { text.windows(4).position(|w| w == b"\r\n\r\n").map_or(0, |p| p + 4) } else { body_start };
    let closing = if sig_part.is_some() { data_end } else { text[..pos].windows(4).rposition(|w| w == b"\r\n--").unwrap_or(pos) };
    let mut parts: Vec<(&'static str, Range<usize>)> = Vec::new();
    if body_start > 0 && body_start < closing {
        parts.push(("mime-headers", 0..body_start));
        parts.push(("bpsv-body", body_start..closing));
        if let Some(sp) = sig_part {
            let last = text[..pos].windows(4).rposition(|w| w == b"\r\n--").unwrap_or(pos).max(sp);
            if sp < last {
                parts.push(("signature-part", sp..last));
            }
            if last < pos {
                parts.push(("closing-boundary", last..pos));
            }
        } else if closing < pos {
            parts.push(("closing-boundary", closing..pos));
        }
    } else {
        parts.push(("message", 0..pos));
    }
    Ok(Artifact {
        kind: "v1-mime",
        instance,
        bytes: text,
        parts,
        check: Box::new(move |d| match parse_v1_mime_to_bpsv(d) {
            Err(_) => Outcome::Rejected,
            Ok(doc) => {
                let got = bpsv_logical(&doc);
                if got == want { Outcome::AcceptedEqual } else { Outcome::AcceptedAltered { what: first_diff(&want, &got), collision: false } }
            }
        }),
        fixed_record: false,
        length_protected: false,
    })
}

fn server_mime_replies(rng: &mut Rng) -> Result<Vec<(String, Vec<u8>)>, String> {
    use cascette_ribbit::{AppState, BuildRecord, ServerConfig};
    let dir = tempfile::tempdir().map_err(|e| e.to_string())?;
    let hex32 = |rng: &mut Rng| hex::encode(rng.array::<16>());
    let recs: Vec<BuildRecord> = ["wow", "wow_classic", "agent"]
        .iter()
        .enumerate()
        .map(|(i, p)| BuildRecord {
            id: i as u64 + 1,
            product: (*p).to_string(),
            version: format!("{}.{}.{}.{}", rng.range(1, 11), rng.range(0, 15), rng.range(0, 9), rng.range(10_000, 70_000)),
            build: rng.range(10_000, 70_000).to_string(),
            build_config: hex32(rng),
            cdn_config: hex32(rng),
            keyring: if i == 1 { Some(hex32(rng)) } else { None },
            product_config: if i != 2 { Some(hex32(rng)) } else { None },
            build_time: "2024-05-01T10:00:00+00:00".to_string(),
            encoding_ekey: hex32(rng),
            root_ekey: hex32(rng),
            install_ekey: hex32(rng),
            download_ekey: hex32(rng),
            cdn_path: if i == 0 { Some("tpr/wow".to_string()) } else { None },
        })
        .collect();
    let path = dir.path().join("builds.json");
    std::fs::write(&path, serde_json::to_vec(&recs).map_err(|e| e.to_string())?).map_err(|e| e.to_string())?;
    let cfg = ServerConfig {
        http_bind: std::net::SocketAddr::from(([127, 0, 0, 1], 0)),
        tcp_bind: std::net::SocketAddr::from(([127, 0, 0, 1], 0)),
        builds: path,
        cdn_hosts: "cdn.example.test".to_string(),
        cdn_path: "tpr/default".to_string(),
        tls_cert: None,
        tls_key: None,
    };
    let state = AppState::new(&cfg).map_err(|e| e.to_string())?;
    let mut out = Vec::new();
    for cmd in ["v1/products/wow/versions", "v1/products/wow_classic/bgdl", "v1/products/agent/cdns", "v1/summary"] {
        let reply = cascette_ribbit::tcp::v1::handle_v1_command(cmd, &state).map_err(|e| e.to_string())?;
        out.push((format!("server reply to {cmd}"), reply.into_bytes()));
    }
    Ok(out)
}

/// A V1 reply in the layout of the public Ribbit service (disposition names the endpoint,
/// a second part carries a signature), built in the harness with its own SHA-256.
fn handmade_mime(rng: &mut Rng) -> Vec<u8> {
    let boundary = format!("{}", hex::encode(rng.array::<12>()));
    let body = format!(
        "Region!STRING:0|BuildConfig!HEX:16|CDNConfig!HEX:16|KeyRing!HEX:16|BuildId!DEC:4|VersionsName!STRING:0|ProductConfig!HEX:16\n## seqn = {}\nus|{}|{}||{}|1.15.2.{}|{}\neu|{}|{}||{}|1.15.2.{}|{}\n",
        rng.range(1000, 4_000_000),
        hex::encode(rng.array::<16>()),
        hex::encode(rng.array::<16>()),
        rng.range(1, 99_999),
        rng.range(1, 99_999),
        hex::encode(rng.array::<16>()),
        hex::encode(rng.array::<16>()),
        hex::encode(rng.array::<16>()),
        rng.range(1, 99_999),
        rng.range(1, 99_999),
        hex::encode(rng.array::<16>()),
    );
    let msg = format!(
        "MIME-Version: 1.0\r\nContent-Type: multipart/alternative; boundary=\"{boundary}\"\r\n\r\n--{boundary}\r\nContent-Type: text/plain\r\nContent-Disposition: version\r\n\r\n{body}\r\n--{boundary}--\r\n"
    );
    let sum = Sha256::digest(msg.as_bytes());
    format!("{msg}Checksum: {}\r\n", hex::encode(sum)).into_bytes()
}


// ---------------------------------------------------------------------------
// coverage-driven extension: alternative verifying load paths, other format variants,
// checksum-guarded records the first version did not reach (see notes/C07.md)

static SCRATCH: std::sync::OnceLock<std::path::PathBuf> = std::sync::OnceLock::new();

/// A file path private to the calling thread inside the run's scratch directory.
fn scratch_file(name: &str) -> std::path::PathBuf {
    let dir = SCRATCH.get().cloned().unwrap_or_else(std::env::temp_dir);
    let d = dir.join(format!("t-{:?}", std::thread::current().id()).replace(['(', ')'], ""));
    let _ = std::fs::create_dir_all(&d);
    d.join(name)
}

/// BLTE container around an encoding file with uncompressed ('N') chunks, written by the harness:
/// one chunk without chunk table, or `cuts.len()+1` chunks with a standard chunk table (whose
/// per-chunk MD5s `parse_blte` does not look at: the page MD5s are what must catch a change).
/// Returns (container bytes, offset map: encoding offset -> container offset).
fn blte_wrap_n(enc: &[u8], cuts: &[usize]) -> (Vec<u8>, Vec<(Range<usize>, usize)>) {
    if cuts.is_empty() {
        let mut v = b"BLTE\0\0\0\0N".to_vec();
        v.extend_from_slice(enc);
        return (v, vec![(0..enc.len(), 9)]);
    }
    let mut bounds = vec![0usize];
    bounds.extend_from_slice(cuts);
    bounds.push(enc.len());
    let n = bounds.len() - 1;
    let header_size = 8 + 4 + 24 * n;
    let mut v = b"BLTE".to_vec();
    v.extend_from_slice(&(header_size as u32).to_be_bytes());
    v.push(0x0f);
    v.extend_from_slice(&(n as u32).to_be_bytes()[1..]);
    for w in bounds.windows(2) {
        let mut chunk = vec![b'N'];
        chunk.extend_from_slice(&enc[w[0]..w[1]]);
        v.extend_from_slice(&(chunk.len() as u32).to_be_bytes());
        v.extend_from_slice(&((w[1] - w[0]) as u32).to_be_bytes());
        v.extend_from_slice(&md5::compute(&chunk).0);
    }
    let mut map = Vec::new();
    for w in bounds.windows(2) {
        v.push(b'N');
        map.push((w[0]..w[1], v.len() - w[0]));
        v.extend_from_slice(&enc[w[0]..w[1]]);
    }
    (v, map)
}

/// The same protected region as `encoding_artifact`, reached through `EncodingFile::parse_blte`
/// (the load path of a CDN download: BLTE container -> decompress -> parse).
fn encoding_blte_artifact(instance: String, enc: &[u8], chunks: usize) -> Result<Artifact, String> {
    let plain = encoding_artifact(instance.clone(), enc.to_vec())?;
    // chunk boundaries inside the first ckey page and inside the last ekey page
    let cuts: Vec<usize> = match chunks {
        1 => Vec::new(),
        _ => {
            let first = plain.parts.iter().find(|(n, _)| n.starts_with("ckey-page")).map(|(_, r)| r.start + r.len() / 2);
            let last = plain.parts.iter().rev().find(|(n, _)| n.starts_with("ekey-page")).map(|(_, r)| r.start + r.len() / 3);
            let mut c: Vec<usize> = first.into_iter().chain(last).collect();
            c.sort_unstable();
            c.dedup();
            c
        }
    };
    let (bytes, map) = blte_wrap_n(enc, &cuts);
    let tr = |o: usize| -> usize { map.iter().find(|(r, _)| r.contains(&o)).map_or(o, |(_, d)| o + d) };
    // a part that spans a chunk boundary is split (the chunk's mode byte lies in between)
    let mut parts: Vec<(&'static str, Range<usize>)> = Vec::new();
    for (name, r) in &plain.parts {
        let mut start = r.start;
        for c in cuts.iter().filter(|c| r.contains(c) && **c > r.start) {
            parts.push((name, tr(start)..tr(*c - 1) + 1));
            start = *c;
        }
        parts.push((name, tr(start)..tr(r.end - 1) + 1));
    }
    let parsed = EncodingFile::parse_blte(&bytes).map_err(|e| format!("{instance}: parse_blte: {e}"))?;
    let want = encoding_logical(&parsed);
    Ok(Artifact {
        kind: "encoding-via-parse_blte",
        instance: format!("{instance} in a {}-chunk BLTE container", cuts.len() + 1),
        bytes,
        parts,
        check: Box::new(move |d| match EncodingFile::parse_blte(d) {
            Err(_) => Outcome::Rejected,
            Ok(f) => {
                let got = encoding_logical(&f);
                if got == want { Outcome::AcceptedEqual } else { Outcome::AcceptedAltered { what: first_diff(&want, &got), collision: false } }
            }
        }),
        fixed_record: false,
        length_protected: false,
    })
}

/// `IndexEntry::verify` itself: stored MD5 (16 bytes) followed by the page it covers.
fn index_entry_verify_artifact(rng: &mut Rng, page_len: usize) -> Artifact {
    let page = if rng.bool() { rng.bytes(page_len) } else { vec![0u8; page_len] };
    let mut bytes = md5::compute(&page).0.to_vec();
    bytes.extend_from_slice(&page);
    let orig = bytes.clone();
    let mut parts: Vec<(&'static str, Range<usize>)> = vec![("stored-md5", 0..16)];
    if page_len > 0 {
        parts.push(("page", 16..16 + page_len));
    }
    Artifact {
        kind: "encoding-index-entry.verify",
        instance: format!("page of {page_len} bytes"),
        bytes,
        parts,
        check: Box::new(move |d| {
            if d.len() < 16 {
                return Outcome::Rejected;
            }
            let mut sum = [0u8; 16];
            sum.copy_from_slice(&d[..16]);
            let e = cascette_formats::encoding::IndexEntry::new(rng_free_first_key(d), sum);
            // the accessors of the entry must not disturb the check
            let _ = (e.first_content_key(), e.first_encoding_key());
            if !e.verify(&d[16..]) {
                Outcome::Rejected
            } else if d == orig.as_slice() {
                Outcome::AcceptedEqual
            } else {
                Outcome::AcceptedAltered { what: format!("verify() == true for {} page bytes that differ from the original {}", d.len() - 16, orig.len() - 16), collision: false }
            }
        }),
        fixed_record: false,
        length_protected: true,
    }
}

fn rng_free_first_key(d: &[u8]) -> [u8; 16] {
    let mut k = [0u8; 16];
    let n = d.len().saturating_sub(16).min(16);
    k[..n].copy_from_slice(&d[16..16 + n]);
    k
}

fn archive_footer_parts(n: usize) -> Vec<(&'static str, Range<usize>)> {
    let f = n - 28;
    vec![
        ("footer-field-version", f + 8..f + 9),
        ("footer-field-reserved", f + 9..f + 11),
        ("footer-field-page_size_kb", f + 11..f + 12),
        ("footer-field-offset_bytes", f + 12..f + 13),
        ("footer-field-size_bytes", f + 13..f + 14),
        ("footer-field-ekey_length", f + 14..f + 15),
        ("footer-field-footer_hash_bytes", f + 15..f + 16),
        ("footer-field-element_count", f + 16..f + 20),
        ("footer-stored-hash", f + 20..f + 28),
    ]
}

/// Archive index in another layout than the builder default (16-byte keys, 4-byte offsets,
/// footer version 1): truncated keys, 5- and 6-byte offsets, footer version 0.
fn build_archive_index_variant(rng: &mut Rng, entries: usize, key_size: u8, offset_bytes: u8, version: u8) -> Result<Vec<u8>, String> {
    let mut b = ArchiveIndexBuilder::with_config(key_size, offset_bytes, 4);
    let mut off = 0u64;
    for _ in 0..entries {
        let size = rng.range(1, 1 << 20) as u32;
        b.add_entry(rng.bytes(key_size as usize), size, off);
        off += u64::from(size);
    }
    let mut out = Cursor::new(Vec::new());
    b.build(&mut out).map_err(|e| e.to_string())?;
    let mut bytes = out.into_inner();
    if version != 1 {
        // footer version 0 is valid as well: set it and recompute the footer hash the way the
        // format documentation gives it (MD5 of the 12 field bytes zero-padded to 20, first 8 bytes)
        let f = bytes.len() - 28;
        bytes[f + 8] = version;
        let mut buf = [0u8; 20];
        buf[..12].copy_from_slice(&bytes[f + 8..f + 20]);
        let h = md5::compute(buf).0;
        bytes[f + 20..f + 28].copy_from_slice(&h[..8]);
    }
    Ok(bytes)
}

/// The footer check reached through `ChunkedArchiveIndex::open` (lazy loader: footer and TOC are
/// read at open, chunks on demand). Logical content = what lookups of the original keys return.
fn archive_chunked_artifact(instance: String, bytes: Vec<u8>) -> Result<Artifact, String> {
    use cascette_formats::archive::ChunkedArchiveIndex;
    let parsed = ArchiveIndex::parse(Cursor::new(&bytes)).map_err(|e| format!("{instance}: {e}"))?;
    if parsed.footer.ekey_length != 16 || parsed.footer.offset_bytes != 4 {
        return Err(format!("{instance}: the chunk loader only reads the 16/4/4 layout"));
    }
    let n = bytes.len();
    let mut keys: Vec<Vec<u8>> = Vec::new();
    let step = (parsed.entries.len() / 48).max(1);
    for (i, e) in parsed.entries.iter().enumerate() {
        if i % step == 0 || i + 1 == parsed.entries.len() {
            keys.push(e.encoding_key.clone());
        }
    }
    keys.push(vec![0u8; 16]);
    keys.push(vec![0xff; 16]);
    let lookups = move |path: &std::path::Path| -> Option<String> {
        let mut ix = ChunkedArchiveIndex::open(path).ok()?;
        let mut out = String::new();
        for k in &keys {
            match ix.find_entry(k) {
                Ok(Some(e)) => out.push_str(&format!("{}:{}@{};", hex_short(k, 6), e.size, e.offset)),
                Ok(None) => out.push_str(&format!("{}:-;", hex_short(k, 6))),
                // a chunk that cannot be read after a successful open: the index is not served as good
                Err(_) => return None,
            }
        }
        Some(out)
    };
    let p0 = scratch_file("chunked-orig.index");
    std::fs::write(&p0, &bytes).map_err(|e| e.to_string())?;
    let want = lookups(&p0).ok_or_else(|| format!("{instance}: ChunkedArchiveIndex::open refuses the unmodified index"))?;
    let _ = std::fs::remove_file(&p0);
    Ok(Artifact {
        kind: "archive-index-via-chunked-open",
        instance,
        bytes,
        parts: archive_footer_parts(n),
        check: Box::new(move |d| {
            let p = scratch_file("chunked.index");
            if std::fs::write(&p, d).is_err() {
                return Outcome::Rejected;
            }
            match lookups(&p) {
                None => Outcome::Rejected,
                Some(got) if got == want => Outcome::AcceptedEqual,
                Some(got) => Outcome::AcceptedAltered { what: first_diff(&want, &got), collision: false },
            }
        }),
        fixed_record: false,
        length_protected: true,
    })
}

/// Archive group (6-byte composite offsets) through `ArchiveGroup::parse`; the same bytes must get
/// the same verdict from `ArchiveIndex::parse` and from `CascFormat::parse`.
fn archive_group_artifact(rng: &mut Rng, entries: usize) -> Result<Artifact, String> {
    use cascette_formats::CascFormat;
    use cascette_formats::archive::{ArchiveGroup, ArchiveGroupBuilder, ArchiveGroupEntry};
    let mut b = ArchiveGroupBuilder::new();
    for _ in 0..entries {
        b.add_entry(ArchiveGroupEntry::new(rng.bytes(16), rng.below(4000) as u16, rng.next_u32(), rng.range(1, 1 << 20) as u32));
    }
    let mut out = Cursor::new(Vec::new());
    b.build(&mut out).map_err(|e| e.to_string())?;
    let bytes = out.into_inner();
    let logical = |g: &ArchiveGroup| format!("{:?}|{:?}", g.footer, g.entries.iter().map(|e| (&e.encoding_key, e.archive_index, e.offset, e.size)).collect::<Vec<_>>());
    let parsed = ArchiveGroup::parse(&mut Cursor::new(&bytes)).map_err(|e| format!("archive group {entries}: {e}"))?;
    let want = logical(&parsed);
    let n = bytes.len();
    Ok(Artifact {
        kind: "archive-group",
        instance: format!("builder {entries} entries"),
        bytes,
        parts: archive_footer_parts(n),
        check: Box::new(move |d| {
            if d.len() < 13 {
                return match ArchiveGroup::parse(&mut Cursor::new(d)) {
                    Err(_) => Outcome::Rejected,
                    Ok(g) => Outcome::AcceptedAltered { what: format!("{} entries from {} bytes", g.entries.len(), d.len()), collision: false },
                };
            }
            let r = ArchiveGroup::parse(&mut Cursor::new(d));
            let plain = ArchiveIndex::parse(Cursor::new(d));
            let by_trait = <ArchiveIndex as CascFormat>::parse(d);
            // alternative entry points over the same bytes: the footer verdict must be the same
            // (ArchiveGroup::parse may refuse more: it also wants 6-byte offsets)
            if plain.is_ok() != by_trait.is_ok() {
                return Outcome::AcceptedAltered { what: format!("ArchiveIndex::parse ok={} but CascFormat::parse ok={}", plain.is_ok(), by_trait.is_ok()), collision: false };
            }
            if r.is_ok() && plain.is_err() {
                return Outcome::AcceptedAltered { what: "ArchiveGroup::parse accepted what ArchiveIndex::parse rejects".into(), collision: false };
            }
            match r {
                Err(_) => match plain {
                    // not a group any more (offset_bytes changed) but accepted as a plain index
                    Ok(i) => Outcome::AcceptedAltered { what: format!("rejected as group, accepted as plain index with footer {:?}", i.footer), collision: false },
                    Err(_) => Outcome::Rejected,
                },
                Ok(g) => {
                    let got = logical(&g);
                    if got == want { Outcome::AcceptedEqual } else { Outcome::AcceptedAltered { what: first_diff(&want, &got), collision: false } }
                }
            }
        }),
        fixed_record: false,
        length_protected: true,
    })
}

/// The LRU checkpoint through the manager's own load path (`LruManager::load_from_disk`).
fn lru_manager_artifact(rng: &mut Rng, n: usize) -> Artifact {
    use cascette_client_storage::lru::LruManager;
    let base = lru_artifact(rng, n);
    let generation = 0x0123_4567_89ab_cdefu64;
    let cap = n.max(1) as u32;
    let load = move |d: &[u8]| -> Option<String> {
        let dir = scratch_file("lru").with_extension("d");
        let _ = std::fs::create_dir_all(&dir);
        let path = lru_file::lru_file_path(&dir, generation);
        std::fs::write(&path, d).ok()?;
        let mut m = LruManager::new(cap, dir);
        // one runtime per mutation thread (its blocking pool serves the manager's tokio::fs::read)
        thread_local! {
            static RT: Option<tokio::runtime::Runtime> = tokio::runtime::Builder::new_current_thread().max_blocking_threads(1).build().ok();
        }
        RT.with(|rt| rt.as_ref().and_then(|rt| rt.block_on(m.load_from_disk(generation)).ok()))?;
        let mut keys: Vec<[u8; 9]> = Vec::new();
        m.for_each_entry(|k| keys.push(*k));
        Some(format!("{}|{:?}", m.len(), keys))
    };
    let want = load(&base.bytes).unwrap_or_else(|| "<unmodified checkpoint not loadable>".into());
    Artifact {
        kind: "lru-file-via-load_from_disk",
        instance: base.instance.clone(),
        bytes: base.bytes.clone(),
        parts: base.parts.clone(),
        check: Box::new(move |d| match load(d) {
            None => Outcome::Rejected,
            Some(got) if got == want => Outcome::AcceptedEqual,
            Some(got) => Outcome::AcceptedAltered { what: first_diff(&want, &got), collision: false },
        }),
        fixed_record: false,
        length_protected: true,
    }
}

/// KMT V8 residency entry (40 bytes): guard = hashlittle(bytes[4..37], 0) | 0x80000000 over
/// ekey(16) span(16) update_type(1) (key_state.rs: "JenkinsHashLittle2(&entry[4], 0x21, 0)").
fn residency_entry_artifact(rng: &mut Rng) -> Artifact {
    use cascette_client_storage::kmt::key_state::{ResidencyEntry, ResidencySpan, ResidencyUpdateType};
    let ty = *rng.pick(&[ResidencyUpdateType::Set, ResidencyUpdateType::Create, ResidencyUpdateType::Delete, ResidencyUpdateType::MarkResident, ResidencyUpdateType::MarkNonResident]);
    let span = if rng.bool() { ResidencySpan::full() } else { ResidencySpan::range(rng.next_u32() as i32, rng.next_u32() as i32) };
    let e = ResidencyEntry::new(rng.array::<16>(), span, ty);
    let logical = |e: &ResidencyEntry| format!("{:?}|{:?}|{:?}", e.ekey, e.span, e.update_type);
    let want = logical(&e);
    let mut bytes = e.to_bytes().to_vec();
    bytes.extend_from_slice(&ResidencyEntry::new(rng.array::<16>(), ResidencySpan::full(), ResidencyUpdateType::Set).to_bytes());
    Artifact {
        kind: "residency-entry",
        instance: format!("update type {ty:?}"),
        bytes,
        parts: vec![("stored-hash-guard", 0..4), ("ekey", 4..20), ("span", 20..36), ("update-type", 36..37)],
        check: Box::new(move |d| {
            if d.len() < 40 {
                return Outcome::Rejected;
            }
            let mut raw = [0u8; 40];
            raw.copy_from_slice(&d[..40]);
            let p = ResidencyEntry::from_bytes(&raw);
            if !p.is_valid() || !p.validate_hash_guard() {
                return Outcome::Rejected;
            }
            let got = logical(&p);
            if got == want {
                return Outcome::AcceptedEqual;
            }
            let stored = u32::from_le_bytes([raw[0], raw[1], raw[2], raw[3]]);
            let reference = lookup3::hashlittle(&raw[4..37], 0) | 0x8000_0000;
            Outcome::AcceptedAltered { what: format!("{want} -> {got}"), collision: stored == reference }
        }),
        fixed_record: true,
        length_protected: false,
    }
}

/// V1 reply through `mime_parser::parse_v1_mime_response` (the structure-returning entry point:
/// data, signature, checksum) instead of the BPSV-converting wrapper.
fn mime_response_artifact(instance: String, text: Vec<u8>) -> Result<Artifact, String> {
    use cascette_protocol::mime_parser::parse_v1_mime_response;
    let base = mime_artifact(instance, text)?;
    let logical = |r: &cascette_protocol::mime_parser::V1MimeResponse| format!("{:?}|{:?}", r.data, r.signature);
    let want = logical(&parse_v1_mime_response(&base.bytes).map_err(|e| e.to_string())?);
    Ok(Artifact {
        kind: "v1-mime-via-parse_v1_mime_response",
        instance: base.instance.clone(),
        bytes: base.bytes.clone(),
        parts: base.parts.clone(),
        check: Box::new(move |d| match parse_v1_mime_response(d) {
            Err(_) => Outcome::Rejected,
            Ok(r) => {
                let got = logical(&r);
                if got == want { Outcome::AcceptedEqual } else { Outcome::AcceptedAltered { what: first_diff(&want, &got), collision: false } }
            }
        }),
        fixed_record: false,
        length_protected: false,
    })
}

/// The second V1 parser of the protocol crate (`v1_mime::parse_v1_mime_response`): its epilogue
/// carries an MD5 of every byte before the `Checksum: ` line (module doc of v1_mime/mod.rs).
fn v1_mime_md5_artifact(rng: &mut Rng) -> Result<Artifact, String> {
    use cascette_protocol::v1_mime::parse_v1_mime_response;
    let sha = handmade_mime(rng);
    let pos = sha.windows(10).rposition(|w| w == b"Checksum: ").ok_or("no checksum line")?;
    let mut text = sha[..pos].to_vec();
    let sum = md5::compute(&text).0;
    text.extend_from_slice(format!("Checksum: {}\r\n", hex::encode(sum)).as_bytes());
    let logical = |d: &str| -> String {
        match cascette_formats::bpsv::parse(d) {
            Ok(doc) => bpsv_logical(&doc),
            Err(_) => format!("raw:{d}"),
        }
    };
    let first = parse_v1_mime_response(&text, None).map_err(|e| format!("v1_mime module: {e}"))?;
    let want = logical(&first.data);
    let body_start = text.windows(4).rposition(|w| w == b"\r\n\r\n").map_or(0, |p| p + 4).min(pos);
    let closing = text[..pos].windows(4).rposition(|w| w == b"\r\n--").unwrap_or(pos);
    let parts: Vec<(&'static str, Range<usize>)> = if body_start > 0 && body_start < closing {
        vec![("mime-headers", 0..body_start), ("bpsv-body", body_start..closing), ("closing-boundary", closing..pos)]
    } else {
        vec![("message", 0..pos)]
    };
    Ok(Artifact {
        kind: "v1-mime-md5-epilogue(v1_mime-module)",
        instance: "harness-built reply with MD5 epilogue".into(),
        bytes: text,
        parts,
        check: Box::new(move |d| match parse_v1_mime_response(d, None) {
            Err(_) => Outcome::Rejected,
            Ok(r) => {
                let got = logical(&r.data);
                if got == want { Outcome::AcceptedEqual } else { Outcome::AcceptedAltered { what: first_diff(&want, &got), collision: false } }
            }
        }),
        fixed_record: false,
        length_protected: false,
    })
}

/// BLTE container with a chunk table: every chunk is stored together with its MD5
/// (`ChunkInfo::checksum`), checked by `ChunkData::verify_checksum`. Neither `BlteFile::parse` nor
/// `decompress` calls it, so the verifying load is parse + verify_checksum of every chunk.
fn blte_chunks_artifact(rng: &mut Rng, extended: bool) -> Result<Artifact, String> {
    use cascette_formats::blte::BlteFile;
    use cascette_formats::CascFormat;
    let (n1, n2) = (rng.urange(1, 40), rng.urange(40, 200));
    let payloads: Vec<Vec<u8>> = vec![rng.bytes(n1), rng.bytes(n2), vec![7u8; 33]];
    let info = if extended { 40 } else { 24 };
    let header_size = 8 + 4 + info * payloads.len();
    let mut v = b"BLTE".to_vec();
    v.extend_from_slice(&(header_size as u32).to_be_bytes());
    v.push(if extended { 0x10 } else { 0x0f });
    v.extend_from_slice(&(payloads.len() as u32).to_be_bytes()[1..]);
    let mut parts: Vec<(&'static str, Range<usize>)> = Vec::new();
    for p in &payloads {
        let mut chunk = vec![b'N'];
        chunk.extend_from_slice(p);
        v.extend_from_slice(&(chunk.len() as u32).to_be_bytes());
        v.extend_from_slice(&(p.len() as u32).to_be_bytes());
        parts.push(("chunk-table-stored-md5", v.len()..v.len() + 16));
        v.extend_from_slice(&md5::compute(&chunk).0);
        if extended {
            v.extend_from_slice(&md5::compute(p).0);
        }
    }
    for (i, p) in payloads.iter().enumerate() {
        let name = if i + 1 == payloads.len() { "chunk-last" } else if i == 0 { "chunk-first" } else { "chunk-middle" };
        parts.push((name, v.len()..v.len() + 1 + p.len()));
        v.push(b'N');
        v.extend_from_slice(p);
    }
    let want: Vec<u8> = payloads.concat();
    let check = move |d: &[u8]| -> Outcome {
        let Ok(f) = <BlteFile as CascFormat>::parse(d) else { return Outcome::Rejected };
        let Some(ext) = f.header.extended.as_ref() else { return Outcome::Rejected };
        if ext.chunk_infos.len() != f.chunks.len() {
            return Outcome::Rejected;
        }
        for (c, i) in f.chunks.iter().zip(&ext.chunk_infos) {
            if !c.verify_checksum(&i.checksum) {
                return Outcome::Rejected;
            }
        }
        match f.decompress() {
            Err(_) => Outcome::Rejected,
            Ok(got) if got == want => Outcome::AcceptedEqual,
            Ok(got) => Outcome::AcceptedAltered { what: format!("all chunk checksums verify, content {} -> {}", hex_short(&want, 24), hex_short(&got, 24)), collision: false },
        }
    };
    if !matches!(check(&v), Outcome::AcceptedEqual) {
        return Err("harness-built BLTE container does not verify unmodified".into());
    }
    Ok(Artifact { kind: "blte-chunk-table", instance: format!("3 N chunks, {} chunk table", if extended { "extended" } else { "standard" }), bytes: v, parts, check: Box::new(check), fixed_record: false, length_protected: false })
}

// ---------------------------------------------------------------------------
// the validators behind the cache APIs, called directly

/// For content `data` with key = MD5(data): every validator must say valid for (key, data) and
/// invalid / Err for (key, data') with data' != data.
async fn direct_validators(ctx: &Ctx, rounds: usize) {
    use cascette_cache::validation::NgdpBytes;
    let md5h = Md5ValidationHooks::new();
    let ngdp = NgdpValidationHooks::new();
    let ngdp_j = NgdpValidationHooks::new().with_jenkins96_validation();
    let mut rng = ctx.rng(9100);
    for round in 0..rounds {
        let data = match round % 5 {
            0 => Vec::new(),
            1 => vec![rng.next_u32() as u8],
            2 => {
                let n = rng.urange(2, 64);
                rng.bytes(n)
            }
            3 => {
                let n = rng.urange(64, 5000);
                rng.bytes(n)
            }
            _ => vec![0u8; rng.urange(1, 300)],
        };
        let on = rng.urange(1, 64);
        let other = rng.bytes(on);
        let key = ContentKey::from_data(&data);
        let mut cases: Vec<(Fault, Vec<u8>)> = vec![(Fault::None, data.clone())];
        for f in FAULTS {
            for _ in 0..3 {
                let bad = corrupt(&mut rng, f, &data, &other);
                if bad != data {
                    cases.push((f, bad));
                }
            }
        }
        // batch validator: element-wise the same verdicts as the single one
        let items: Vec<(ContentKey, &[u8])> = cases.iter().map(|(_, d)| (key, d.as_slice())).collect();
        let batch = ngdp.batch_validate_content(&items).await;
        for (idx, (fault, d)) in cases.iter().enumerate() {
            let good = *fault == Fault::None;
            ctx.eval_nontrivial(mix64(fnv64(b"validators"), mix64(round as u64, idx as u64)));
            let b = Bytes::from(d.clone());
            let mut verdicts: Vec<(&'static str, Option<bool>)> = Vec::new();
            verdicts.push(("Md5ValidationHooks.validate_content", md5h.validate_content(&key, d).await.ok().map(|r| r.is_valid)));
            verdicts.push(("Md5ValidationHooks.validate_on_get", md5h.validate_on_get(&key, d).await.ok().map(|r| r.is_valid)));
            verdicts.push(("NgdpValidationHooks.validate_content", ngdp.validate_content(&key, d).await.ok().map(|r| r.is_valid)));
            verdicts.push(("NgdpValidationHooks.validate_on_get", ngdp.validate_on_get(&key, d).await.ok().map(|r| r.is_valid)));
            verdicts.push(("NgdpValidationHooks(jenkins96).validate_content", ngdp_j.validate_content(&key, d).await.ok().map(|r| r.is_valid)));
            verdicts.push(("NgdpValidationHooks.batch_validate_content", batch.as_ref().ok().and_then(|v| v.get(idx)).map(|r| r.is_valid)));
            verdicts.push(("NgdpBytes.new_validated", Some(NgdpBytes::new_validated(b.clone(), key).is_ok())));
            verdicts.push(("NgdpBytes.from_pool_buffer_validated", Some(NgdpBytes::from_pool_buffer_validated(bytes::BytesMut::from(d.as_slice()), key).is_ok())));
            let lazy = NgdpBytes::new_with_key(b.clone(), key);
            let needs = lazy.needs_validation();
            verdicts.push(("NgdpBytes.validate_if_needed", lazy.validate_if_needed().ok()));
            // the cached verdict of a second call and the flag must agree with the first
            verdicts.push(("NgdpBytes.validate_if_needed(second-call)", lazy.validate_if_needed().ok()));
            verdicts.push(("NgdpBytes.is_validated-after-validate_if_needed", Some(lazy.is_validated())));
            let pooled = NgdpBytes::from_pool_buffer(bytes::BytesMut::from(d.as_slice()), Some(key));
            verdicts.push(("NgdpBytes.from_pool_buffer+validate_if_needed", pooled.validate_if_needed().ok()));
            let hooked = NgdpBytes::new_with_key(b.clone(), key);
            let r = hooked.validate_with_hooks(&md5h).await;
            verdicts.push(("NgdpBytes.validate_with_hooks(Md5ValidationHooks)", Some(matches!(&r, Ok(v) if v.is_valid))));
            verdicts.push(("NgdpBytes.is_validated-after-validate_with_hooks", Some(hooked.is_validated())));
            let hooked2 = NgdpBytes::new_with_key(b.clone(), key);
            let r2 = hooked2.validate_with_hooks(&ngdp).await;
            verdicts.push(("NgdpBytes.validate_with_hooks(NgdpValidationHooks)", Some(matches!(&r2, Ok(v) if v.is_valid))));
            if !needs {
                ctx.violation("C07|NgdpBytes.needs_validation|unvalidated-bytes-with-key|reports-no-validation-needed", "NgdpBytes::new_with_key(..).needs_validation() is false before any validation", json!({"len": d.len()}));
            }
            // Jenkins96 validator: expected hash of the ORIGINAL data
            let j = cascette_crypto::Jenkins96::hash(&data).hash64;
            let (pc, pb) = lookup3::hashlittle2(d, 0, 0);
            let reference_collision = ((u64::from(pc) << 32) | u64::from(pb)) == j;
            let jv = ngdp.validate_jenkins96(j, d).ok().map(|r| r.is_valid);
            for (name, v) in verdicts.into_iter().chain([("NgdpValidationHooks.validate_jenkins96", jv)]) {
                let collision = name.ends_with("validate_jenkins96") && reference_collision;
                match (good, v) {
                    (true, Some(true)) => ctx.obs(&format!("validator.{name}.valid-content.accepted"), 1),
                    (false, Some(false)) | (false, None) => ctx.obs(&format!("validator.{name}.{}.rejected", fault.name()), 1),
                    (true, _) => {
                        // refusing good content is not a C07 matter (nothing altered is served); recorded
                        ctx.obs(&format!("validator.{name}.valid-content.REFUSED"), 1);
                    }
                    (false, Some(true)) if collision => ctx.obs(&format!("validator.{name}.genuine-hash-collision"), 1),
                    (false, Some(true)) => {
                        ctx.obs(&format!("validator.{name}.{}.ACCEPTED", fault.name()), 1);
                        ctx.violation(
                            &format!("C07|{name}|{}|content-not-matching-the-key-reported-valid", fault.name()),
                            "a validator reported content valid although it differs from the content the key / expected hash was computed from",
                            json!({"validator": name, "fault": fault.name(), "key": hex::encode(key.as_bytes()), "original": hex_short(&data, 64), "original_len": data.len(), "offered": hex_short(d, 64), "offered_len": d.len()}),
                        );
                    }
                }
            }
            // outside the statement (no stored checksum is compared): the encoding-key "validator"
            let ek = EncodingKey::from_bytes(rng.array::<16>());
            if let Ok(r) = ngdp.validate_encoding_key(&ek, d) {
                ctx.obs(&format!("outside-statement.NgdpValidationHooks.validate_encoding_key.says-{}-for-unrelated-key", if r.is_valid { "valid" } else { "invalid" }), 1);
            }
        }
    }
    ctx.obs("validator.rounds", rounds as u64);
}

/// ContentAddressedCache on top of a MultiLayerCacheImpl (memory + disk layers) and with the
/// other hook configurations: a third backend shape for put_validated / fault / get_validated.
async fn cac_over_multilayer(ctx: &Ctx, histories: usize, stream: u64) {
    for h in 0..histories {
        let mut rng = ctx.rng(stream + h as u64);
        let Ok(tmp) = tempfile::tempdir() else {
            ctx.inconclusive("tempdir");
            return;
        };
        let mem = MemoryCacheConfig::new().with_max_entries(1000).with_max_memory(64 << 20);
        let dsk = DiskCacheConfig::new(tmp.path()).with_subdirectories(h % 2 == 0, 2);
        let inner = match MultiLayerCacheImpl::<BlteBlockKey>::new(MultiLayerCacheConfig::new().add_memory_layer(mem).add_disk_layer(dsk)) {
            Ok(c) => Arc::new(c),
            Err(e) => {
                ctx.inconclusive(&format!("MultiLayerCacheImpl::new: {e}"));
                return;
            }
        };
        let hooks = Arc::new(match h % 3 {
            0 => NgdpValidationHooks::new(),
            1 => NgdpValidationHooks::new().with_jenkins96_validation(),
            _ => NgdpValidationHooks::with_tact_key(cascette_crypto::TactKey::new(0x1122_3344_5566_7788, [9u8; 16])),
        });
        let cache = cascette_cache::ngdp::ContentAddressedCache::new(inner.clone(), hooks);
        let bname = "multi-layer-backend";
        let data = contents(&mut rng);
        let keys: Vec<ContentKey> = data.iter().map(|d| ContentKey::from_data(d)).collect();
        let mut last_fault = vec![Fault::None; data.len()];
        let mut log: Vec<Value> = Vec::new();
        for _ in 0..rng.urange(10, 50) {
            let k = rng.usize_below(data.len());
            let key = keys[k];
            let bkey = BlteBlockKey::new_raw(key, 0);
            match rng.below(10) {
                0..=2 => {
                    let Some(r) = with_watchdog(ctx, "put_validated", cache.put_validated(key, Bytes::from(data[k].clone()))).await else { return };
                    ctx.obs(&format!("cache.ContentAddressedCache.{bname}.put_validated.{}", if r.is_ok() { "ok" } else { "err" }), 1);
                    if r.is_ok() {
                        last_fault[k] = Fault::None;
                    }
                    log.push(json!({"op":"put_validated","key":k,"ok":r.is_ok()}));
                }
                3 => {
                    let other = (k + 1 + rng.usize_below(data.len() - 1)) % data.len();
                    let Some(r) = with_watchdog(ctx, "put_validated(mismatch)", cache.put_validated(key, Bytes::from(data[other].clone()))).await else { return };
                    ctx.obs(&format!("cache.ContentAddressedCache.{bname}.put_validated-mismatching-content.{}", if r.is_ok() { "ACCEPTED" } else { "refused" }), 1);
                    if r.is_ok() {
                        last_fault[k] = Fault::SwapOtherValid;
                    }
                    log.push(json!({"op":"put_validated(mismatch)","key":k,"content_of":other,"ok":r.is_ok()}));
                }
                4..=6 => {
                    let fault = *rng.pick(&FAULTS);
                    let other = (k + 1 + rng.usize_below(data.len() - 1)) % data.len();
                    let bad = corrupt(&mut rng, fault, &data[k], &data[other]);
                    if md5_ok(&key, &bad) {
                        continue;
                    }
                    let layer = rng.usize_below(2);
                    let Some(r) = with_watchdog(ctx, "put_to_layer", inner.put_to_layer(bkey, Bytes::from(bad), layer)).await else { return };
                    if r.is_ok() {
                        last_fault[k] = fault;
                        ctx.obs(&format!("cache.ContentAddressedCache.{bname}.fault.{}", fault.name()), 1);
                    }
                    log.push(json!({"op":"fault","key":k,"fault":fault.name(),"layer":layer,"applied":r.is_ok()}));
                }
                _ => {
                    let Some(r) = with_watchdog(ctx, "get_validated", cache.get_validated(key)).await else { return };
                    ctx.eval_nontrivial(mix64(fnv64(b"cac-ml"), mix64(stream + h as u64, log.len() as u64)));
                    let out = match &r {
                        Ok(Some(b)) if md5_ok(&key, b) => "hit-bytes-hash-to-key",
                        Ok(Some(_)) => "HIT-BYTES-DO-NOT-HASH-TO-KEY",
                        Ok(None) => "miss",
                        Err(_) => "error(invalid)",
                    };
                    ctx.obs(&format!("cache.ContentAddressedCache.{bname}.get_validated.after-{}.{out}", last_fault[k].name()), 1);
                    log.push(json!({"op":"get_validated","key":k,"outcome":out}));
                    if let Ok(Some(b)) = &r {
                        if !md5_ok(&key, b) {
                            ctx.violation(
                                &format!("C07|ContentAddressedCache.get_validated|{}|returned-bytes-md5-differs-from-key|{bname}", last_fault[k].name()),
                                "get_validated returned bytes whose MD5 is not the requested content key",
                                json!({"backend": bname, "history": log, "key": hex::encode(key.as_bytes()), "returned": hex_short(b, 64), "returned_len": b.len()}),
                            );
                        }
                    }
                }
            }
        }
        let _ = cache.metrics();
        ctx.obs("cache.ContentAddressedCache.multi-layer-backend.histories", 1);
    }
}


/// A V1 reply with a second MIME part carrying a signature (base64 text or raw 8-bit bytes), as the
/// public service sends it: the checksum covers both parts, `parse_v1_mime_response` returns both.
fn handmade_mime_signed(rng: &mut Rng, base64_signature: bool) -> Vec<u8> {
    let unsigned = handmade_mime(rng);
    let pos = unsigned.windows(10).rposition(|w| w == b"Checksum: ").unwrap_or(unsigned.len());
    let msg = &unsigned[..pos];
    // re-open the message before its closing boundary and add the signature part
    let closing = msg.windows(4).rposition(|w| w == b"\r\n--").unwrap_or(msg.len());
    let boundary_line = &msg[closing + 2..msg.len() - 4]; // "--<boundary>" of the closing "--<boundary>--\r\n"
    let sig: Vec<u8> = rng.bytes(96);
    let mut out = msg[..closing].to_vec();
    out.extend_from_slice(b"\r\n");
    out.extend_from_slice(boundary_line);
    if base64_signature {
        out.extend_from_slice(b"\r\nContent-Type: application/octet-stream\r\nContent-Disposition: signature\r\n\r\n");
        out.extend_from_slice(base64_std(&sig).as_bytes());
    } else {
        out.extend_from_slice(b"\r\nContent-Type: application/octet-stream\r\nContent-Disposition: signature\r\nContent-Transfer-Encoding: binary\r\n\r\n");
        out.extend(sig.iter().map(|b| if *b == b'\r' || *b == b'\n' || *b == b'-' { b'x' } else { *b }));
    }
    out.extend_from_slice(b"\r\n");
    out.extend_from_slice(boundary_line);
    out.extend_from_slice(b"--\r\n");
    let sum = Sha256::digest(&out);
    out.extend_from_slice(format!("Checksum: {}\r\n", hex::encode(sum)).as_bytes());
    out
}

/// RFC 4648 base64 with padding (the harness crate has no base64 dependency).
fn base64_std(data: &[u8]) -> String {
    const T: &[u8; 64] = b"ABCDEFGHIJKLMNOPQRSTUVWXYZabcdefghijklmnopqrstuvwxyz0123456789+/";
    let mut out = String::new();
    for c in data.chunks(3) {
        let b = [c[0], *c.get(1).unwrap_or(&0), *c.get(2).unwrap_or(&0)];
        let n = (u32::from(b[0]) << 16) | (u32::from(b[1]) << 8) | u32::from(b[2]);
        out.push(T[(n >> 18) as usize & 63] as char);
        out.push(T[(n >> 12) as usize & 63] as char);
        out.push(if c.len() > 1 { T[(n >> 6) as usize & 63] as char } else { '=' });
        out.push(if c.len() > 2 { T[n as usize & 63] as char } else { '=' });
    }
    out
}

/// Outside the statement (the bytes of the checksum line are not "protected bytes"): what happens
/// when the stored checksum itself stops being a 64-digit hex string.
fn observe_mime_checksum_line(ctx: &Ctx, text: &[u8]) {
    let Some(pos) = text.windows(10).rposition(|w| w == b"Checksum: ") else { return };
    let Ok(orig) = parse_v1_mime_to_bpsv(text) else { return };
    let want = bpsv_logical(&orig);
    let mut buf = text.to_vec();
    for i in 0..64usize {
        let p = pos + 10 + i;
        if p >= buf.len() {
            break;
        }
        let o = buf[p];
        for (what, v) in [("made-non-hex", b'g'), ("other-hex-digit", if o == b'0' { b'1' } else { b'0' })] {
            buf[p] = v;
            let out = match parse_v1_mime_to_bpsv(&buf) {
                Err(_) => "rejected",
                Ok(d) if bpsv_logical(&d) == want => "accepted-unverified-content-equal",
                Ok(_) => "accepted-content-altered",
            };
            ctx.obs(&format!("outside-statement.v1-mime.stored-checksum-digit-{what}.{out}"), 1);
        }
        buf[p] = o;
    }
}

/// `IndexFooter::is_valid` / `ArchiveIndex::validate` on the parsed structure: every single-bit
/// change of a footer field (or of the stored hash) in memory must be reported.
fn footer_struct_checks(ctx: &Ctx, bytes: &[u8], instance: &str) {
    let Ok(ix) = ArchiveIndex::parse(Cursor::new(bytes)) else {
        ctx.inconclusive(&format!("footer struct check: {instance} does not parse"));
        return;
    };
    if !ix.footer.is_valid() || ix.validate().is_err() {
        ctx.inconclusive(&format!("footer struct check: the unmodified footer of {instance} is reported invalid"));
        return;
    }
    let mut n = 0u64;
    let mut judge = |field: &'static str, f: cascette_formats::archive::IndexFooter| {
        n += 1;
        ctx.eval_nontrivial(mix64(fnv64(b"footer-struct"), mix64(fnv64(instance.as_bytes()), mix64(fnv64(field.as_bytes()), n))));
        let mut changed = ix.clone();
        changed.footer = f.clone();
        let still_valid = f.is_valid();
        let validate_ok = changed.validate().is_ok();
        ctx.obs(&format!("footer-struct.{field}.{}", if still_valid { "STILL-VALID" } else { "reported-invalid" }), 1);
        if still_valid {
            ctx.violation(&format!("C07|IndexFooter.is_valid|bitflip|altered-footer-reported-valid|{field}"), "a footer whose field was changed in memory still passes is_valid()", json!({"instance": instance, "field": field, "original": format!("{:?}", ix.footer), "changed": format!("{f:?}")}));
        }
        if validate_ok {
            ctx.violation(&format!("C07|ArchiveIndex.validate|bitflip|altered-footer-reported-valid|{field}"), "an index whose footer field was changed in memory still passes validate()", json!({"instance": instance, "field": field, "original": format!("{:?}", ix.footer), "changed": format!("{f:?}")}));
        }
    };
    for bit in 0..8 {
        let mut f = ix.footer.clone();
        f.version ^= 1 << bit;
        judge("footer-field-version", f);
        for i in 0..2 {
            let mut f = ix.footer.clone();
            f.reserved[i] ^= 1 << bit;
            judge("footer-field-reserved", f);
        }
        let mut f = ix.footer.clone();
        f.page_size_kb ^= 1 << bit;
        judge("footer-field-page_size_kb", f);
        let mut f = ix.footer.clone();
        f.offset_bytes ^= 1 << bit;
        judge("footer-field-offset_bytes", f);
        let mut f = ix.footer.clone();
        f.size_bytes ^= 1 << bit;
        judge("footer-field-size_bytes", f);
        let mut f = ix.footer.clone();
        f.ekey_length ^= 1 << bit;
        judge("footer-field-ekey_length", f);
        for i in 0..ix.footer.footer_hash.len() {
            let mut f = ix.footer.clone();
            f.footer_hash[i] ^= 1 << bit;
            judge("footer-stored-hash", f);
        }
    }
    for bit in 0..32 {
        let mut f = ix.footer.clone();
        f.element_count ^= 1 << bit;
        judge("footer-field-element_count", f);
    }
    // footer_hash_bytes tells how many bytes of the stored hash are compared: lowering it (8 -> 0..7)
    // weakens the comparison, so is_valid() alone may still say true; validate() also runs
    // validate_format (hash bytes must be 8) and has to refuse. Recorded, judged through validate().
    for v in 0..8u8 {
        let mut f = ix.footer.clone();
        f.footer_hash_bytes = v;
        let mut changed = ix.clone();
        changed.footer = f.clone();
        ctx.obs(&format!("footer-struct.footer-field-footer_hash_bytes-lowered.is_valid-{}", f.is_valid()), 1);
        if changed.validate().is_ok() {
            ctx.violation("C07|ArchiveIndex.validate|byte-subst|altered-footer-reported-valid|footer-field-footer_hash_bytes", "an index whose footer_hash_bytes was lowered in memory still passes validate()", json!({"instance": instance, "value": v}));
        }
    }
}

// ---------------------------------------------------------------------------
// observation only: loaders / regions the statement does not cover

fn observe_archive_unenforced(ctx: &Ctx, bytes: &[u8], rng: &mut Rng, samples: usize) {
    // docs describe toc_hash = MD5(toc keys || block hashes)[:8] and per-block hashes; parse does not
    // enforce them (documented in the code as deliberate) and the statement names only the footer.
    let Ok(orig) = ArchiveIndex::parse(Cursor::new(bytes)) else { return };
    let want = archive_logical(&orig);
    let n = bytes.len();
    let footer = n - 28;
    let chunks = orig.toc.len();
    let toc_len = chunks * (orig.footer.ekey_length as usize + orig.footer.footer_hash_bytes as usize);
    let toc_start = footer - toc_len;
    let block_hashes_start = toc_start + chunks * orig.footer.ekey_length as usize;
    let regions: [(&str, Range<usize>); 4] = [("toc_hash-field", footer..footer + 8), ("toc-block-hashes", block_hashes_start..footer), ("toc-keys", toc_start..block_hashes_start), ("entry-blocks", 0..toc_start)];
    let mut buf = bytes.to_vec();
    for (name, r) in regions {
        if r.is_empty() {
            continue;
        }
        for _ in 0..samples {
            let pos = r.start + rng.usize_below(r.len());
            let bit = rng.below(8);
            buf[pos] ^= 1 << bit;
            let out = match std::panic::catch_unwind(std::panic::AssertUnwindSafe(|| ArchiveIndex::parse(Cursor::new(&buf)))) {
                Err(_) => "panicked",
                Ok(Err(_)) => "rejected",
                Ok(Ok(i)) => {
                    if archive_logical(&i) == want {
                        "accepted-content-equal"
                    } else {
                        "accepted-content-altered"
                    }
                }
            };
            ctx.obs(&format!("outside-statement.archive-index.bitflip-in-{name}.{out}"), 1);
            buf[pos] ^= 1 << bit;
        }
    }
}

fn observe_update_section_loader(ctx: &Ctx, rng: &mut Rng, n: usize) {
    // UpdateSection::from_bytes is the non-verifying loader: how many corrupted entries does it admit?
    for _ in 0..n {
        let mut s = UpdateSection::new();
        let cnt = rng.urange(1, 40);
        for _ in 0..cnt {
            s.append(gen_update_entry(rng));
        }
        let mut bytes = s.to_bytes();
        let victim = rng.usize_below(cnt);
        let page = victim / 21;
        let off = page * 512 + (victim % 21) * 24 + rng.urange(4, 22);
        bytes[off] ^= 1 << rng.below(8);
        let loaded = UpdateSection::from_bytes(&bytes);
        let bad = loaded.all_entries().filter(|e| !e.validate_hash_guard()).count();
        ctx.obs(if bad > 0 { "outside-statement.update-section.from_bytes.loads-entry-with-bad-guard" } else { "outside-statement.update-section.from_bytes.no-bad-guard-visible" }, 1);
    }
}

// ---------------------------------------------------------------------------
// validating caches

fn md5_ok(key: &ContentKey, data: &[u8]) -> bool {
    md5::compute(data).0 == *key.as_bytes()
}

#[derive(Clone, Copy, Debug, PartialEq, Eq)]
enum Fault {
    None,
    BitFlip,
    Truncate,
    Empty,
    Extend,
    SwapOtherValid,
    ByteSubst,
}

impl Fault {
    fn name(self) -> &'static str {
        match self {
            Fault::None => "no-fault",
            Fault::BitFlip => "corrupt-bitflip",
            Fault::Truncate => "truncate",
            Fault::Empty => "truncate-to-empty",
            Fault::Extend => "extend",
            Fault::SwapOtherValid => "swap-with-other-entry",
            Fault::ByteSubst => "corrupt-byte-substitution",
        }
    }
}

const FAULTS: [Fault; 6] = [Fault::BitFlip, Fault::Truncate, Fault::Empty, Fault::Extend, Fault::SwapOtherValid, Fault::ByteSubst];

fn corrupt(rng: &mut Rng, fault: Fault, orig: &[u8], other: &[u8]) -> Vec<u8> {
    let mut v = orig.to_vec();
    match fault {
        Fault::None => {}
        Fault::BitFlip => {
            if v.is_empty() {
                v.push(1);
            } else {
                let p = rng.usize_below(v.len());
                v[p] ^= 1 << rng.below(8);
            }
        }
        Fault::Truncate => {
            if v.is_empty() {
                v.push(0);
            } else {
                let keep = rng.usize_below(v.len());
                v.truncate(keep);
            }
        }
        Fault::Empty => {
            if v.is_empty() {
                v.push(0);
            } else {
                v.clear();
            }
        }
        Fault::Extend => {
            let n = rng.urange(1, 16);
            v.extend(rng.bytes(n));
        }
        Fault::SwapOtherValid => v = other.to_vec(),
        Fault::ByteSubst => {
            if v.is_empty() {
                v.push(0xff);
            } else {
                let p = rng.usize_below(v.len());
                v[p] = v[p].wrapping_add(1);
            }
        }
    }
    v
}

fn find_file(dir: &std::path::Path, name: &str) -> Option<std::path::PathBuf> {
    for e in std::fs::read_dir(dir).ok()?.flatten() {
        let p = e.path();
        if p.is_dir() {
            if let Some(f) = find_file(&p, name) {
                return Some(f);
            }
        } else if p.file_name().and_then(|s| s.to_str()) == Some(name) {
            return Some(p);
        }
    }
    None
}

fn contents(rng: &mut Rng) -> Vec<Vec<u8>> {
    let mut v: Vec<Vec<u8>> = vec![Vec::new(), vec![0x42], rng.bytes(100), rng.bytes(4096), rng.bytes(70_000), vec![0u8; 1000]];
    let n = rng.urange(2, 3000);
    v.push(rng.bytes(n));
    v
}

enum CacBackend {
    Memory(Arc<MemoryCache<BlteBlockKey>>),
    Disk(Arc<DiskCache<BlteBlockKey>>, std::path::PathBuf),
}

async fn with_watchdog<T>(ctx: &Ctx, what: &str, f: impl std::future::Future<Output = T>) -> Option<T> {
    match tokio::time::timeout(Duration::from_secs(20), f).await {
        Ok(v) => Some(v),
        Err(_) => {
            ctx.inconclusive(&format!("cache operation did not return within 20 s: {what}"));
            None
        }
    }
}

#[allow(clippy::too_many_lines)]
async fn cac_histories(ctx: &Ctx, histories: usize, stream: u64) {
    // ContentAddressedCache over a memory backend (second handle on the inner cache) and
    // over a disk backend (the entry's file is rewritten in place)
    for h in 0..histories {
        let mut rng = ctx.rng(stream + h as u64);
        let disk = h % 2 == 1;
        let tmp = match tempfile::tempdir() {
            Ok(t) => t,
            Err(e) => {
                ctx.inconclusive(&format!("tempdir: {e}"));
                return;
            }
        };
        let backend = if disk {
            match DiskCache::<BlteBlockKey>::new(DiskCacheConfig::new(tmp.path()).with_subdirectories(h % 4 == 1, 2)) {
                Ok(c) => CacBackend::Disk(Arc::new(c), tmp.path().to_path_buf()),
                Err(e) => {
                    ctx.inconclusive(&format!("DiskCache::new: {e}"));
                    return;
                }
            }
        } else {
            match MemoryCache::<BlteBlockKey>::new(MemoryCacheConfig::new().with_max_entries(1000).with_max_memory(64 << 20)) {
                Ok(c) => CacBackend::Memory(Arc::new(c)),
                Err(e) => {
                    ctx.inconclusive(&format!("MemoryCache::new: {e}"));
                    return;
                }
            }
        };
        let hooks = Arc::new(NgdpValidationHooks::new());
        let bname = if disk { "disk-backend" } else { "memory-backend" };
        let data = contents(&mut rng);
        let keys: Vec<ContentKey> = data.iter().map(|d| ContentKey::from_data(d)).collect();
        let mut last_fault = vec![Fault::None; data.len()];
        let mut log: Vec<Value> = Vec::new();
        let nops = rng.urange(10, 60);
        macro_rules! run {
            ($cache:expr, $inner:expr) => {{
                let cache = $cache;
                for _ in 0..nops {
                    let k = rng.usize_below(data.len());
                    let key = keys[k];
                    match rng.below(10) {
                        0..=2 => {
                            let Some(r) = with_watchdog(ctx, "put_validated", cache.put_validated(key, Bytes::from(data[k].clone()))).await else { return };
                            ctx.obs(&format!("cache.ContentAddressedCache.{bname}.put_validated.{}", if r.is_ok() { "ok" } else { "err" }), 1);
                            if r.is_ok() {
                                last_fault[k] = Fault::None;
                            }
                            log.push(json!({"op":"put_validated","key":k,"ok":r.is_ok()}));
                        }
                        3 => {
                            // content that does not match the key through the validating API
                            let other = (k + 1 + rng.usize_below(data.len() - 1)) % data.len();
                            let Some(r) = with_watchdog(ctx, "put_validated(mismatch)", cache.put_validated(key, Bytes::from(data[other].clone()))).await else { return };
                            ctx.obs(&format!("cache.ContentAddressedCache.{bname}.put_validated-mismatching-content.{}", if r.is_ok() { "ACCEPTED" } else { "refused" }), 1);
                            if r.is_ok() {
                                last_fault[k] = Fault::SwapOtherValid;
                            }
                            log.push(json!({"op":"put_validated(mismatch)","key":k,"content_of":other,"ok":r.is_ok()}));
                        }
                        4..=6 => {
                            let fault = *rng.pick(&FAULTS);
                            let other = (k + 1 + rng.usize_below(data.len() - 1)) % data.len();
                            let bad = corrupt(&mut rng, fault, &data[k], &data[other]);
                            if md5_ok(&key, &bad) {
                                continue;
                            }
                            let bkey = BlteBlockKey::new_raw(key, 0);
                            let applied: bool = $inner(bkey, bad).await;
                            if applied {
                                last_fault[k] = fault;
                                ctx.obs(&format!("cache.ContentAddressedCache.{bname}.fault.{}", fault.name()), 1);
                            }
                            log.push(json!({"op":"fault","key":k,"fault":fault.name(),"applied":applied}));
                        }
                        _ => {
                            let Some(r) = with_watchdog(ctx, "get_validated", cache.get_validated(key)).await else { return };
                            ctx.eval_nontrivial(mix64(fnv64(b"cac"), mix64(stream + h as u64, log.len() as u64)));
                            let out = match &r {
                                Ok(Some(b)) if md5_ok(&key, b) => "hit-bytes-hash-to-key",
                                Ok(Some(_)) => "HIT-BYTES-DO-NOT-HASH-TO-KEY",
                                Ok(None) => "miss",
                                Err(_) => "error(invalid)",
                            };
                            ctx.obs(&format!("cache.ContentAddressedCache.{bname}.get_validated.after-{}.{out}", last_fault[k].name()), 1);
                            log.push(json!({"op":"get_validated","key":k,"outcome":out}));
                            if let Ok(Some(b)) = &r {
                                if !md5_ok(&key, b) {
                                    ctx.violation(
                                        &format!("C07|ContentAddressedCache.get_validated|{}|returned-bytes-md5-differs-from-key|{bname}", last_fault[k].name()),
                                        "get_validated returned bytes whose MD5 is not the requested content key",
                                        json!({"backend": bname, "history": log, "key": hex::encode(key.as_bytes()), "returned": hex_short(b, 64), "returned_len": b.len()}),
                                    );
                                }
                            }
                        }
                    }
                }
            }};
        }
        match &backend {
            CacBackend::Memory(inner) => {
                let cache = cascette_cache::ngdp::ContentAddressedCache::new(inner.clone(), hooks);
                let inner2 = inner.clone();
                run!(&cache, |bkey: BlteBlockKey, bad: Vec<u8>| {
                    let inner2 = inner2.clone();
                    async move { inner2.put(bkey, Bytes::from(bad)).await.is_ok() }
                });
            }
            CacBackend::Disk(inner, root) => {
                let cache = cascette_cache::ngdp::ContentAddressedCache::new(inner.clone(), hooks);
                let root = root.clone();
                run!(&cache, |bkey: BlteBlockKey, bad: Vec<u8>| {
                    let root = root.clone();
                    async move {
                        // rewrite the entry's file in place; entries that are not on disk cannot be corrupted
                        match find_file(&root, bkey.as_cache_key()) {
                            Some(p) => std::fs::write(p, &bad).is_ok(),
                            None => false,
                        }
                    }
                });
            }
        }
        ctx.obs("cache.ContentAddressedCache.histories", 1);
    }
}

#[allow(clippy::too_many_lines)]
async fn multilayer_histories(ctx: &Ctx, histories: usize, stream: u64) {
    for h in 0..histories {
        let mut rng = ctx.rng(stream + h as u64);
        let Ok(tmp) = tempfile::tempdir() else {
            ctx.inconclusive("tempdir");
            return;
        };
        let shape = h % 3;
        let mem = MemoryCacheConfig::new().with_max_entries(1000).with_max_memory(64 << 20);
        let dsk = DiskCacheConfig::new(tmp.path()).with_subdirectories(h % 2 == 0, 2);
        let (cfg, lname) = match shape {
            0 => (MultiLayerCacheConfig::new().add_memory_layer(mem), "memory-layer"),
            1 => (MultiLayerCacheConfig::new().add_disk_layer(dsk), "disk-layer"),
            _ => (MultiLayerCacheConfig::new().add_memory_layer(mem).add_disk_layer(dsk), "memory+disk-layers"),
        };
        let mut cache = match MultiLayerCacheImpl::<BlteBlockKey>::new(cfg) {
            Ok(c) => c,
            Err(e) => {
                ctx.inconclusive(&format!("MultiLayerCacheImpl::new: {e}"));
                return;
            }
        };
        // the library's MD5 hooks, or hooks supplied by the application: judge by MD5 like the stock ones but REFUSE a
        // mismatch by returning an error (of several kinds) instead of an "invalid" verdict — either way the read must
        // not hand the bytes out
        let hook_kind = (h / 3) % 4;
        let hooks: Arc<dyn ValidationHooks> = match hook_kind {
            0 => Arc::new(Md5ValidationHooks::new()),
            k => Arc::new(RefusingHooks { kind: k as u8 }),
        };
        ctx.obs(&format!("cache.MultiLayerCacheImpl.hooks.{}", ["Md5ValidationHooks", "harness:mismatch->Err(ContentValidationFailed)", "harness:mismatch->Err(Backend)", "harness:mismatch->Err(LockTimeout)"][hook_kind as usize]), 1);
        cache.set_validation_hooks(Some(hooks));
        let layers = cache.layer_count();
        let data = contents(&mut rng);
        let keys: Vec<ContentKey> = data.iter().map(|d| ContentKey::from_data(d)).collect();
        let mut last_fault = vec![Fault::None; data.len()];
        let mut log: Vec<Value> = Vec::new();
        let nops = rng.urange(10, 60);
        for _ in 0..nops {
            let k = rng.usize_below(data.len());
            let key = keys[k];
            let bkey = BlteBlockKey::new_raw(key, 0);
            match rng.below(10) {
                0..=2 => {
                    let with_ttl = rng.chance(1, 3);
                    let r = if with_ttl {
                        let Some(r) = with_watchdog(ctx, "put_with_validation_and_ttl", cache.put_with_validation_and_ttl(bkey, key, Bytes::from(data[k].clone()), Duration::from_secs(3600))).await else { return };
                        r
                    } else {
                        let Some(r) = with_watchdog(ctx, "put_with_validation", cache.put_with_validation(bkey, key, Bytes::from(data[k].clone()))).await else { return };
                        r
                    };
                    ctx.obs(&format!("cache.MultiLayerCacheImpl.{lname}.{}.{}", if with_ttl { "put_with_validation_and_ttl" } else { "put_with_validation" }, if r.is_ok() { "ok" } else { "err" }), 1);
                    if r.is_ok() {
                        last_fault[k] = Fault::None;
                    }
                    log.push(json!({"op":"put_with_validation","key":k,"ok":r.is_ok()}));
                }
                3 => {
                    let other = (k + 1 + rng.usize_below(data.len() - 1)) % data.len();
                    let with_ttl = rng.chance(1, 2);
                    let r = if with_ttl {
                        let Some(r) = with_watchdog(ctx, "put_with_validation_and_ttl(mismatch)", cache.put_with_validation_and_ttl(bkey, key, Bytes::from(data[other].clone()), Duration::from_secs(3600))).await else { return };
                        r
                    } else {
                        let Some(r) = with_watchdog(ctx, "put_with_validation(mismatch)", cache.put_with_validation(bkey, key, Bytes::from(data[other].clone()))).await else { return };
                        r
                    };
                    ctx.obs(&format!("cache.MultiLayerCacheImpl.{lname}.{}-mismatching-content.{}", if with_ttl { "put_with_validation_and_ttl" } else { "put_with_validation" }, if r.is_ok() { "ACCEPTED" } else { "refused" }), 1);
                    if r.is_ok() {
                        last_fault[k] = Fault::SwapOtherValid;
                    }
                    log.push(json!({"op":"put_with_validation(mismatch)","key":k,"content_of":other,"ok":r.is_ok()}));
                }
                4..=6 => {
                    let fault = *rng.pick(&FAULTS);
                    let other = (k + 1 + rng.usize_below(data.len() - 1)) % data.len();
                    let bad = corrupt(&mut rng, fault, &data[k], &data[other]);
                    if md5_ok(&key, &bad) {
                        continue;
                    }
                    // backing-store fault: the unvalidated layer API, or the disk layer's file
                    let layer = rng.usize_below(layers);
                    let via_file = lname != "memory-layer" && rng.bool();
                    let applied = if via_file {
                        match find_file(tmp.path(), bkey.as_cache_key()) {
                            Some(p) => std::fs::write(p, &bad).is_ok(),
                            None => false,
                        }
                    } else {
                        let Some(r) = with_watchdog(ctx, "put_to_layer", cache.put_to_layer(bkey, Bytes::from(bad), layer)).await else { return };
                        r.is_ok()
                    };
                    if applied {
                        last_fault[k] = fault;
                        ctx.obs(&format!("cache.MultiLayerCacheImpl.{lname}.fault.{}.{}", fault.name(), if via_file { "file" } else { "layer-api" }), 1);
                    }
                    log.push(json!({"op":"fault","key":k,"fault":fault.name(),"via_file":via_file,"layer":layer,"applied":applied}));
                }
                _ => {
                    let Some(r) = with_watchdog(ctx, "get_with_validation", cache.get_with_validation(&bkey, Some(key))).await else { return };
                    ctx.eval_nontrivial(mix64(fnv64(b"mlc"), mix64(stream + h as u64, log.len() as u64)));
                    let out = match &r {
                        Ok(Some(b)) if md5_ok(&key, b.as_bytes()) => "hit-bytes-hash-to-key",
                        Ok(Some(_)) => "HIT-BYTES-DO-NOT-HASH-TO-KEY",
                        Ok(None) => "miss",
                        Err(_) => "error(corruption-reported)",
                    };
                    ctx.obs(&format!("cache.MultiLayerCacheImpl.{lname}.get_with_validation.after-{}.{out}", last_fault[k].name()), 1);
                    log.push(json!({"op":"get_with_validation","key":k,"outcome":out}));
                    if let Ok(Some(b)) = &r {
                        if !md5_ok(&key, b.as_bytes()) {
                            ctx.violation(
                                &format!("C07|MultiLayerCacheImpl.get_with_validation|{}|returned-bytes-md5-differs-from-key|{lname}", last_fault[k].name()),
                                "get_with_validation returned bytes whose MD5 is not the requested content key",
                                json!({"layers": lname, "history": log, "key": hex::encode(key.as_bytes()), "returned": hex_short(b.as_bytes(), 64), "returned_len": b.as_bytes().len()}),
                            );
                        }
                    }
                    // a corrupted entry that was reported must not be served by the next validating read either
                    if r.is_err() {
                        last_fault[k] = Fault::None;
                        let Some(r2) = with_watchdog(ctx, "get_with_validation(2)", cache.get_with_validation(&bkey, Some(key))).await else { return };
                        if let Ok(Some(b)) = &r2 {
                            if !md5_ok(&key, b.as_bytes()) {
                                ctx.violation(
                                    &format!("C07|MultiLayerCacheImpl.get_with_validation|second-read-after-reported-corruption|returned-bytes-md5-differs-from-key|{lname}"),
                                    "after reporting corruption the next validating read returned bad bytes",
                                    json!({"layers": lname, "history": log}),
                                );
                            }
                        }
                        ctx.obs(&format!("cache.MultiLayerCacheImpl.{lname}.second-read-after-corruption.{}", match &r2 { Ok(Some(_)) => "hit", Ok(None) => "miss(entry-removed)", Err(_) => "error" }), 1);
                    }
                }
            }
        }
        ctx.obs("cache.MultiLayerCacheImpl.histories", 1);
    }
}

/// Md5ValidationHooks skips validation above 100 MiB: does a validating read of such an entry still check it?
async fn oversized_entry(ctx: &Ctx) {
    let n = 100 * 1024 * 1024 + 1;
    let mut v = vec![0u8; n];
    let mut rng = ctx.rng(77);
    for _ in 0..64 {
        let p = rng.usize_below(n);
        v[p] = rng.next_u32() as u8;
    }
    let key = ContentKey::from_data(&v);
    let bkey = BlteBlockKey::new_raw(key, 0);
    let cfg = MultiLayerCacheConfig::new().add_memory_layer(MemoryCacheConfig::new().with_max_entries(16).with_max_memory(1 << 30));
    let Ok(mut cache) = MultiLayerCacheImpl::<BlteBlockKey>::new(cfg) else {
        ctx.inconclusive("MultiLayerCacheImpl::new (oversized)");
        return;
    };
    let hooks: Arc<dyn ValidationHooks> = Arc::new(Md5ValidationHooks::new());
    cache.set_validation_hooks(Some(hooks));
    let good = Bytes::from(v);
    let Some(r) = with_watchdog(ctx, "put_with_validation(oversized)", cache.put_with_validation(bkey.clone(), key, good.clone())).await else { return };
    if r.is_err() {
        ctx.obs("cache.oversized.put_with_validation.err", 1);
        return;
    }
    let mut bad = good.to_vec();
    bad[n / 2] ^= 0x10;
    drop(good);
    let Some(r) = with_watchdog(ctx, "put_to_layer(oversized)", cache.put_to_layer(bkey.clone(), Bytes::from(bad), 0)).await else { return };
    if r.is_err() {
        ctx.obs("cache.oversized.fault-not-applied", 1);
        return;
    }
    let Some(r) = with_watchdog(ctx, "get_with_validation(oversized)", cache.get_with_validation(&bkey, Some(key))).await else { return };
    ctx.eval_nontrivial(fnv64(b"oversized"));
    match r {
        Ok(Some(b)) => {
            if md5_ok(&key, b.as_bytes()) {
                ctx.obs("cache.oversized.get_with_validation.hit-bytes-hash-to-key", 1);
            } else {
                ctx.obs("cache.oversized.get_with_validation.HIT-BYTES-DO-NOT-HASH-TO-KEY", 1);
                ctx.violation(
                    "C07|MultiLayerCacheImpl.get_with_validation|corrupt-bitflip|returned-bytes-md5-differs-from-key|memory-layer|entry-larger-than-100MiB",
                    "get_with_validation returned a corrupted entry larger than 100 MiB as validated",
                    json!({"size": n, "flipped_offset": n / 2, "is_validated_flag": b.is_validated()}),
                );
            }
        }
        Ok(None) => ctx.obs("cache.oversized.get_with_validation.miss", 1),
        Err(_) => ctx.obs("cache.oversized.get_with_validation.error(corruption-reported)", 1),
    }
}

// ---------------------------------------------------------------------------

fn fixtures(dir: &str, ext: &str) -> Vec<(String, Vec<u8>)> {
    let mut out = Vec::new();
    if let Ok(rd) = std::fs::read_dir(dir) {
        let mut paths: Vec<_> = rd.flatten().map(|e| e.path()).filter(|p| p.extension().is_some_and(|e| e == ext)).collect();
        paths.sort();
        for p in paths {
            if let Ok(b) = std::fs::read(&p) {
                out.push((p.file_name().and_then(|s| s.to_str()).unwrap_or("?").to_string(), b));
            }
        }
    }
    out
}

#[allow(clippy::too_many_lines)]
fn main() {
    let ctx = Ctx::init("C07", "fault_enumeration");
    ctx.set_rule("a case is one mutated artifact handed to the verifying loader (artifact kind x mutation class x position inside the declared protected region), or one validating cache read inside a put/fault/get history; every mutated artifact differs from the original (no-ops are skipped), so every case is non-trivial; distinct by hash of (kind, mutated bytes) / (history, step). `exhaustive` refers to the fault space of the small artifacts only: every single-bit flip and every 00/FF/^0x80/+1 substitution at every protected byte of every artifact whose protected region is <= 4 KiB; larger regions, insert/delete contents, the artifacts themselves and the cache histories are sampled");
    ctx.assume("protected regions are declared in the harness from docs/src/formats/{encoding,archives}.md, docs/src/client/local-storage.md and the module docs of lru_file.rs / update.rs / local_header.rs / tcp/v1.rs; for the archive index only the footer (fields + stored hash) is judged: the statement names the footer, and the TOC hash / per-block hashes are documented in the code as deliberately unenforced (their mutations are recorded as observations)");
    ctx.assume("vh::refimpl::lookup3 is correct (self-tested at start-up): it separates genuine 31/32-bit hash collisions from defective checks");
    ctx.assume("MD5/SHA-256 collisions do not occur among the mutations tried");
    if let Err(e) = vh::refimpl::self_test_all() {
        ctx.inconclusive(&format!("reference self-test failed: {e}"));
        ctx.finish();
    }
    std::panic::set_hook(Box::new(|info| {
        let loc = info.location().map(|l| format!("{}:{}", l.file(), l.line())).unwrap_or_default();
        let mut g = PANICS.lock().unwrap_or_else(std::sync::PoisonError::into_inner);
        if g.len() < 10_000 {
            g.push(loc);
        }
    }));

    let quick = ctx.quick();
    let exhaustive_limit = ctx.pick(4096usize, 1 << 16);
    let samples = ctx.pick(2000usize, 40_000usize);

    // ---- replay: re-apply one recorded mutation ------------------------------------------------
    if let Some(d) = ctx.replay_detail() {
        println!("replay: seed+tier re-run reproduces a finding; recorded case:\n{}", serde_json::to_string_pretty(&json!({"artifact": d.get("artifact"), "instance": d.get("instance"), "mutation": d.get("mutation"), "difference": d.get("difference"), "history": d.get("history")})).unwrap_or_default());
        if let (Some(kind), Some(hexs)) = (d.get("artifact").and_then(Value::as_str), d.get("mutated_hex").and_then(Value::as_str)) {
            if let Ok(m) = hex::decode(hexs) {
                let verdict = match kind {
                    "lru-file" => format!("deserialize -> {}", if lru_file::deserialize(&m).is_some() { "Some (accepted)" } else { "None" }),
                    "update-entry" if m.len() >= 24 => {
                        let mut raw = [0u8; 24];
                        raw.copy_from_slice(&m[..24]);
                        format!("validate_hash_guard -> {}", UpdateEntry::from_bytes(&raw).validate_hash_guard())
                    }
                    "encoding" => format!("EncodingFile::parse -> {}", if EncodingFile::parse(&m).is_ok() { "Ok (accepted)" } else { "Err" }),
                    "archive-index" => format!("ArchiveIndex::parse -> {}", if ArchiveIndex::parse(Cursor::new(&m)).is_ok() { "Ok (accepted)" } else { "Err" }),
                    "v1-mime" => format!("parse_v1_mime_to_bpsv -> {}", if parse_v1_mime_to_bpsv(&m).is_ok() { "Ok (accepted)" } else { "Err" }),
                    _ => "not replayable from bytes (local-header needs base_offset): re-run with the recorded seed".to_string(),
                };
                println!("replayed mutated bytes: {verdict}");
            }
        }
    }

    // ---- artifacts -----------------------------------------------------------------------------
    let scratch = {
        let shm = std::path::Path::new("/dev/shm");
        let made = if shm.is_dir() { tempfile::Builder::new().prefix("c07-").tempdir_in(shm) } else { tempfile::Builder::new().prefix("c07-").tempdir() };
        made.or_else(|_| tempfile::Builder::new().prefix("c07-").tempdir())
    };
    let scratch = match scratch {
        Ok(t) => t,
        Err(e) => {
            ctx.inconclusive(&format!("no scratch directory: {e}"));
            ctx.finish();
        }
    };
    let _ = SCRATCH.set(scratch.path().to_path_buf());
    let mut artifacts: Vec<Artifact> = Vec::new();
    let mut rng = ctx.rng(1);
    // encoding: small builder files (exhaustive), larger builder file, CDN fixtures
    let enc_specs: [(u16, usize, usize, bool); 4] = [(1, 6, 8, false), (1, 30, 60, true), (4, 150, 200, true), (2, 90, 30, false)];
    for (kb, nc, ne, trailing) in enc_specs {
        match build_encoding(&mut rng, kb, nc, ne, trailing).and_then(|b| encoding_artifact(format!("builder page={kb}KiB ckeys={nc} ekeys={ne} trailing={trailing}"), b)) {
            Ok(a) => artifacts.push(a),
            Err(e) => ctx.inconclusive(&format!("encoding builder artifact: {e}")),
        }
    }
    let enc_fix = fixtures("/repo/crates/cascette-formats/test_fixtures/encoding", "bin");
    if enc_fix.is_empty() {
        ctx.inconclusive("no encoding fixtures found");
    }
    for (name, b) in enc_fix {
        match encoding_artifact(format!("fixture {name}"), b) {
            Ok(a) => artifacts.push(a),
            Err(e) => ctx.inconclusive(&format!("encoding fixture: {e}")),
        }
    }
    // archive indices
    for n in [1usize, 5, 170, 171, 600] {
        match build_archive_index(&mut rng, n).and_then(|b| archive_artifact(format!("builder {n} entries"), b)) {
            Ok(a) => artifacts.push(a),
            Err(e) => ctx.inconclusive(&format!("archive index builder artifact: {e}")),
        }
    }
    let arc_fix = fixtures("/repo/crates/cascette-formats/test_fixtures/archive", "index");
    if arc_fix.is_empty() {
        ctx.inconclusive("no archive index fixtures found");
    }
    let mut arc_observe: Vec<Vec<u8>> = Vec::new();
    for (name, b) in arc_fix {
        arc_observe.push(b.clone());
        match archive_artifact(format!("fixture {name}"), b) {
            Ok(a) => artifacts.push(a),
            Err(e) => ctx.inconclusive(&format!("archive fixture: {e}")),
        }
    }
    // LRU files
    for n in [0usize, 1, 2, 3, 50, 200, 1000] {
        artifacts.push(lru_artifact(&mut rng, n));
    }
    // update entries and local headers (many small records, exhaustive each)
    for _ in 0..ctx.pick(200, 1500) {
        artifacts.push(update_entry_artifact(&mut rng));
    }
    for _ in 0..ctx.pick(200, 1500) {
        artifacts.push(local_header_artifact(&mut rng));
    }
    // V1 MIME replies: produced by the real server code, plus one in the public service's layout
    match server_mime_replies(&mut rng) {
        Ok(v) => {
            for (name, b) in v {
                match mime_artifact(name, b) {
                    Ok(a) => artifacts.push(a),
                    Err(e) => ctx.inconclusive(&format!("v1 mime artifact: {e}")),
                }
            }
        }
        Err(e) => ctx.inconclusive(&format!("server-generated V1 replies: {e}")),
    }
    for _ in 0..2 {
        let b = handmade_mime(&mut rng);
        match mime_artifact("harness-built reply (Content-Disposition: version)".into(), b) {
            Ok(a) => artifacts.push(a),
            Err(e) => ctx.inconclusive(&format!("handmade v1 mime artifact: {e}")),
        }
    }
    // ---- coverage-driven extension: further load paths / variants / guarded records ------------------
    {
        let mut rng = ctx.rng(2);
        let mut extra: Vec<Artifact> = Vec::new();
        let mut add = |r: Result<Artifact, String>, what: &str| match r {
            Ok(a) => extra.push(a),
            Err(e) => ctx.inconclusive(&format!("{what}: {e}")),
        };
        // encoding through parse_blte: builder files in 1-chunk and multi-chunk containers, one fixture
        for (kb, nc, ne, trailing, chunks) in [(1u16, 6usize, 8usize, false, 1usize), (1, 30, 60, true, 3), (2, 90, 30, false, 3)] {
            match build_encoding(&mut rng, kb, nc, ne, trailing) {
                Ok(b) => add(encoding_blte_artifact(format!("builder page={kb}KiB ckeys={nc} ekeys={ne} trailing={trailing}"), &b, chunks), "encoding via parse_blte"),
                Err(e) => ctx.inconclusive(&format!("encoding builder (blte): {e}")),
            }
        }
        if let Some((name, b)) = fixtures("/repo/crates/cascette-formats/test_fixtures/encoding", "bin").into_iter().min_by_key(|(_, b)| b.len()) {
            add(encoding_blte_artifact(format!("fixture {name}"), &b, 3), "encoding fixture via parse_blte");
        }
        for len in [0usize, 1, 64, 1024, 4096] {
            artifacts.push(index_entry_verify_artifact(&mut rng, len));
        }
        // archive index: other layouts and footer version 0
        for (n, ks, ob, ver) in [(5usize, 9u8, 4u8, 1u8), (300, 9, 4, 1), (40, 16, 5, 1), (200, 16, 6, 1), (7, 16, 4, 0), (171, 16, 4, 0), (12, 9, 5, 0)] {
            add(build_archive_index_variant(&mut rng, n, ks, ob, ver).and_then(|b| archive_artifact(format!("builder {n} entries, {ks}-byte keys, {ob}-byte offsets, footer version {ver}"), b)), "archive index variant");
        }
        // the footer check through the lazy chunk loader and through the archive-group parser
        for n in [1usize, 170, 171, 600] {
            add(build_archive_index(&mut rng, n).and_then(|b| archive_chunked_artifact(format!("builder {n} entries"), b)), "archive index via ChunkedArchiveIndex::open");
        }
        if let Some((name, b)) = fixtures("/repo/crates/cascette-formats/test_fixtures/archive", "index").into_iter().min_by_key(|(_, b)| b.len()) {
            add(archive_chunked_artifact(format!("fixture {name}"), b), "archive fixture via ChunkedArchiveIndex::open");
        }
        for n in [1usize, 157, 158, 400] {
            add(archive_group_artifact(&mut rng, n), "archive group");
        }
        // LRU checkpoint through the manager
        for n in [1usize, 3, 12] {
            artifacts.push(lru_manager_artifact(&mut rng, n));
        }
        for _ in 0..ctx.pick(100, 800) {
            artifacts.push(residency_entry_artifact(&mut rng));
        }
        // V1 replies through the structure-returning entry point and through the v1_mime module
        match server_mime_replies(&mut rng) {
            Ok(v) => {
                for (name, b) in v.into_iter().take(2) {
                    add(mime_response_artifact(name, b), "v1 mime via parse_v1_mime_response");
                }
            }
            Err(e) => ctx.inconclusive(&format!("server-generated V1 replies (2): {e}")),
        }
        add(mime_response_artifact("harness-built reply (Content-Disposition: version)".into(), handmade_mime(&mut rng)), "handmade v1 mime via parse_v1_mime_response");
        // replies with a signature part (base64 text / raw bytes): both loaders
        for b64 in [true, false] {
            let name = format!("harness-built reply with {} signature part", if b64 { "base64" } else { "8-bit" });
            let m = handmade_mime_signed(&mut rng, b64);
            add(mime_artifact(name.clone(), m.clone()), "signed v1 mime");
            add(mime_response_artifact(name, m), "signed v1 mime via parse_v1_mime_response");
        }
        add(v1_mime_md5_artifact(&mut rng), "v1_mime module reply");
        add(blte_chunks_artifact(&mut rng, false), "blte chunk table");
        add(blte_chunks_artifact(&mut rng, true), "blte extended chunk table");
        artifacts.append(&mut extra);
    }
    for a in &artifacts {
        if ctx.want_sample() && matches!(a.kind, "encoding" | "archive-index" | "v1-mime" | "lru-file") {
            ctx.sample(json!({"kind":"artifact","artifact":a.kind,"instance":a.instance,"len":a.bytes.len(),"protected_bytes":a.region_len(),"parts":a.parts.iter().map(|(n,r)| format!("{n}@{}..{}", r.start, r.end)).take(12).collect::<Vec<_>>() }));
        }
    }

    // ---- run the mutations on 16 threads ------------------------------------------------------
    let next = std::sync::atomic::AtomicUsize::new(0);
    let all_small_exhaustive = std::sync::atomic::AtomicBool::new(true);
    std::thread::scope(|s| {
        for _ in 0..16 {
            s.spawn(|| {
                loop {
                    let i = next.fetch_add(1, std::sync::atomic::Ordering::SeqCst);
                    if i >= artifacts.len() {
                        break;
                    }
                    let a = &artifacts[i];
                    let mut rng = ctx.rng(1000 + i as u64);
                    let ex = mutate_artifact(&ctx, a, &mut rng, exhaustive_limit, samples);
                    if a.region_len() <= 4096 && !ex {
                        all_small_exhaustive.store(false, std::sync::atomic::Ordering::SeqCst);
                    }
                }
            });
        }
    });
    let small_regions = artifacts.iter().filter(|a| a.region_len() <= 4096).count();
    ctx.obs("artifacts.total", artifacts.len() as u64);
    ctx.obs("artifacts.region<=4KiB(all-bitflips-and-substitutions-enumerated)", small_regions as u64);
    // exhaustive: every single-bit flip and every byte substitution of every small region was enumerated
    // (the space of small artifacts themselves is sampled)
    if all_small_exhaustive.load(std::sync::atomic::Ordering::SeqCst) && small_regions > 0 {
        // scope of the flag: see `exhaustive_scope` below and the rule text
        ctx.set_exhaustive(true);
        ctx.set_extra("exhaustive_scope", json!("all single-bit flips and all four byte substitutions at every protected byte of every artifact whose protected region is <= 4 KiB (update entries, local headers, residency entries, archive-index / archive-group footers through every loader, LRU files <= 4 KiB through both loaders, 1-KiB-page encoding file plain and BLTE-wrapped, IndexEntry::verify pages <= 4 KiB, BLTE chunk tables, V1 replies through every loader); positions in larger regions and the artifacts themselves are sampled"));
    }

    // ---- observations outside the statement ---------------------------------------------------
    {
        let mut rng = ctx.rng(5);
        for b in arc_observe.iter().take(if quick { 1 } else { 3 }) {
            observe_archive_unenforced(&ctx, b, &mut rng, ctx.pick(50, 400));
        }
        observe_update_section_loader(&ctx, &mut rng, ctx.pick(100, 2000));
        observe_mime_checksum_line(&ctx, &handmade_mime(&mut rng));
        for (n, ks, ob) in [(5usize, 16u8, 4u8), (200, 9, 5), (40, 16, 6)] {
            match build_archive_index_variant(&mut rng, n, ks, ob, 1) {
                Ok(b) => footer_struct_checks(&ctx, &b, &format!("builder {n} entries, {ks}-byte keys, {ob}-byte offsets")),
                Err(e) => ctx.inconclusive(&format!("footer struct check artifact: {e}")),
            }
        }
    }

    // ---- caches ------------------------------------------------------------------------------
    match tokio::runtime::Builder::new_multi_thread().worker_threads(8).enable_all().build() {
        Ok(rt) => {
            let per = ctx.pick(15usize, 120usize);
            rt.block_on(async {
                let ctx = &ctx;
                let mut futs = Vec::new();
                for w in 0..8u64 {
                    futs.push(async move {
                        cac_histories(ctx, per, 50_000 + w * 1000).await;
                        multilayer_histories(ctx, per, 70_000 + w * 1000).await;
                    });
                }
                futures::future::join_all(futs).await;
                cac_over_multilayer(ctx, per * 2, 90_000).await;
                direct_validators(ctx, ctx.pick(40, 400)).await;
                oversized_entry(ctx).await;
            });
            rt.shutdown_timeout(Duration::from_secs(2));
        }
        Err(e) => ctx.inconclusive(&format!("tokio runtime: {e}")),
    }

    // minimum evidence: every verifying loader must have rejected something and every cache must have served a valid hit
    for kind in [
        "encoding",
        "archive-index",
        "lru-file",
        "update-entry",
        "local-header",
        "v1-mime",
        "encoding-via-parse_blte",
        "encoding-index-entry.verify",
        "archive-index-via-chunked-open",
        "archive-group",
        "lru-file-via-load_from_disk",
        "residency-entry",
        "v1-mime-via-parse_v1_mime_response",
        "v1-mime-md5-epilogue(v1_mime-module)",
        "blte-chunk-table",
    ] {
        if ctx.get_obs(&format!("{kind}.bitflip.rejected")) == 0 {
            ctx.inconclusive(&format!("no rejected bit flip observed for {kind}"));
        }
    }
    let faulted_reads: u64 = ["memory-backend", "disk-backend"].iter().flat_map(|b| FAULTS.iter().map(move |f| format!("cache.ContentAddressedCache.{b}.fault.{}", f.name()))).map(|k| ctx.get_obs(&k)).sum();
    if faulted_reads == 0 {
        ctx.inconclusive("no backing-store fault was applied to ContentAddressedCache");
    }
    if ctx.get_obs("footer-struct.footer-field-element_count.reported-invalid") == 0 {
        ctx.inconclusive("the in-memory footer check (IndexFooter::is_valid / ArchiveIndex::validate) did not run");
    }
    if ctx.get_obs("validator.rounds") == 0 || ctx.get_obs("validator.NgdpBytes.new_validated.corrupt-bitflip.rejected") == 0 {
        ctx.inconclusive("the direct validator sub-check did not run or rejected no bit flip");
    }
    if ctx.get_obs("cache.ContentAddressedCache.multi-layer-backend.histories") == 0 {
        ctx.inconclusive("no ContentAddressedCache history over the multi-layer backend ran");
    }
    let ttl_puts: u64 = ["memory-layer", "disk-layer", "memory+disk-layers"].iter().map(|l| ctx.get_obs(&format!("cache.MultiLayerCacheImpl.{l}.put_with_validation_and_ttl.ok"))).sum();
    if ttl_puts == 0 {
        ctx.inconclusive("put_with_validation_and_ttl never stored an entry");
    }
    drop(scratch);
    let panics = PANICS.lock().unwrap_or_else(std::sync::PoisonError::into_inner).clone();
    let mut by_site: BTreeMap<String, u64> = BTreeMap::new();
    for p in panics {
        *by_site.entry(p.rsplit("/crates/").next().unwrap_or("").to_string()).or_insert(0) += 1;
    }
    for (site, n) in by_site {
        ctx.obs(&format!("loader-panic-site.{site}"), n);
    }
    ctx.finish();
}
