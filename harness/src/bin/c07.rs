//! C07 — integrity checks reject every corruption of what they protect.
//!
//! Valid artifacts (builders + fixtures read at run time) are mutated INSIDE the
//! region their checksum protects (declared below per format from the format
//! documentation) and handed to the VERIFYING loader the property anchors name.
//! Oracle: the load fails / reports invalid, or succeeds with logical content
//! equal to the original. For the validating cache APIs: whatever happens to
//! the backing entry, returned bytes must hash (MD5) to the requested key.
//!
//! Verifying entry points used (a format's non-verifying loaders are only
//! observed, never judged):
//!   encoding      EncodingFile::parse  (IndexEntry::verify in parse_ckey_pages / parse_ekey_pages)
//!   archive index ArchiveIndex::parse  (IndexFooter::is_valid, validate_format, validate_file_size)
//!   LRU file      lru_file::deserialize
//!   update entry  UpdateEntry::from_bytes + validate_hash_guard   (UpdateSection::from_bytes does not verify)
//!   local header  LocalHeader::from_bytes + validate_checksums(base_offset)
//!   V1 MIME       mime_parser::parse_v1_mime_to_bpsv (extract_checksum / validate_checksum)
//!   caches        ContentAddressedCache::{put_validated,get_validated},
//!                 MultiLayerCacheImpl::{put_with_validation,get_with_validation} + Md5ValidationHooks

use bytes::Bytes;
use cascette_cache::config::{DiskCacheConfig, MemoryCacheConfig, MultiLayerCacheConfig};
use cascette_cache::key::BlteBlockKey;
use cascette_cache::traits::{AsyncCache, MultiLayerCache};
use cascette_cache::validation::{Md5ValidationHooks, NgdpValidationHooks, ValidationHooks};
use cascette_cache::{DiskCache, MemoryCache, MultiLayerCacheImpl};
use cascette_client_storage::index::ArchiveLocation;
use cascette_client_storage::index::update::{UPDATE_ENTRY_SIZE, UpdateEntry, UpdateSection, UpdateStatus};
use cascette_client_storage::lru::lru_file::{self, LruFileEntry, LruFileHeader};
use cascette_client_storage::storage::local_header::{LOCAL_HEADER_SIZE, LocalHeader};
use cascette_crypto::{ContentKey, EncodingKey};
use cascette_formats::archive::{ArchiveIndex, ArchiveIndexBuilder};
use cascette_formats::encoding::{CKeyEntryData, EKeyEntryData, EncodingBuilder, EncodingFile};
use cascette_protocol::mime_parser::parse_v1_mime_to_bpsv;
use serde_json::{Value, json};
use sha2::{Digest, Sha256};
use std::collections::BTreeMap;
use std::io::Cursor;
use std::ops::Range;
use std::sync::Arc;
use std::sync::Mutex;
use std::time::Duration;
use vh::refimpl::lookup3;
use vh::{Ctx, Rng, fnv64, hex_short, mix64};

// ---------------------------------------------------------------------------
// generic mutation machinery

#[derive(Debug, Clone)]
enum Outcome {
    /// load failed / reported invalid
    Rejected,
    /// load succeeded, logical content equals the original
    AcceptedEqual,
    /// load succeeded and the content differs: refuting unless `collision`
    AcceptedAltered { what: String, collision: bool },
    /// the loader panicked (a C02 matter; for C07 the data was not returned as good)
    Panicked,
}

struct Artifact {
    /// canonical artifact kind used in signatures
    kind: &'static str,
    /// which instance (fixture name / builder parameters): evidence only
    instance: String,
    bytes: Vec<u8>,
    /// protected region, split into canonically named parts
    parts: Vec<(&'static str, Range<usize>)>,
    /// verifying load + comparison with the original
    check: Box<dyn Fn(&[u8]) -> Outcome + Send + Sync>,
    /// fixed-size record at offset 0 followed by context bytes (no truncation classes)
    fixed_record: bool,
    /// appended bytes fall under the check (LRU: MD5 over the whole file; archive index: the footer
    /// is located from the end and validate_file_size ties the length to the footer fields)
    length_protected: bool,
}

impl Artifact {
    fn region_len(&self) -> usize {
        self.parts.iter().map(|(_, r)| r.len()).sum()
    }
    /// i-th byte of the protected region -> (file offset, part name)
    fn region_pos(&self, mut i: usize) -> (usize, &'static str) {
        for (name, r) in &self.parts {
            if i < r.len() {
                return (r.start + i, name);
            }
            i -= r.len();
        }
        (0, "?")
    }
}

#[derive(Default)]
struct Tally {
    counts: BTreeMap<String, u64>,
    evals: u64,
    hashes: Vec<u64>,
}

impl Tally {
    fn add(&mut self, kind: &str, class: &str, outcome: &str) {
        *self.counts.entry(format!("{kind}.{class}.{outcome}")).or_insert(0) += 1;
    }
    fn flush(self, ctx: &Ctx) {
        for (k, v) in self.counts {
            ctx.obs(&k, v);
        }
        ctx.add_evals(self.evals);
        ctx.add_nontrivial(self.hashes);
    }
}

static PANICS: Mutex<Vec<String>> = Mutex::new(Vec::new());

fn run_check(a: &Artifact, data: &[u8]) -> Outcome {
    match std::panic::catch_unwind(std::panic::AssertUnwindSafe(|| (a.check)(data))) {
        Ok(o) => o,
        Err(_) => Outcome::Panicked,
    }
}

#[allow(clippy::too_many_arguments)]
fn judge(ctx: &Ctx, t: &mut Tally, a: &Artifact, class: &str, part: &str, mutated: &[u8], describe: impl Fn() -> Value) {
    if mutated == a.bytes.as_slice() {
        t.add(a.kind, class, "noop-skipped");
        return;
    }
    t.evals += 1;
    t.hashes.push(mix64(fnv64(a.kind.as_bytes()), fnv64(mutated)));
    match run_check(a, mutated) {
        Outcome::Rejected => t.add(a.kind, class, "rejected"),
        Outcome::AcceptedEqual if part.contains("stored") && (class == "bitflip" || class.starts_with("subst-")) => {
            // the stored checksum itself was changed in place: stored != computed, so a check that
            // still says "good" does not compare the whole checksum
            t.add(a.kind, class, "ACCEPTED-ALTHOUGH-STORED-CHECKSUM-CHANGED");
            ctx.violation(
                &format!("C07|{}|{class}|accepted-although-stored-checksum-changed|{part}", a.kind),
                "the stored checksum was changed in place and the artifact still loaded as good",
                json!({"artifact": a.kind, "instance": a.instance, "mutation_class": class, "region_part": part, "mutation": describe(),
                       "original_hex": if a.bytes.len() <= 4096 { hex::encode(&a.bytes) } else { hex_short(&a.bytes, 64) },
                       "mutated_hex": if mutated.len() <= 4096 { hex::encode(mutated) } else { hex_short(mutated, 64) }}),
            );
        }
        Outcome::AcceptedEqual => t.add(a.kind, class, "accepted-content-equal(benign)"),
        Outcome::Panicked => t.add(a.kind, class, "loader-panicked(not-returned-as-good)"),
        Outcome::AcceptedAltered { what, collision } => {
            if collision {
                t.add(a.kind, class, "accepted-altered-genuine-hash-collision");
                ctx.sample(json!({"kind":"hash collision (reference hash agrees)", "artifact": a.kind, "mutation": describe(), "what": what}));
            } else {
                t.add(a.kind, class, "ACCEPTED-WITH-ALTERED-CONTENT");
                ctx.violation(
                    &format!("C07|{}|{class}|accepted-with-altered-content|{part}", a.kind),
                    "a mutation inside the protected region loaded as good with content different from the original",
                    json!({"artifact": a.kind, "instance": a.instance, "mutation_class": class, "region_part": part, "mutation": describe(), "difference": what,
                           "original_len": a.bytes.len(), "mutated_len": mutated.len(),
                           "original_hex": if a.bytes.len() <= 4096 { hex::encode(&a.bytes) } else { hex_short(&a.bytes, 64) },
                           "mutated_hex": if mutated.len() <= 4096 { hex::encode(mutated) } else { hex_short(mutated, 64) }}),
                );
            }
        }
    }
}

const SUBST: [(&str, fn(u8) -> u8); 4] = [("subst-00", |_| 0), ("subst-ff", |_| 0xff), ("subst-xor80", |b| b ^ 0x80), ("subst-plus1", |b| b.wrapping_add(1))];

/// Apply every mutation class to one artifact. Returns whether the single-bit
/// flips were enumerated exhaustively.
fn mutate_artifact(ctx: &Ctx, a: &Artifact, rng: &mut Rng, exhaustive_limit: usize, samples: usize) -> bool {
    let mut t = Tally::default();
    let n = a.region_len();
    // sanity: the unmodified artifact must load with equal content
    match run_check(a, &a.bytes) {
        Outcome::AcceptedEqual => {}
        other => {
            ctx.inconclusive(&format!("the unmodified {} artifact ({}) does not load with equal content: {other:?}", a.kind, a.instance));
            return false;
        }
    }
    let exhaustive = n <= exhaustive_limit;
    let mut buf = a.bytes.clone();

    // --- single-bit flips
    if exhaustive {
        for i in 0..n {
            let (pos, part) = a.region_pos(i);
            for bit in 0..8 {
                buf[pos] ^= 1 << bit;
                judge(ctx, &mut t, a, "bitflip", part, &buf, || json!({"op":"bitflip","offset":pos,"bit":bit}));
                buf[pos] ^= 1 << bit;
            }
        }
    } else {
        for _ in 0..samples {
            let (pos, part) = a.region_pos(rng.usize_below(n));
            let bit = rng.below(8) as u8;
            buf[pos] ^= 1 << bit;
            judge(ctx, &mut t, a, "bitflip", part, &buf, || json!({"op":"bitflip","offset":pos,"bit":bit}));
            buf[pos] ^= 1 << bit;
        }
        // first/last byte of every part are always covered
        for (part, r) in &a.parts {
            for pos in [r.start, r.end - 1] {
                for bit in [0u8, 7] {
                    buf[pos] ^= 1 << bit;
                    judge(ctx, &mut t, a, "bitflip", part, &buf, || json!({"op":"bitflip","offset":pos,"bit":bit}));
                    buf[pos] ^= 1 << bit;
                }
            }
        }
    }

    // --- byte substitutions
    let subst_positions: Vec<usize> = if exhaustive { (0..n).collect() } else { (0..samples / 4).map(|_| rng.usize_below(n)).collect() };
    for &i in &subst_positions {
        let (pos, part) = a.region_pos(i);
        let orig = buf[pos];
        for (class, f) in SUBST {
            buf[pos] = f(orig);
            judge(ctx, &mut t, a, class, part, &buf, || json!({"op":class,"offset":pos,"from":orig}));
        }
        buf[pos] = orig;
    }

    // --- deletions and insertions of 1..=16 bytes inside the region
    let lens: [usize; 6] = [1, 2, 3, 4, 8, 16];
    let indel: Vec<(usize, usize)> = if n <= 64 {
        (0..n).flat_map(|i| lens.iter().map(move |&l| (i, l))).collect()
    } else {
        (0..samples / 8).map(|_| (rng.usize_below(n), rng.urange(1, 16))).collect()
    };
    for &(i, len) in &indel {
        let (pos, part) = a.region_pos(i);
        // deletion (kept inside the part)
        let part_end = a.parts.iter().find(|(_, r)| r.contains(&pos)).map_or(pos + 1, |(_, r)| r.end);
        let dl = len.min(part_end - pos);
        let mut m = Vec::with_capacity(a.bytes.len());
        m.extend_from_slice(&a.bytes[..pos]);
        m.extend_from_slice(&a.bytes[pos + dl..]);
        judge(ctx, &mut t, a, "delete", part, &m, || json!({"op":"delete","offset":pos,"len":dl}));
        // insertion: random bytes, zero bytes, or a copy of the bytes that follow
        let ins: Vec<u8> = match rng.below(3) {
            0 => rng.bytes(len),
            1 => vec![0u8; len],
            _ => a.bytes[pos..(pos + len).min(a.bytes.len())].to_vec(),
        };
        let mut m = Vec::with_capacity(a.bytes.len() + ins.len());
        m.extend_from_slice(&a.bytes[..pos]);
        m.extend_from_slice(&ins);
        m.extend_from_slice(&a.bytes[pos..]);
        judge(ctx, &mut t, a, "insert", part, &m, || json!({"op":"insert","offset":pos,"bytes":hex::encode(&ins)}));
    }

    // --- truncations
    if !a.fixed_record {
        let cuts: Vec<usize> = if n <= 64 { (0..n).collect() } else { (0..samples / 16).map(|_| rng.usize_below(n)).chain([0, n - 1]).collect() };
        for &i in &cuts {
            let (pos, part) = a.region_pos(i);
            // (a) the rest of the part is cut out, whatever follows the part is kept
            let part_end = a.parts.iter().find(|(_, r)| r.contains(&pos)).map_or(pos + 1, |(_, r)| r.end);
            let mut m = a.bytes[..pos].to_vec();
            m.extend_from_slice(&a.bytes[part_end..]);
            judge(ctx, &mut t, a, "truncate-region-tail", part, &m, || json!({"op":"truncate-region-tail","from":pos,"to":part_end}));
            // (b) the artifact ends here
            judge(ctx, &mut t, a, "truncate-artifact", part, &a.bytes[..pos], || json!({"op":"truncate-artifact","keep":pos}));
        }
    }
    if !a.fixed_record && a.length_protected {
        // --- extension of the artifact (appended bytes)
        for len in [1usize, 2, 16, 20, 24, 4096] {
            let mut m = a.bytes.clone();
            m.extend(rng.bytes(len));
            judge(ctx, &mut t, a, "extend-artifact", "end-of-artifact", &m, || json!({"op":"append","len":len}));
            let mut m = a.bytes.clone();
            m.extend(std::iter::repeat_n(0u8, len));
            judge(ctx, &mut t, a, "extend-artifact", "end-of-artifact", &m, || json!({"op":"append-zero","len":len}));
        }
    }
    *t.counts.entry(format!("{}.artifacts", a.kind)).or_insert(0) += 1;
    if exhaustive {
        *t.counts.entry(format!("{}.artifacts-with-exhaustive-bitflips", a.kind)).or_insert(0) += 1;
    }
    t.flush(ctx);
    exhaustive
}

// ---------------------------------------------------------------------------
// artifacts

fn encoding_logical(f: &EncodingFile) -> String {
    // what the page MD5s protect: the pages (parsed entries and raw page bytes). The header, the
    // ESpec block, the first_key fields of the page index and the trailing ESpec are not covered
    // by any checksum and are not part of the comparison.
    format!(
        "{:?}|{:?}",
        f.ckey_pages.iter().map(|p| (&p.entries, fnv64(&p.original_data), p.original_data.len())).collect::<Vec<_>>(),
        f.ekey_pages.iter().map(|p| (&p.entries, fnv64(&p.original_data), p.original_data.len())).collect::<Vec<_>>(),
    )
}

fn encoding_artifact(instance: String, bytes: Vec<u8>) -> Result<Artifact, String> {
    let parsed = EncodingFile::parse(&bytes).map_err(|e| format!("{instance}: {e}"))?;
    let h = &parsed.header;
    let (cp, ep) = (h.ckey_page_count as usize, h.ekey_page_count as usize);
    let (cps, eps) = (h.ckey_page_size(), h.ekey_page_size());
    // layout (docs/src/formats/encoding.md): header(22) | espec block | ckey index (32 B/page:
    // first_key[16] page_hash[16]) | ckey pages | ekey index | ekey pages | trailing espec.
    // page_hash = MD5 of the page data: protected = every page byte; the stored hash
    // fields are included (a changed stored hash must be rejected as well).
    let ckey_index = 22 + h.espec_block_size as usize;
    let ckey_pages = ckey_index + cp * 32;
    let ekey_index = ckey_pages + cp * cps;
    let ekey_pages = ekey_index + ep * 32;
    let end = ekey_pages + ep * eps;
    if end > bytes.len() {
        return Err(format!("{instance}: computed layout exceeds the file"));
    }
    let mut parts: Vec<(&'static str, Range<usize>)> = Vec::new();
    for i in 0..cp {
        parts.push(("ckey-index-stored-md5", ckey_index + i * 32 + 16..ckey_index + i * 32 + 32));
    }
    for i in 0..cp {
        let name = if i + 1 == cp { "ckey-page-last" } else if i == 0 { "ckey-page-first" } else { "ckey-page-middle" };
        parts.push((name, ckey_pages + i * cps..ckey_pages + (i + 1) * cps));
    }
    for i in 0..ep {
        parts.push(("ekey-index-stored-md5", ekey_index + i * 32 + 16..ekey_index + i * 32 + 32));
    }
    for i in 0..ep {
        let name = if i + 1 == ep { "ekey-page-last" } else if i == 0 { "ekey-page-first" } else { "ekey-page-middle" };
        parts.push((name, ekey_pages + i * eps..ekey_pages + (i + 1) * eps));
    }
    let want = encoding_logical(&parsed);
    Ok(Artifact {
        kind: "encoding",
        instance,
        bytes,
        parts,
        check: Box::new(move |d| match EncodingFile::parse(d) {
            Err(_) => Outcome::Rejected,
            Ok(f) => {
                let got = encoding_logical(&f);
                if got == want { Outcome::AcceptedEqual } else { Outcome::AcceptedAltered { what: first_diff(&want, &got), collision: false } }
            }
        }),
        fixed_record: false,
        length_protected: false,
    })
}

fn first_diff(a: &str, b: &str) -> String {
    let i = a.bytes().zip(b.bytes()).position(|(x, y)| x != y).unwrap_or(a.len().min(b.len()));
    let s = i.saturating_sub(60);
    let cut = |t: &str| t.chars().skip(s).take(160).collect::<String>();
    format!("first difference at debug offset {i}: original ..{}.. loaded ..{}..", cut(a), cut(b))
}

fn build_encoding(rng: &mut Rng, page_kb: u16, n_ckey: usize, n_ekey: usize, trailing: bool) -> Result<Vec<u8>, String> {
    let mut b = EncodingBuilder::new().with_page_sizes(page_kb, page_kb);
    if trailing {
        b = b.with_trailing_espec("b:{22=n,54=z,*=n}".to_string());
    }
    let especs = ["n", "z", "b:{256K*=z}", "b:{164=z,16K*565=z,1656=z}"];
    for _ in 0..n_ckey {
        let nk = if rng.chance(1, 8) { 2 } else { 1 };
        b.add_ckey_entry(CKeyEntryData {
            content_key: ContentKey::from_bytes(rng.array::<16>()),
            file_size: rng.range(0, 0xff_ffff_ffff),
            encoding_keys: (0..nk).map(|_| EncodingKey::from_bytes(rng.array::<16>())).collect(),
        });
    }
    for _ in 0..n_ekey {
        b.add_ekey_entry(EKeyEntryData { encoding_key: EncodingKey::from_bytes(rng.array::<16>()), espec: (*rng.pick(&especs)).to_string(), file_size: rng.range(0, 0xff_ffff_ffff) });
    }
    let f = b.build().map_err(|e| e.to_string())?;
    f.build().map_err(|e| e.to_string())
}

fn archive_logical(i: &ArchiveIndex) -> String {
    format!("{:?}|{:?}|{:?}", i.footer, i.toc, i.entries)
}

fn archive_artifact(instance: String, bytes: Vec<u8>) -> Result<Artifact, String> {
    let parsed = ArchiveIndex::parse(Cursor::new(&bytes)).map_err(|e| format!("{instance}: {e}"))?;
    let n = bytes.len();
    if n < 28 {
        return Err("archive index shorter than its footer".into());
    }
    // footer (docs/src/formats/archives.md): toc_hash[8] | version reserved[2] page_size_kb
    // offset_bytes size_bytes ekey_length footer_hash_bytes element_count(LE) | footer_hash[8].
    // footer_hash = MD5(the 12 field bytes, zero-padded to 20)[:8]: protected = the 12 field
    // bytes; the stored footer_hash is included. toc_hash is itself a stored checksum of
    // the TOC which this implementation documents as deliberately unenforced (observed only).
    let f = n - 28;
    let parts: Vec<(&'static str, Range<usize>)> = vec![
        ("footer-field-version", f + 8..f + 9),
        ("footer-field-reserved", f + 9..f + 11),
        ("footer-field-page_size_kb", f + 11..f + 12),
        ("footer-field-offset_bytes", f + 12..f + 13),
        ("footer-field-size_bytes", f + 13..f + 14),
        ("footer-field-ekey_length", f + 14..f + 15),
        ("footer-field-footer_hash_bytes", f + 15..f + 16),
        ("footer-field-element_count", f + 16..f + 20),
        ("footer-stored-hash", f + 20..f + 28),
    ];
    let want = archive_logical(&parsed);
    Ok(Artifact {
        kind: "archive-index",
        instance,
        bytes,
        parts,
        check: Box::new(move |d| {
            if d.len() < 13 {
                // ArchiveIndex::parse seeks to End(-13) first; shorter input cannot be a valid index
                return match ArchiveIndex::parse(Cursor::new(d)) {
                    Err(_) => Outcome::Rejected,
                    Ok(i) => Outcome::AcceptedAltered { what: format!("{} entries from {} bytes", i.entries.len(), d.len()), collision: false },
                };
            }
            match ArchiveIndex::parse(Cursor::new(d)) {
                Err(_) => Outcome::Rejected,
                Ok(i) => {
                    let got = archive_logical(&i);
                    if got == want { Outcome::AcceptedEqual } else { Outcome::AcceptedAltered { what: first_diff(&want, &got), collision: false } }
                }
            }
        }),
        fixed_record: false,
        length_protected: true,
    })
}

fn build_archive_index(rng: &mut Rng, entries: usize) -> Result<Vec<u8>, String> {
    let mut b = ArchiveIndexBuilder::new();
    let mut off = 0u64;
    for _ in 0..entries {
        let size = rng.range(1, 1 << 20) as u32;
        b.add_entry(rng.bytes(16), size, off);
        off += u64::from(size);
    }
    let mut out = Cursor::new(Vec::new());
    b.build(&mut out).map_err(|e| e.to_string())?;
    Ok(out.into_inner())
}

fn lru_logical(h: &LruFileHeader, e: &[LruFileEntry]) -> String {
    format!("{}|{}|{}|{:?}", h.version, h.mru_head, h.lru_tail, e.iter().map(|x| (x.prev, x.next, x.ekey, x.flags)).collect::<Vec<_>>())
}

fn lru_artifact(rng: &mut Rng, n: usize) -> Artifact {
    // layout (lru_file.rs module doc): 28-byte header = version(2) reserved(2) MD5(16) mru_head(4)
    // lru_tail(4), then N x 20-byte entries. MD5 is computed over the whole file with the hash
    // field zeroed: protected = every byte of the file (stored hash included).
    // active entries are chained tail -> ... -> head in a random order (next points towards the MRU
    // head, prev towards the LRU tail); free slots (zero key) are unlinked
    let mut entries: Vec<LruFileEntry> = Vec::with_capacity(n);
    let mut order: Vec<usize> = Vec::new();
    for i in 0..n {
        let mut ekey = [0u8; 9];
        rng.fill(&mut ekey);
        if n > 3 && rng.chance(1, 10) {
            ekey = [0; 9]; // free slot
        } else {
            order.push(i);
        }
        entries.push(LruFileEntry { prev: lru_file::LRU_SENTINEL, next: lru_file::LRU_SENTINEL, ekey, flags: rng.next_u32() as u8 });
    }
    rng.shuffle(&mut order);
    for j in 0..order.len() {
        entries[order[j]].prev = if j == 0 { lru_file::LRU_SENTINEL } else { order[j - 1] as u32 };
        entries[order[j]].next = if j + 1 == order.len() { lru_file::LRU_SENTINEL } else { order[j + 1] as u32 };
    }
    let header = LruFileHeader {
        version: if rng.bool() { 1 } else { 0 },
        hash: [0; 16],
        mru_head: order.last().map_or(lru_file::LRU_SENTINEL, |&i| i as u32),
        lru_tail: order.first().map_or(lru_file::LRU_SENTINEL, |&i| i as u32),
    };
    let bytes = lru_file::serialize(&header, &entries);
    let want = lru_logical(&header, &entries);
    let len = bytes.len();
    let mut parts: Vec<(&'static str, Range<usize>)> = vec![("header-version", 0..2), ("header-reserved", 2..4), ("header-stored-md5", 4..20), ("header-mru-head", 20..24), ("header-lru-tail", 24..28)];
    if len > 28 {
        if len > 48 {
            parts.push(("entries", 28..len - 20));
        }
        parts.push(("entry-last", len - 20..len));
    }
    Artifact {
        kind: "lru-file",
        instance: format!("{n} entries"),
        bytes,
        parts,
        check: Box::new(move |d| match lru_file::deserialize(d) {
            None => Outcome::Rejected,
            Some((h, e)) => {
                let got = lru_logical(&h, &e);
                if got == want { Outcome::AcceptedEqual } else { Outcome::AcceptedAltered { what: first_diff(&want, &got), collision: false } }
            }
        }),
        fixed_record: false,
        length_protected: true,
    }
}

fn update_logical(e: &UpdateEntry) -> String {
    format!("{:?}|{}|{}|{}|{:?}", e.ekey, e.archive_location.archive_id, e.archive_location.archive_offset, e.encoded_size, e.status)
}

fn gen_update_entry(rng: &mut Rng) -> UpdateEntry {
    let status = *rng.pick(&[UpdateStatus::Normal, UpdateStatus::Normal, UpdateStatus::Delete, UpdateStatus::HeaderNonResident, UpdateStatus::DataNonResident]);
    let ekey: [u8; 9] = if rng.chance(1, 10) { [0xff; 9] } else { rng.array::<9>() };
    UpdateEntry::new(ekey, ArchiveLocation { archive_id: rng.below(1024) as u16, archive_offset: rng.next_u32() & 0x3FFF_FFFF }, if rng.chance(1, 8) { 0 } else { rng.next_u32() }, status)
}

fn update_entry_artifact(rng: &mut Rng) -> Artifact {
    // layout (update.rs module doc): hash_guard(4, LE) | ekey(9) | location(5) | encoded_size(4, LE) |
    // status(1) | pad(1); hash_guard = hashlittle(bytes[4..23], 0) | 0x80000000: protected =
    // bytes 4..23, the stored guard (0..4) is included; byte 23 (padding) is outside.
    let e = gen_update_entry(rng);
    let next = gen_update_entry(rng);
    let mut bytes = e.to_bytes().to_vec();
    bytes.extend_from_slice(&next.to_bytes()); // context: the next entry of the page
    let want = update_logical(&e);
    Artifact {
        kind: "update-entry",
        instance: format!("status {:?}", e.status),
        bytes,
        parts: vec![("stored-hash-guard", 0..4), ("ekey", 4..13), ("archive-location", 13..18), ("encoded-size", 18..22), ("status", 22..23)],
        check: Box::new(move |d| {
            if d.len() < UPDATE_ENTRY_SIZE {
                return Outcome::Rejected;
            }
            let mut raw = [0u8; UPDATE_ENTRY_SIZE];
            raw.copy_from_slice(&d[..UPDATE_ENTRY_SIZE]);
            let p = UpdateEntry::from_bytes(&raw);
            if !p.validate_hash_guard() {
                return Outcome::Rejected;
            }
            let got = update_logical(&p);
            if got == want {
                return Outcome::AcceptedEqual;
            }
            // inherent 31-bit collision? re-check with the independent lookup3 reference over the raw bytes
            let stored = u32::from_le_bytes([raw[0], raw[1], raw[2], raw[3]]);
            let reference = lookup3::hashlittle(&raw[4..23], 0) | 0x8000_0000;
            Outcome::AcceptedAltered { what: format!("{want} -> {got}"), collision: stored == reference }
        }),
        fixed_record: true,
        length_protected: false,
    }
}

fn local_header_artifact(rng: &mut Rng) -> Artifact {
    // layout (docs/src/client/local-storage.md + local_header.rs): ekey reversed(16) | size BE(4) |
    // flags(2) | ChecksumA(4) = hashlittle(bytes 0..22, 0x3D6BE971) | ChecksumB(4) = rotating XOR of
    // bytes 0..26: protected = bytes 0..26 (ChecksumA's value is covered by B), stored B included.
    let base_offset = if rng.bool() { rng.usize_below(4) } else { rng.usize_below(1 << 30) };
    let h = LocalHeader::new(rng.array::<16>(), rng.range(0, 0x7fff_ffff) as u32, base_offset);
    let mut bytes = h.to_bytes().to_vec();
    bytes.extend_from_slice(b"BLTE");
    bytes.extend(rng.bytes(28));
    let want = format!("{:?}|{}|{}", h.encoding_key, h.size_with_header, h.flags);
    Artifact {
        kind: "local-header",
        instance: format!("base_offset&3={}", base_offset & 3),
        bytes,
        parts: vec![("ekey", 0..16), ("size", 16..20), ("flags", 20..22), ("stored-checksum-a", 22..26), ("stored-checksum-b", 26..30)],
        check: Box::new(move |d| {
            let Some(p) = LocalHeader::from_bytes(d) else { return Outcome::Rejected };
            if !p.validate_checksums(base_offset) {
                return Outcome::Rejected;
            }
            let got = format!("{:?}|{}|{}", p.encoding_key, p.size_with_header, p.flags);
            if got == want {
                return Outcome::AcceptedEqual;
            }
            // both stored checksums genuinely match the mutated bytes? (reference implementations)
            let raw = &d[..LOCAL_HEADER_SIZE];
            let a_ref = lookup3::hashlittle(&raw[..22], 0x3D6B_E971);
            let mut b_ref = [0u8; 4];
            for (i, &x) in raw[..26].iter().enumerate() {
                b_ref[(base_offset + i) & 3] ^= x;
            }
            let a_stored = u32::from_le_bytes([raw[22], raw[23], raw[24], raw[25]]);
            let collision = a_ref == a_stored && b_ref == raw[26..30];
            Outcome::AcceptedAltered { what: format!("{want} -> {got}"), collision }
        }),
        fixed_record: true,
        length_protected: false,
    }
}

fn bpsv_logical(doc: &cascette_formats::bpsv::BpsvDocument) -> String {
    format!("{}|{:?}|{:?}", doc.schema().to_header(), doc.sequence_number(), doc.rows().iter().map(|r| r.raw_values().to_vec()).collect::<Vec<_>>())
}

fn mime_artifact(instance: String, text: Vec<u8>) -> Result<Artifact, String> {
    // V1 reply: MIME message followed by the epilogue line "Checksum: <sha256 hex>\r\n";
    // SHA-256 covers every byte before the checksum line (tcp/v1.rs wrap_in_mime,
    // mime_parser.rs extract_checksum): protected = [0, start of "Checksum: ").
    let pos = text.windows(10).rposition(|w| w == b"Checksum: ").ok_or("no checksum line")?;
    let doc = parse_v1_mime_to_bpsv(&text).map_err(|e| format!("{instance}: {e}"))?;
    let want = bpsv_logical(&doc);
    // parts: MIME framing before the body, the BPSV body, framing after the body
    let body_start = text.windows(4).rposition(|w| w == b"\r\n\r\n").map_or(0, |p| p + 4).min(pos);
    let body_start = if body_start >= pos { text.windows(4).position(|w| w == b"\r\n\r\n").map_or(0, |p| p + 4) } else { body_start };
    let closing = text[..pos].windows(4).rposition(|w| w == b"\r\n--").unwrap_or(pos);
    let mut parts: Vec<(&'static str, Range<usize>)> = Vec::new();
    if body_start > 0 && body_start < closing {
        parts.push(("mime-headers", 0..body_start));
        parts.push(("bpsv-body", body_start..closing));
        if closing < pos {
            parts.push(("closing-boundary", closing..pos));
        }
    } else {
        parts.push(("message", 0..pos));
    }
    Ok(Artifact {
        kind: "v1-mime",
        instance,
        bytes: text,
        parts,
        check: Box::new(move |d| match parse_v1_mime_to_bpsv(d) {
            Err(_) => Outcome::Rejected,
            Ok(doc) => {
                let got = bpsv_logical(&doc);
                if got == want { Outcome::AcceptedEqual } else { Outcome::AcceptedAltered { what: first_diff(&want, &got), collision: false } }
            }
        }),
        fixed_record: false,
        length_protected: false,
    })
}

fn server_mime_replies(rng: &mut Rng) -> Result<Vec<(String, Vec<u8>)>, String> {
    use cascette_ribbit::{AppState, BuildRecord, ServerConfig};
    let dir = tempfile::tempdir().map_err(|e| e.to_string())?;
    let hex32 = |rng: &mut Rng| hex::encode(rng.array::<16>());
    let recs: Vec<BuildRecord> = ["wow", "wow_classic", "agent"]
        .iter()
        .enumerate()
        .map(|(i, p)| BuildRecord {
            id: i as u64 + 1,
            product: (*p).to_string(),
            version: format!("{}.{}.{}.{}", rng.range(1, 11), rng.range(0, 15), rng.range(0, 9), rng.range(10_000, 70_000)),
            build: rng.range(10_000, 70_000).to_string(),
            build_config: hex32(rng),
            cdn_config: hex32(rng),
            keyring: if i == 1 { Some(hex32(rng)) } else { None },
            product_config: if i != 2 { Some(hex32(rng)) } else { None },
            build_time: "2024-05-01T10:00:00+00:00".to_string(),
            encoding_ekey: hex32(rng),
            root_ekey: hex32(rng),
            install_ekey: hex32(rng),
            download_ekey: hex32(rng),
            cdn_path: if i == 0 { Some("tpr/wow".to_string()) } else { None },
        })
        .collect();
    let path = dir.path().join("builds.json");
    std::fs::write(&path, serde_json::to_vec(&recs).map_err(|e| e.to_string())?).map_err(|e| e.to_string())?;
    let cfg = ServerConfig {
        http_bind: std::net::SocketAddr::from(([127, 0, 0, 1], 0)),
        tcp_bind: std::net::SocketAddr::from(([127, 0, 0, 1], 0)),
        builds: path,
        cdn_hosts: "cdn.example.test".to_string(),
        cdn_path: "tpr/default".to_string(),
        tls_cert: None,
        tls_key: None,
    };
    let state = AppState::new(&cfg).map_err(|e| e.to_string())?;
    let mut out = Vec::new();
    for cmd in ["v1/products/wow/versions", "v1/products/wow_classic/bgdl", "v1/products/agent/cdns", "v1/summary"] {
        let reply = cascette_ribbit::tcp::v1::handle_v1_command(cmd, &state).map_err(|e| e.to_string())?;
        out.push((format!("server reply to {cmd}"), reply.into_bytes()));
    }
    Ok(out)
}

/// A V1 reply in the layout of the public Ribbit service (disposition names the endpoint,
/// a second part carries a signature), built in the harness with its own SHA-256.
fn handmade_mime(rng: &mut Rng) -> Vec<u8> {
    let boundary = format!("{}", hex::encode(rng.array::<12>()));
    let body = format!(
        "Region!STRING:0|BuildConfig!HEX:16|CDNConfig!HEX:16|KeyRing!HEX:16|BuildId!DEC:4|VersionsName!STRING:0|ProductConfig!HEX:16\n## seqn = {}\nus|{}|{}||{}|1.15.2.{}|{}\neu|{}|{}||{}|1.15.2.{}|{}\n",
        rng.range(1000, 4_000_000),
        hex::encode(rng.array::<16>()),
        hex::encode(rng.array::<16>()),
        rng.range(1, 99_999),
        rng.range(1, 99_999),
        hex::encode(rng.array::<16>()),
        hex::encode(rng.array::<16>()),
        hex::encode(rng.array::<16>()),
        rng.range(1, 99_999),
        rng.range(1, 99_999),
        hex::encode(rng.array::<16>()),
    );
    let msg = format!(
        "MIME-Version: 1.0\r\nContent-Type: multipart/alternative; boundary=\"{boundary}\"\r\n\r\n--{boundary}\r\nContent-Type: text/plain\r\nContent-Disposition: version\r\n\r\n{body}\r\n--{boundary}--\r\n"
    );
    let sum = Sha256::digest(msg.as_bytes());
    format!("{msg}Checksum: {}\r\n", hex::encode(sum)).into_bytes()
}

// ---------------------------------------------------------------------------
// observation only: loaders / regions the statement does not cover

fn observe_archive_unenforced(ctx: &Ctx, bytes: &[u8], rng: &mut Rng, samples: usize) {
    // docs describe toc_hash = MD5(toc keys || block hashes)[:8] and per-block hashes; parse does not
    // enforce them (documented in the code as deliberate) and the statement names only the footer.
    let Ok(orig) = ArchiveIndex::parse(Cursor::new(bytes)) else { return };
    let want = archive_logical(&orig);
    let n = bytes.len();
    let footer = n - 28;
    let chunks = orig.toc.len();
    let toc_len = chunks * (orig.footer.ekey_length as usize + orig.footer.footer_hash_bytes as usize);
    let toc_start = footer - toc_len;
    let block_hashes_start = toc_start + chunks * orig.footer.ekey_length as usize;
    let regions: [(&str, Range<usize>); 4] = [("toc_hash-field", footer..footer + 8), ("toc-block-hashes", block_hashes_start..footer), ("toc-keys", toc_start..block_hashes_start), ("entry-blocks", 0..toc_start)];
    let mut buf = bytes.to_vec();
    for (name, r) in regions {
        if r.is_empty() {
            continue;
        }
        for _ in 0..samples {
            let pos = r.start + rng.usize_below(r.len());
            let bit = rng.below(8);
            buf[pos] ^= 1 << bit;
            let out = match std::panic::catch_unwind(std::panic::AssertUnwindSafe(|| ArchiveIndex::parse(Cursor::new(&buf)))) {
                Err(_) => "panicked",
                Ok(Err(_)) => "rejected",
                Ok(Ok(i)) => {
                    if archive_logical(&i) == want {
                        "accepted-content-equal"
                    } else {
                        "accepted-content-altered"
                    }
                }
            };
            ctx.obs(&format!("outside-statement.archive-index.bitflip-in-{name}.{out}"), 1);
            buf[pos] ^= 1 << bit;
        }
    }
}

fn observe_update_section_loader(ctx: &Ctx, rng: &mut Rng, n: usize) {
    // UpdateSection::from_bytes is the non-verifying loader: how many corrupted entries does it admit?
    for _ in 0..n {
        let mut s = UpdateSection::new();
        let cnt = rng.urange(1, 40);
        for _ in 0..cnt {
            s.append(gen_update_entry(rng));
        }
        let mut bytes = s.to_bytes();
        let victim = rng.usize_below(cnt);
        let page = victim / 21;
        let off = page * 512 + (victim % 21) * 24 + rng.urange(4, 22);
        bytes[off] ^= 1 << rng.below(8);
        let loaded = UpdateSection::from_bytes(&bytes);
        let bad = loaded.all_entries().filter(|e| !e.validate_hash_guard()).count();
        ctx.obs(if bad > 0 { "outside-statement.update-section.from_bytes.loads-entry-with-bad-guard" } else { "outside-statement.update-section.from_bytes.no-bad-guard-visible" }, 1);
    }
}

// ---------------------------------------------------------------------------
// validating caches

fn md5_ok(key: &ContentKey, data: &[u8]) -> bool {
    md5::compute(data).0 == *key.as_bytes()
}

#[derive(Clone, Copy, Debug, PartialEq, Eq)]
enum Fault {
    None,
    BitFlip,
    Truncate,
    Empty,
    Extend,
    SwapOtherValid,
    ByteSubst,
}

impl Fault {
    fn name(self) -> &'static str {
        match self {
            Fault::None => "no-fault",
            Fault::BitFlip => "corrupt-bitflip",
            Fault::Truncate => "truncate",
            Fault::Empty => "truncate-to-empty",
            Fault::Extend => "extend",
            Fault::SwapOtherValid => "swap-with-other-entry",
            Fault::ByteSubst => "corrupt-byte-substitution",
        }
    }
}

const FAULTS: [Fault; 6] = [Fault::BitFlip, Fault::Truncate, Fault::Empty, Fault::Extend, Fault::SwapOtherValid, Fault::ByteSubst];

fn corrupt(rng: &mut Rng, fault: Fault, orig: &[u8], other: &[u8]) -> Vec<u8> {
    let mut v = orig.to_vec();
    match fault {
        Fault::None => {}
        Fault::BitFlip => {
            if v.is_empty() {
                v.push(1);
            } else {
                let p = rng.usize_below(v.len());
                v[p] ^= 1 << rng.below(8);
            }
        }
        Fault::Truncate => {
            if v.is_empty() {
                v.push(0);
            } else {
                let keep = rng.usize_below(v.len());
                v.truncate(keep);
            }
        }
        Fault::Empty => {
            if v.is_empty() {
                v.push(0);
            } else {
                v.clear();
            }
        }
        Fault::Extend => {
            let n = rng.urange(1, 16);
            v.extend(rng.bytes(n));
        }
        Fault::SwapOtherValid => v = other.to_vec(),
        Fault::ByteSubst => {
            if v.is_empty() {
                v.push(0xff);
            } else {
                let p = rng.usize_below(v.len());
                v[p] = v[p].wrapping_add(1);
            }
        }
    }
    v
}

fn find_file(dir: &std::path::Path, name: &str) -> Option<std::path::PathBuf> {
    for e in std::fs::read_dir(dir).ok()?.flatten() {
        let p = e.path();
        if p.is_dir() {
            if let Some(f) = find_file(&p, name) {
                return Some(f);
            }
        } else if p.file_name().and_then(|s| s.to_str()) == Some(name) {
            return Some(p);
        }
    }
    None
}

fn contents(rng: &mut Rng) -> Vec<Vec<u8>> {
    let mut v: Vec<Vec<u8>> = vec![Vec::new(), vec![0x42], rng.bytes(100), rng.bytes(4096), rng.bytes(70_000), vec![0u8; 1000]];
    let n = rng.urange(2, 3000);
    v.push(rng.bytes(n));
    v
}

enum CacBackend {
    Memory(Arc<MemoryCache<BlteBlockKey>>),
    Disk(Arc<DiskCache<BlteBlockKey>>, std::path::PathBuf),
}

async fn with_watchdog<T>(ctx: &Ctx, what: &str, f: impl std::future::Future<Output = T>) -> Option<T> {
    match tokio::time::timeout(Duration::from_secs(20), f).await {
        Ok(v) => Some(v),
        Err(_) => {
            ctx.inconclusive(&format!("cache operation did not return within 20 s: {what}"));
            None
        }
    }
}

#[allow(clippy::too_many_lines)]
async fn cac_histories(ctx: &Ctx, histories: usize, stream: u64) {
    // ContentAddressedCache over a memory backend (second handle on the inner cache) and
    // over a disk backend (the entry's file is rewritten in place)
    for h in 0..histories {
        let mut rng = ctx.rng(stream + h as u64);
        let disk = h % 2 == 1;
        let tmp = match tempfile::tempdir() {
            Ok(t) => t,
            Err(e) => {
                ctx.inconclusive(&format!("tempdir: {e}"));
                return;
            }
        };
        let backend = if disk {
            match DiskCache::<BlteBlockKey>::new(DiskCacheConfig::new(tmp.path()).with_subdirectories(h % 4 == 1, 2)) {
                Ok(c) => CacBackend::Disk(Arc::new(c), tmp.path().to_path_buf()),
                Err(e) => {
                    ctx.inconclusive(&format!("DiskCache::new: {e}"));
                    return;
                }
            }
        } else {
            match MemoryCache::<BlteBlockKey>::new(MemoryCacheConfig::new().with_max_entries(1000).with_max_memory(64 << 20)) {
                Ok(c) => CacBackend::Memory(Arc::new(c)),
                Err(e) => {
                    ctx.inconclusive(&format!("MemoryCache::new: {e}"));
                    return;
                }
            }
        };
        let hooks = Arc::new(NgdpValidationHooks::new());
        let bname = if disk { "disk-backend" } else { "memory-backend" };
        let data = contents(&mut rng);
        let keys: Vec<ContentKey> = data.iter().map(|d| ContentKey::from_data(d)).collect();
        let mut last_fault = vec![Fault::None; data.len()];
        let mut log: Vec<Value> = Vec::new();
        let nops = rng.urange(10, 60);
        macro_rules! run {
            ($cache:expr, $inner:expr) => {{
                let cache = $cache;
                for _ in 0..nops {
                    let k = rng.usize_below(data.len());
                    let key = keys[k];
                    match rng.below(10) {
                        0..=2 => {
                            let Some(r) = with_watchdog(ctx, "put_validated", cache.put_validated(key, Bytes::from(data[k].clone()))).await else { return };
                            ctx.obs(&format!("cache.ContentAddressedCache.{bname}.put_validated.{}", if r.is_ok() { "ok" } else { "err" }), 1);
                            if r.is_ok() {
                                last_fault[k] = Fault::None;
                            }
                            log.push(json!({"op":"put_validated","key":k,"ok":r.is_ok()}));
                        }
                        3 => {
                            // content that does not match the key through the validating API
                            let other = (k + 1 + rng.usize_below(data.len() - 1)) % data.len();
                            let Some(r) = with_watchdog(ctx, "put_validated(mismatch)", cache.put_validated(key, Bytes::from(data[other].clone()))).await else { return };
                            ctx.obs(&format!("cache.ContentAddressedCache.{bname}.put_validated-mismatching-content.{}", if r.is_ok() { "ACCEPTED" } else { "refused" }), 1);
                            if r.is_ok() {
                                last_fault[k] = Fault::SwapOtherValid;
                            }
                            log.push(json!({"op":"put_validated(mismatch)","key":k,"content_of":other,"ok":r.is_ok()}));
                        }
                        4..=6 => {
                            let fault = *rng.pick(&FAULTS);
                            let other = (k + 1 + rng.usize_below(data.len() - 1)) % data.len();
                            let bad = corrupt(&mut rng, fault, &data[k], &data[other]);
                            if md5_ok(&key, &bad) {
                                continue;
                            }
                            let bkey = BlteBlockKey::new_raw(key, 0);
                            let applied: bool = $inner(bkey, bad).await;
                            if applied {
                                last_fault[k] = fault;
                                ctx.obs(&format!("cache.ContentAddressedCache.{bname}.fault.{}", fault.name()), 1);
                            }
                            log.push(json!({"op":"fault","key":k,"fault":fault.name(),"applied":applied}));
                        }
                        _ => {
                            let Some(r) = with_watchdog(ctx, "get_validated", cache.get_validated(key)).await else { return };
                            ctx.eval_nontrivial(mix64(fnv64(b"cac"), mix64(stream + h as u64, log.len() as u64)));
                            let out = match &r {
                                Ok(Some(b)) if md5_ok(&key, b) => "hit-bytes-hash-to-key",
                                Ok(Some(_)) => "HIT-BYTES-DO-NOT-HASH-TO-KEY",
                                Ok(None) => "miss",
                                Err(_) => "error(invalid)",
                            };
                            ctx.obs(&format!("cache.ContentAddressedCache.{bname}.get_validated.after-{}.{out}", last_fault[k].name()), 1);
                            log.push(json!({"op":"get_validated","key":k,"outcome":out}));
                            if let Ok(Some(b)) = &r {
                                if !md5_ok(&key, b) {
                                    ctx.violation(
                                        &format!("C07|ContentAddressedCache.get_validated|{}|returned-bytes-md5-differs-from-key|{bname}", last_fault[k].name()),
                                        "get_validated returned bytes whose MD5 is not the requested content key",
                                        json!({"backend": bname, "history": log, "key": hex::encode(key.as_bytes()), "returned": hex_short(b, 64), "returned_len": b.len()}),
                                    );
                                }
                            }
                        }
                    }
                }
            }};
        }
        match &backend {
            CacBackend::Memory(inner) => {
                let cache = cascette_cache::ngdp::ContentAddressedCache::new(inner.clone(), hooks);
                let inner2 = inner.clone();
                run!(&cache, |bkey: BlteBlockKey, bad: Vec<u8>| {
                    let inner2 = inner2.clone();
                    async move { inner2.put(bkey, Bytes::from(bad)).await.is_ok() }
                });
            }
            CacBackend::Disk(inner, root) => {
                let cache = cascette_cache::ngdp::ContentAddressedCache::new(inner.clone(), hooks);
                let root = root.clone();
                run!(&cache, |bkey: BlteBlockKey, bad: Vec<u8>| {
                    let root = root.clone();
                    async move {
                        // rewrite the entry's file in place; entries that are not on disk cannot be corrupted
                        match find_file(&root, bkey.as_cache_key()) {
                            Some(p) => std::fs::write(p, &bad).is_ok(),
                            None => false,
                        }
                    }
                });
            }
        }
        ctx.obs("cache.ContentAddressedCache.histories", 1);
    }
}

#[allow(clippy::too_many_lines)]
async fn multilayer_histories(ctx: &Ctx, histories: usize, stream: u64) {
    for h in 0..histories {
        let mut rng = ctx.rng(stream + h as u64);
        let Ok(tmp) = tempfile::tempdir() else {
            ctx.inconclusive("tempdir");
            return;
        };
        let shape = h % 3;
        let mem = MemoryCacheConfig::new().with_max_entries(1000).with_max_memory(64 << 20);
        let dsk = DiskCacheConfig::new(tmp.path()).with_subdirectories(h % 2 == 0, 2);
        let (cfg, lname) = match shape {
            0 => (MultiLayerCacheConfig::new().add_memory_layer(mem), "memory-layer"),
            1 => (MultiLayerCacheConfig::new().add_disk_layer(dsk), "disk-layer"),
            _ => (MultiLayerCacheConfig::new().add_memory_layer(mem).add_disk_layer(dsk), "memory+disk-layers"),
        };
        let mut cache = match MultiLayerCacheImpl::<BlteBlockKey>::new(cfg) {
            Ok(c) => c,
            Err(e) => {
                ctx.inconclusive(&format!("MultiLayerCacheImpl::new: {e}"));
                return;
            }
        };
        let hooks: Arc<dyn ValidationHooks> = Arc::new(Md5ValidationHooks::new());
        cache.set_validation_hooks(Some(hooks));
        let layers = cache.layer_count();
        let data = contents(&mut rng);
        let keys: Vec<ContentKey> = data.iter().map(|d| ContentKey::from_data(d)).collect();
        let mut last_fault = vec![Fault::None; data.len()];
        let mut log: Vec<Value> = Vec::new();
        let nops = rng.urange(10, 60);
        for _ in 0..nops {
            let k = rng.usize_below(data.len());
            let key = keys[k];
            let bkey = BlteBlockKey::new_raw(key, 0);
            match rng.below(10) {
                0..=2 => {
                    let Some(r) = with_watchdog(ctx, "put_with_validation", cache.put_with_validation(bkey, key, Bytes::from(data[k].clone()))).await else { return };
                    ctx.obs(&format!("cache.MultiLayerCacheImpl.{lname}.put_with_validation.{}", if r.is_ok() { "ok" } else { "err" }), 1);
                    if r.is_ok() {
                        last_fault[k] = Fault::None;
                    }
                    log.push(json!({"op":"put_with_validation","key":k,"ok":r.is_ok()}));
                }
                3 => {
                    let other = (k + 1 + rng.usize_below(data.len() - 1)) % data.len();
                    let Some(r) = with_watchdog(ctx, "put_with_validation(mismatch)", cache.put_with_validation(bkey, key, Bytes::from(data[other].clone()))).await else { return };
                    ctx.obs(&format!("cache.MultiLayerCacheImpl.{lname}.put_with_validation-mismatching-content.{}", if r.is_ok() { "ACCEPTED" } else { "refused" }), 1);
                    if r.is_ok() {
                        last_fault[k] = Fault::SwapOtherValid;
                    }
                    log.push(json!({"op":"put_with_validation(mismatch)","key":k,"content_of":other,"ok":r.is_ok()}));
                }
                4..=6 => {
                    let fault = *rng.pick(&FAULTS);
                    let other = (k + 1 + rng.usize_below(data.len() - 1)) % data.len();
                    let bad = corrupt(&mut rng, fault, &data[k], &data[other]);
                    if md5_ok(&key, &bad) {
                        continue;
                    }
                    // backing-store fault: the unvalidated layer API, or the disk layer's file
                    let layer = rng.usize_below(layers);
                    let via_file = lname != "memory-layer" && rng.bool();
                    let applied = if via_file {
                        match find_file(tmp.path(), bkey.as_cache_key()) {
                            Some(p) => std::fs::write(p, &bad).is_ok(),
                            None => false,
                        }
                    } else {
                        let Some(r) = with_watchdog(ctx, "put_to_layer", cache.put_to_layer(bkey, Bytes::from(bad), layer)).await else { return };
                        r.is_ok()
                    };
                    if applied {
                        last_fault[k] = fault;
                        ctx.obs(&format!("cache.MultiLayerCacheImpl.{lname}.fault.{}.{}", fault.name(), if via_file { "file" } else { "layer-api" }), 1);
                    }
                    log.push(json!({"op":"fault","key":k,"fault":fault.name(),"via_file":via_file,"layer":layer,"applied":applied}));
                }
                _ => {
                    let Some(r) = with_watchdog(ctx, "get_with_validation", cache.get_with_validation(&bkey, Some(key))).await else { return };
                    ctx.eval_nontrivial(mix64(fnv64(b"mlc"), mix64(stream + h as u64, log.len() as u64)));
                    let out = match &r {
                        Ok(Some(b)) if md5_ok(&key, b.as_bytes()) => "hit-bytes-hash-to-key",
                        Ok(Some(_)) => "HIT-BYTES-DO-NOT-HASH-TO-KEY",
                        Ok(None) => "miss",
                        Err(_) => "error(corruption-reported)",
                    };
                    ctx.obs(&format!("cache.MultiLayerCacheImpl.{lname}.get_with_validation.after-{}.{out}", last_fault[k].name()), 1);
                    log.push(json!({"op":"get_with_validation","key":k,"outcome":out}));
                    if let Ok(Some(b)) = &r {
                        if !md5_ok(&key, b.as_bytes()) {
                            ctx.violation(
                                &format!("C07|MultiLayerCacheImpl.get_with_validation|{}|returned-bytes-md5-differs-from-key|{lname}", last_fault[k].name()),
                                "get_with_validation returned bytes whose MD5 is not the requested content key",
                                json!({"layers": lname, "history": log, "key": hex::encode(key.as_bytes()), "returned": hex_short(b.as_bytes(), 64), "returned_len": b.as_bytes().len()}),
                            );
                        }
                    }
                    // a corrupted entry that was reported must not be served by the next validating read either
                    if r.is_err() {
                        last_fault[k] = Fault::None;
                        let Some(r2) = with_watchdog(ctx, "get_with_validation(2)", cache.get_with_validation(&bkey, Some(key))).await else { return };
                        if let Ok(Some(b)) = &r2 {
                            if !md5_ok(&key, b.as_bytes()) {
                                ctx.violation(
                                    &format!("C07|MultiLayerCacheImpl.get_with_validation|second-read-after-reported-corruption|returned-bytes-md5-differs-from-key|{lname}"),
                                    "after reporting corruption the next validating read returned bad bytes",
                                    json!({"layers": lname, "history": log}),
                                );
                            }
                        }
                        ctx.obs(&format!("cache.MultiLayerCacheImpl.{lname}.second-read-after-corruption.{}", match &r2 { Ok(Some(_)) => "hit", Ok(None) => "miss(entry-removed)", Err(_) => "error" }), 1);
                    }
                }
            }
        }
        ctx.obs("cache.MultiLayerCacheImpl.histories", 1);
    }
}

/// Md5ValidationHooks skips validation above 100 MiB: does a validating read of such an entry still check it?
async fn oversized_entry(ctx: &Ctx) {
    let n = 100 * 1024 * 1024 + 1;
    let mut v = vec![0u8; n];
    let mut rng = ctx.rng(77);
    for _ in 0..64 {
        let p = rng.usize_below(n);
        v[p] = rng.next_u32() as u8;
    }
    let key = ContentKey::from_data(&v);
    let bkey = BlteBlockKey::new_raw(key, 0);
    let cfg = MultiLayerCacheConfig::new().add_memory_layer(MemoryCacheConfig::new().with_max_entries(16).with_max_memory(1 << 30));
    let Ok(mut cache) = MultiLayerCacheImpl::<BlteBlockKey>::new(cfg) else {
        ctx.inconclusive("MultiLayerCacheImpl::new (oversized)");
        return;
    };
    let hooks: Arc<dyn ValidationHooks> = Arc::new(Md5ValidationHooks::new());
    cache.set_validation_hooks(Some(hooks));
    let good = Bytes::from(v);
    let Some(r) = with_watchdog(ctx, "put_with_validation(oversized)", cache.put_with_validation(bkey.clone(), key, good.clone())).await else { return };
    if r.is_err() {
        ctx.obs("cache.oversized.put_with_validation.err", 1);
        return;
    }
    let mut bad = good.to_vec();
    bad[n / 2] ^= 0x10;
    drop(good);
    let Some(r) = with_watchdog(ctx, "put_to_layer(oversized)", cache.put_to_layer(bkey.clone(), Bytes::from(bad), 0)).await else { return };
    if r.is_err() {
        ctx.obs("cache.oversized.fault-not-applied", 1);
        return;
    }
    let Some(r) = with_watchdog(ctx, "get_with_validation(oversized)", cache.get_with_validation(&bkey, Some(key))).await else { return };
    ctx.eval_nontrivial(fnv64(b"oversized"));
    match r {
        Ok(Some(b)) => {
            if md5_ok(&key, b.as_bytes()) {
                ctx.obs("cache.oversized.get_with_validation.hit-bytes-hash-to-key", 1);
            } else {
                ctx.obs("cache.oversized.get_with_validation.HIT-BYTES-DO-NOT-HASH-TO-KEY", 1);
                ctx.violation(
                    "C07|MultiLayerCacheImpl.get_with_validation|corrupt-bitflip|returned-bytes-md5-differs-from-key|memory-layer|entry-larger-than-100MiB",
                    "get_with_validation returned a corrupted entry larger than 100 MiB as validated",
                    json!({"size": n, "flipped_offset": n / 2, "is_validated_flag": b.is_validated()}),
                );
            }
        }
        Ok(None) => ctx.obs("cache.oversized.get_with_validation.miss", 1),
        Err(_) => ctx.obs("cache.oversized.get_with_validation.error(corruption-reported)", 1),
    }
}

// ---------------------------------------------------------------------------

fn fixtures(dir: &str, ext: &str) -> Vec<(String, Vec<u8>)> {
    let mut out = Vec::new();
    if let Ok(rd) = std::fs::read_dir(dir) {
        let mut paths: Vec<_> = rd.flatten().map(|e| e.path()).filter(|p| p.extension().is_some_and(|e| e == ext)).collect();
        paths.sort();
        for p in paths {
            if let Ok(b) = std::fs::read(&p) {
                out.push((p.file_name().and_then(|s| s.to_str()).unwrap_or("?").to_string(), b));
            }
        }
    }
    out
}

#[allow(clippy::too_many_lines)]
fn main() {
    let ctx = Ctx::init("C07", "fault_enumeration");
    ctx.set_rule("a case is one mutated artifact handed to the verifying loader (artifact kind x mutation class x position inside the declared protected region), or one validating cache read inside a put/fault/get history; every mutated artifact differs from the original (no-ops are skipped), so every case is non-trivial; distinct by hash of (kind, mutated bytes) / (history, step). `exhaustive` refers to the fault space of the small artifacts only: every single-bit flip and every 00/FF/^0x80/+1 substitution at every protected byte of every artifact whose protected region is <= 4 KiB; larger regions, insert/delete contents, the artifacts themselves and the cache histories are sampled");
    ctx.assume("protected regions are declared in the harness from docs/src/formats/{encoding,archives}.md, docs/src/client/local-storage.md and the module docs of lru_file.rs / update.rs / local_header.rs / tcp/v1.rs; for the archive index only the footer (fields + stored hash) is judged: the statement names the footer, and the TOC hash / per-block hashes are documented in the code as deliberately unenforced (their mutations are recorded as observations)");
    ctx.assume("vh::refimpl::lookup3 is correct (self-tested at start-up): it separates genuine 31/32-bit hash collisions from defective checks");
    ctx.assume("MD5/SHA-256 collisions do not occur among the mutations tried");
    if let Err(e) = vh::refimpl::self_test_all() {
        ctx.inconclusive(&format!("reference self-test failed: {e}"));
        ctx.finish();
    }
    std::panic::set_hook(Box::new(|info| {
        let loc = info.location().map(|l| format!("{}:{}", l.file(), l.line())).unwrap_or_default();
        let mut g = PANICS.lock().unwrap_or_else(std::sync::PoisonError::into_inner);
        if g.len() < 10_000 {
            g.push(loc);
        }
    }));

    let quick = ctx.quick();
    let exhaustive_limit = ctx.pick(4096usize, 1 << 16);
    let samples = ctx.pick(2000usize, 40_000usize);

    // ---- replay: re-apply one recorded mutation ------------------------------------------------
    if let Some(d) = ctx.replay_detail() {
        println!("replay: seed+tier re-run reproduces a finding; recorded case:\n{}", serde_json::to_string_pretty(&json!({"artifact": d.get("artifact"), "instance": d.get("instance"), "mutation": d.get("mutation"), "difference": d.get("difference"), "history": d.get("history")})).unwrap_or_default());
        if let (Some(kind), Some(hexs)) = (d.get("artifact").and_then(Value::as_str), d.get("mutated_hex").and_then(Value::as_str)) {
            if let Ok(m) = hex::decode(hexs) {
                let verdict = match kind {
                    "lru-file" => format!("deserialize -> {}", if lru_file::deserialize(&m).is_some() { "Some (accepted)" } else { "None" }),
                    "update-entry" if m.len() >= 24 => {
                        let mut raw = [0u8; 24];
                        raw.copy_from_slice(&m[..24]);
                        format!("validate_hash_guard -> {}", UpdateEntry::from_bytes(&raw).validate_hash_guard())
                    }
                    "encoding" => format!("EncodingFile::parse -> {}", if EncodingFile::parse(&m).is_ok() { "Ok (accepted)" } else { "Err" }),
                    "archive-index" => format!("ArchiveIndex::parse -> {}", if ArchiveIndex::parse(Cursor::new(&m)).is_ok() { "Ok (accepted)" } else { "Err" }),
                    "v1-mime" => format!("parse_v1_mime_to_bpsv -> {}", if parse_v1_mime_to_bpsv(&m).is_ok() { "Ok (accepted)" } else { "Err" }),
                    _ => "not replayable from bytes (local-header needs base_offset): re-run with the recorded seed".to_string(),
                };
                println!("replayed mutated bytes: {verdict}");
            }
        }
    }

    // ---- artifacts -----------------------------------------------------------------------------
    let mut artifacts: Vec<Artifact> = Vec::new();
    let mut rng = ctx.rng(1);
    // encoding: small builder files (exhaustive), larger builder file, CDN fixtures
    let enc_specs: [(u16, usize, usize, bool); 4] = [(1, 6, 8, false), (1, 30, 60, true), (4, 150, 200, true), (2, 90, 30, false)];
    for (kb, nc, ne, trailing) in enc_specs {
        match build_encoding(&mut rng, kb, nc, ne, trailing).and_then(|b| encoding_artifact(format!("builder page={kb}KiB ckeys={nc} ekeys={ne} trailing={trailing}"), b)) {
            Ok(a) => artifacts.push(a),
            Err(e) => ctx.inconclusive(&format!("encoding builder artifact: {e}")),
        }
    }
    let enc_fix = fixtures("/repo/crates/cascette-formats/test_fixtures/encoding", "bin");
    if enc_fix.is_empty() {
        ctx.inconclusive("no encoding fixtures found");
    }
    for (name, b) in enc_fix {
        match encoding_artifact(format!("fixture {name}"), b) {
            Ok(a) => artifacts.push(a),
            Err(e) => ctx.inconclusive(&format!("encoding fixture: {e}")),
        }
    }
    // archive indices
    for n in [1usize, 5, 170, 171, 600] {
        match build_archive_index(&mut rng, n).and_then(|b| archive_artifact(format!("builder {n} entries"), b)) {
            Ok(a) => artifacts.push(a),
            Err(e) => ctx.inconclusive(&format!("archive index builder artifact: {e}")),
        }
    }
    let arc_fix = fixtures("/repo/crates/cascette-formats/test_fixtures/archive", "index");
    if arc_fix.is_empty() {
        ctx.inconclusive("no archive index fixtures found");
    }
    let mut arc_observe: Vec<Vec<u8>> = Vec::new();
    for (name, b) in arc_fix {
        arc_observe.push(b.clone());
        match archive_artifact(format!("fixture {name}"), b) {
            Ok(a) => artifacts.push(a),
            Err(e) => ctx.inconclusive(&format!("archive fixture: {e}")),
        }
    }
    // LRU files
    for n in [0usize, 1, 2, 3, 50, 200, 1000] {
        artifacts.push(lru_artifact(&mut rng, n));
    }
    // update entries and local headers (many small records, exhaustive each)
    for _ in 0..ctx.pick(200, 1500) {
        artifacts.push(update_entry_artifact(&mut rng));
    }
    for _ in 0..ctx.pick(200, 1500) {
        artifacts.push(local_header_artifact(&mut rng));
    }
    // V1 MIME replies: produced by the real server code, plus one in the public service's layout
    match server_mime_replies(&mut rng) {
        Ok(v) => {
            for (name, b) in v {
                match mime_artifact(name, b) {
                    Ok(a) => artifacts.push(a),
                    Err(e) => ctx.inconclusive(&format!("v1 mime artifact: {e}")),
                }
            }
        }
        Err(e) => ctx.inconclusive(&format!("server-generated V1 replies: {e}")),
    }
    for _ in 0..2 {
        let b = handmade_mime(&mut rng);
        match mime_artifact("harness-built reply (Content-Disposition: version)".into(), b) {
            Ok(a) => artifacts.push(a),
            Err(e) => ctx.inconclusive(&format!("handmade v1 mime artifact: {e}")),
        }
    }
    for a in &artifacts {
        if ctx.want_sample() && matches!(a.kind, "encoding" | "archive-index" | "v1-mime" | "lru-file") {
            ctx.sample(json!({"kind":"artifact","artifact":a.kind,"instance":a.instance,"len":a.bytes.len(),"protected_bytes":a.region_len(),"parts":a.parts.iter().map(|(n,r)| format!("{n}@{}..{}", r.start, r.end)).take(12).collect::<Vec<_>>() }));
        }
    }

    // ---- run the mutations on 16 threads ------------------------------------------------------
    let next = std::sync::atomic::AtomicUsize::new(0);
    let all_small_exhaustive = std::sync::atomic::AtomicBool::new(true);
    std::thread::scope(|s| {
        for _ in 0..16 {
            s.spawn(|| {
                loop {
                    let i = next.fetch_add(1, std::sync::atomic::Ordering::SeqCst);
                    if i >= artifacts.len() {
                        break;
                    }
                    let a = &artifacts[i];
                    let mut rng = ctx.rng(1000 + i as u64);
                    let ex = mutate_artifact(&ctx, a, &mut rng, exhaustive_limit, samples);
                    if a.region_len() <= 4096 && !ex {
                        all_small_exhaustive.store(false, std::sync::atomic::Ordering::SeqCst);
                    }
                }
            });
        }
    });
    let small_regions = artifacts.iter().filter(|a| a.region_len() <= 4096).count();
    ctx.obs("artifacts.total", artifacts.len() as u64);
    ctx.obs("artifacts.region<=4KiB(all-bitflips-and-substitutions-enumerated)", small_regions as u64);
    // exhaustive: every single-bit flip and every byte substitution of every small region was enumerated
    // (the space of small artifacts themselves is sampled)
    if all_small_exhaustive.load(std::sync::atomic::Ordering::SeqCst) && small_regions > 0 {
        // scope of the flag: see `exhaustive_scope` below and the rule text
        ctx.set_exhaustive(true);
        ctx.set_extra("exhaustive_scope", json!("all single-bit flips and all four byte substitutions at every protected byte of every artifact whose protected region is <= 4 KiB (update entries, local headers, archive-index footers, LRU files <= 4 KiB, 1-KiB-page encoding file, V1 replies); positions in larger regions and the artifacts themselves are sampled"));
    }

    // ---- observations outside the statement ---------------------------------------------------
    {
        let mut rng = ctx.rng(5);
        for b in arc_observe.iter().take(if quick { 1 } else { 3 }) {
            observe_archive_unenforced(&ctx, b, &mut rng, ctx.pick(50, 400));
        }
        observe_update_section_loader(&ctx, &mut rng, ctx.pick(100, 2000));
    }

    // ---- caches ------------------------------------------------------------------------------
    match tokio::runtime::Builder::new_multi_thread().worker_threads(8).enable_all().build() {
        Ok(rt) => {
            let per = ctx.pick(15usize, 120usize);
            rt.block_on(async {
                let ctx = &ctx;
                let mut futs = Vec::new();
                for w in 0..8u64 {
                    futs.push(async move {
                        cac_histories(ctx, per, 50_000 + w * 1000).await;
                        multilayer_histories(ctx, per, 70_000 + w * 1000).await;
                    });
                }
                futures::future::join_all(futs).await;
                oversized_entry(ctx).await;
            });
            rt.shutdown_timeout(Duration::from_secs(2));
        }
        Err(e) => ctx.inconclusive(&format!("tokio runtime: {e}")),
    }

    // minimum evidence: every verifying loader must have rejected something and every cache must have served a valid hit
    for kind in ["encoding", "archive-index", "lru-file", "update-entry", "local-header", "v1-mime"] {
        if ctx.get_obs(&format!("{kind}.bitflip.rejected")) == 0 {
            ctx.inconclusive(&format!("no rejected bit flip observed for {kind}"));
        }
    }
    let faulted_reads: u64 = ["memory-backend", "disk-backend"].iter().flat_map(|b| FAULTS.iter().map(move |f| format!("cache.ContentAddressedCache.{b}.fault.{}", f.name()))).map(|k| ctx.get_obs(&k)).sum();
    if faulted_reads == 0 {
        ctx.inconclusive("no backing-store fault was applied to ContentAddressedCache");
    }
    let panics = PANICS.lock().unwrap_or_else(std::sync::PoisonError::into_inner).clone();
    let mut by_site: BTreeMap<String, u64> = BTreeMap::new();
    for p in panics {
        *by_site.entry(p.rsplit("/crates/").next().unwrap_or("").to_string()).or_insert(0) += 1;
    }
    for (site, n) in by_site {
        ctx.obs(&format!("loader-panic-site.{site}"), n);
    }
    ctx.finish();
}
