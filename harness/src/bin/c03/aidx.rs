//! CDN archive index and archive group: builders -> bytes -> parse -> binary_search_key / find_all_key_matches /
//! ArchiveGroup::find_entry / ChunkedArchiveIndex::find_entry vs model and linear scan.

use crate::common::{Case, Tally, be_dec, be_inc, err_class, gen_keyset, key_class, size32_nonzero, viol};
use cascette_formats::CascFormat;
use cascette_formats::archive::{ArchiveGroup, ArchiveGroupBuilder, ArchiveGroupEntry, ArchiveIndex, ArchiveIndexBuilder, ChunkedArchiveIndex, IndexEntry, build_merged};
use serde_json::{Value, json};
use std::collections::BTreeMap;
use std::io::Cursor;
use vh::{Ctx, Rng};

pub fn index_cases(quick: bool) -> Vec<Case> {
    let mut v = Vec::new();
    let mut idx = 0u64;
    let mut push = |p: Value| {
        v.push(Case::new("archive_index", idx, p));
        idx += 1;
    };
    let max_m = 3;
    let reps = if quick { 20 } else { 100 };
    for _rep in 0..reps {
        for ks in 1..=16usize {
            for ob in [4usize, 5, 6] {
                let rpb = 4096 / (ks + 4 + ob);
                for m in 1..=max_m {
                    for d in [-1i64, 0, 1] {
                        let n = (m * rpb) as i64 + d;
                        // one-byte keys cannot fill a block with distinct keys: those sizes use duplicate keys
                        let dup = ks == 1;
                        push(json!({"key_size":ks,"offset_bytes":ob,"n":n,"dup":dup}));
                    }
                }
            }
        }
    }
    for ks in [1usize, 2, 9, 16] {
        for ob in [4usize, 5, 6] {
            for n in [0usize, 1, 2, 200] {
                push(json!({"key_size":ks,"offset_bytes":ob,"n":n,"dup":false}));
            }
            // duplicate keys spanning block boundaries (find_all defines the result)
            let rpb = 4096 / (ks + 4 + ob);
            push(json!({"key_size":ks,"offset_bytes":ob,"n":rpb + rpb / 2,"dup":true}));
            push(json!({"key_size":ks,"offset_bytes":ob,"n":2 * rpb + 1,"dup":true}));
        }
    }
    v
}

pub fn group_cases(quick: bool) -> Vec<Case> {
    let mut v = Vec::new();
    let mut idx = 0u64;
    let mut push = |p: Value| {
        v.push(Case::new("archive_group", idx, p));
        idx += 1;
    };
    let rpb = 4096 / 26; // 157
    let reps = if quick { 24 } else { 120 };
    for _ in 0..reps {
        for m in 1..=3usize {
            for d in [-1i64, 0, 1] {
                push(json!({"mode":"builder","n":(m * rpb) as i64 + d,"hash_assign": m == 2}));
            }
        }
        for n in [0usize, 1, 2] {
            push(json!({"mode":"builder","n":n,"hash_assign": false}));
        }
        for (srcs, n) in [(2usize, 100usize), (3, 157), (4, 300), (2, 158), (3, 471)] {
            push(json!({"mode":"add_archive","sources":srcs,"n":n}));
            push(json!({"mode":"merged","sources":srcs,"n":n}));
        }
    }
    // many blocks: the slack of 14 bytes per 4 KiB block adds up to a whole block after 293 blocks
    let big: &[usize] = if quick { &[293 * 157 + 1] } else { &[292 * 157 + 1, 293 * 157, 293 * 157 + 1, 294 * 157 + 1, 600 * 157 + 1] };
    for &n in big {
        push(json!({"mode":"builder","n":n,"hash_assign": false}));
        push(json!({"mode":"merged","sources":2,"n":n}));
    }
    v
}

type Val = (u32, u64); // size, 48-bit offset value (archive_index << 32 | offset for 6-byte offsets)

fn offset_of(rng: &mut Rng, ob: usize) -> u64 {
    let max = (1u64 << (8 * ob as u32)) - 1;
    match rng.below(6) {
        0 => 0,
        1 => max,
        2 => u64::from(u32::MAX).min(max),
        _ => rng.range(0, max),
    }
}

fn entry_val(e: &cascette_formats::archive::IndexEntry) -> Val {
    (e.size, e.archive_index.map_or(e.offset, |a| (u64::from(a) << 32) | (e.offset & 0xffff_ffff)))
}

fn neg_probes(rng: &mut Rng, inserted: &[Vec<u8>], width: usize) -> Vec<Vec<u8>> {
    let mut v: Vec<Vec<u8>> = Vec::new();
    let stride = (inserted.len() / 400).max(1);
    for k in inserted.iter().step_by(stride) {
        if let Some(x) = be_inc(k) {
            v.push(x);
        }
        if let Some(x) = be_dec(k) {
            v.push(x);
        }
        if k.len() > 1 {
            v.push(k[..k.len() - 1].to_vec());
        }
        if k.len() > 9 {
            v.push(k[..9].to_vec());
        }
        let mut e0 = k.clone();
        e0.push(0);
        v.push(e0);
        let mut e1 = k.clone();
        e1.push(0xff);
        v.push(e1);
    }
    if let (Some(lo), Some(hi)) = (inserted.iter().min(), inserted.iter().max()) {
        if let Some(x) = be_dec(lo) {
            v.push(x);
        }
        if let Some(x) = be_inc(hi) {
            v.push(x);
        }
    }
    v.push(Vec::new());
    v.push(vec![0u8; width]);
    v.push(vec![0xff; width]);
    for _ in 0..24 {
        v.push(rng.bytes(width));
    }
    v
}

pub fn run_index(ctx: &Ctx, case: &Case, t: &mut Tally) {
    let mut rng = case.rng(ctx);
    let ks = case.u("key_size");
    let ob = case.u("offset_bytes");
    let n = case.u("n");
    let dup = case.b("dup");
    let rpb = 4096 / (ks + 4 + ob);
    let keys: Vec<Vec<u8>> = if dup {
        let uniq = gen_keyset(&mut rng, (n / 3).max(1), ks);
        (0..n).map(|_| rng.pick(&uniq).clone()).collect()
    } else {
        gen_keyset(&mut rng, n, ks)
    };
    let mut model: BTreeMap<Vec<u8>, Vec<Val>> = BTreeMap::new();
    let mut builder = ArchiveIndexBuilder::with_config(ks as u8, ob as u8, 4);
    for k in &keys {
        let size = size32_nonzero(&mut rng);
        let off = offset_of(&mut rng, ob);
        model.entry(k.clone()).or_default().push((size, off));
        builder.add_entry(k.clone(), size, off);
    }
    for v in model.values_mut() {
        v.sort_unstable();
    }
    t.o("archive_index.structures", 1);
    let mut buf = Cursor::new(Vec::new());
    if builder.build(&mut buf).is_err() {
        t.o("archive_index.builder_refused", 1);
        return;
    }
    let bytes = buf.into_inner();
    let blocks = keys.len().div_ceil(rpb);
    let boundary = keys.len() % rpb <= 1 || keys.len() % rpb == rpb - 1;
    if blocks >= 2 || (boundary && !keys.is_empty()) {
        ctx.eval_nontrivial(case.hash());
    } else {
        ctx.eval();
    }
    let info = json!({"entries": keys.len(), "distinct_keys": model.len(), "records_per_block": rpb, "blocks": blocks, "bytes": bytes.len()});
    let cfg = format!("key_size={ks}|offset_bytes={ob}");
    let parsed = match ArchiveIndex::parse(Cursor::new(&bytes[..])) {
        Ok(p) => p,
        Err(e) => {
            viol(ctx, case, &format!("C03|archive_index|built-output-misparsed|parse-error:{}|{}", err_class(&e), if dup { "duplicate-keys" } else { "distinct-keys" }), "ArchiveIndex::parse rejects the output of ArchiveIndexBuilder", json!({"error": e.to_string(), "config": cfg, "info": info}));
            return;
        }
    };
    if !verify_index(ctx, case, t, &mut rng, &parsed, &bytes, &model, ks, ob, dup, "", &info) {
        return;
    }
    if case.idx % IDX_EXT_EVERY == 0 {
        extend_index(ctx, case, t, &mut rng, &parsed, model, ks, ob, dup);
    }
}

/// Level 1 (linear scan == model) and level 2 (every lookup flavour vs model) on one parsed index; `ph` names the
/// path that produced it ("" = builder -> bytes -> parse).
#[allow(clippy::too_many_arguments)]
fn verify_index(ctx: &Ctx, case: &Case, t: &mut Tally, rng: &mut Rng, parsed: &ArchiveIndex, bytes: &[u8], model: &BTreeMap<Vec<u8>, Vec<Val>>, ks: usize, ob: usize, dup: bool, ph: &str, info: &Value) -> bool {
    let cfg = format!("key_size={ks}|offset_bytes={ob}");
    let n_entries: usize = model.values().map(Vec::len).sum();
    // level 1
    let mut scan: BTreeMap<Vec<u8>, Vec<Val>> = BTreeMap::new();
    for e in &parsed.entries {
        scan.entry(e.encoding_key.clone()).or_default().push(entry_val(e));
    }
    for v in scan.values_mut() {
        v.sort_unstable();
    }
    if scan != *model {
        let key = model.iter().find(|(k, v)| scan.get(*k) != Some(v)).map(|(k, _)| k.clone()).or_else(|| scan.keys().find(|k| !model.contains_key(*k)).cloned()).unwrap_or_default();
        let cause = if !scan.contains_key(&key) { "missing-key" } else if !model.contains_key(&key) { "extra-key" } else { "value-differs" };
        viol(ctx, case, &format!("C03|archive_index|{ph}built-output-misparsed|{cause}:{}|offset_bytes={ob}", key_class(&key)), "entries of the parsed archive index differ from what was inserted", json!({"key": hex::encode(&key), "inserted": model.get(&key), "parsed": scan.get(&key), "config": cfg, "info": info}));
        return false;
    }
    // level 2
    let mut probes: Vec<Vec<u8>> = model.keys().cloned().collect();
    let inserted = probes.clone();
    probes.extend(neg_probes(rng, &inserted, ks));
    rng.shuffle(&mut probes);
    let mut lookups = 0u64;
    for p in &probes {
        let expect = model.get(p);
        let got = parsed.binary_search_key(p).map(entry_val);
        let got2 = parsed.find_entry(p).map(entry_val);
        lookups += 2;
        let ok = |g: Option<Val>| match (expect, g) {
            (None, None) => true,
            (Some(list), Some(v)) => list.contains(&v),
            _ => false,
        };
        if !ok(got) || !ok(got2) {
            let rel = match (expect.is_some(), got.is_some()) {
                (true, false) => "inserted-key-not-found",
                (false, true) => "absent-key-found",
                _ => "wrong-value",
            };
            let probe_class = if p.len() < ks { "truncated-probe" } else if p.len() > ks { "extended-probe" } else { key_class(p) };
            viol(ctx, case, &format!("C03|archive_index|{ph}binary_search_key|{rel}|key={probe_class}"), "binary_search_key/find_entry disagrees with the inserted mapping and the linear scan", json!({"key": hex::encode(p), "expected": expect, "got": got, "config": cfg, "info": info}));
        }
        let mut all: Vec<Val> = parsed.find_all_key_matches(p).into_iter().map(entry_val).collect();
        all.sort_unstable();
        let mut all2: Vec<Val> = parsed.find_all_entries(p).into_iter().map(entry_val).collect();
        all2.sort_unstable();
        lookups += 2;
        let exp_all: Vec<Val> = expect.cloned().unwrap_or_default();
        if all != exp_all || all2 != exp_all {
            let rel = if all.len() < exp_all.len() { "matches-missing" } else if all.len() > exp_all.len() { "extra-matches" } else { "wrong-value" };
            viol(ctx, case, &format!("C03|archive_index|{ph}find_all_key_matches|{rel}|{}", if dup { "duplicate-keys" } else { "distinct-keys" }), "find_all_key_matches disagrees with the inserted mapping and the linear scan", json!({"key": hex::encode(p), "expected": exp_all, "got": all, "config": cfg, "info": info}));
        }
    }
    t.o("archive_index.lookups", lookups);
    if ph.is_empty() {
        t.o("archive_index.entries_inserted", n_entries as u64);
        t.o(&format!("archive_index.cfg.k{ks}.o{ob}"), 1);
    } else {
        t.o(&format!("archive_index.{}lookups", ph.replace('|', ".")), lookups);
    }
    if parsed.entry_count() != n_entries || parsed.chunk_count() != n_entries.div_ceil(4096 / (ks + 4 + ob)) {
        viol(ctx, case, &format!("C03|archive_index|{ph}entry_count/chunk_count|!=inserted"), "entry / block counts of the parsed index differ from what was inserted", json!({"entry_count": parsed.entry_count(), "chunk_count": parsed.chunk_count(), "config": cfg, "info": info}));
    }

    // chunk-loading flavour (documented as 16-byte keys / 24-byte records only)
    if ph.is_empty() && ks == 16 && ob == 4 && !dup {
        if let Ok(dir) = tempfile::tempdir() {
            let path = dir.path().join("a.index");
            if std::fs::write(&path, &bytes).is_ok() {
                match ChunkedArchiveIndex::open(&path) {
                    Ok(mut ch) => {
                        let mut n_l = 0u64;
                        for p in probes.iter().filter(|p| p.len() == 16).take(600) {
                            let expect = model.get(p);
                            match ch.find_entry(p) {
                                Ok(g) => {
                                    let g = g.map(entry_val);
                                    n_l += 1;
                                    let ok = match (expect, g) {
                                        (None, None) => true,
                                        (Some(l), Some(v)) => l.contains(&v),
                                        _ => false,
                                    };
                                    if !ok {
                                        viol(ctx, case, "C03|archive_index|ChunkedArchiveIndex::find_entry|!=model", "chunk-loading lookup disagrees with the inserted mapping", json!({"key": hex::encode(p), "expected": expect, "got": g, "info": info}));
                                    }
                                }
                                Err(e) => viol(ctx, case, "C03|archive_index|ChunkedArchiveIndex::find_entry|error-on-built-index", "chunk-loading lookup fails on a builder-produced index", json!({"key": hex::encode(p), "error": e.to_string(), "info": info})),
                            }
                        }
                        t.o("archive_index.chunked_lookups", n_l);
                    }
                    Err(e) => viol(ctx, case, "C03|archive_index|ChunkedArchiveIndex::open|error-on-built-index", "ChunkedArchiveIndex::open fails on a builder-produced index", json!({"error": e.to_string(), "info": info})),
                }
            }
        }
    }
    if ph.is_empty() && ctx.want_sample() && n_entries > 4096 / (ks + 4 + ob) && ks != 16 {
        ctx.sample(json!({"family":"archive_index","params":case.params,"info":info,"probes":probes.len()}));
    }
    true
}

/// Every `IDX_EXT_EVERY`-th index also goes through the editing operations and the alternative writers.
const IDX_EXT_EVERY: u64 = 3;

fn absent_key(rng: &mut Rng, model: &BTreeMap<Vec<u8>, Vec<Val>>, ks: usize) -> Option<Vec<u8>> {
    for _ in 0..32 {
        let cand = if !model.is_empty() && rng.bool() {
            let keys: Vec<&Vec<u8>> = model.keys().collect();
            let base = (*rng.pick(&keys)).clone();
            (if rng.bool() { be_inc(&base) } else { be_dec(&base) }).unwrap_or_else(|| rng.bytes(ks))
        } else {
            rng.bytes(ks)
        };
        if !model.contains_key(&cand) {
            return Some(cand);
        }
    }
    None
}

/// Coverage-driven extension: `ArchiveIndexBuilder::from_archive_index` + `remove_entry` / `remove_entry_full` /
/// `add_entry*` / `clear` / `has_entry` / `find_entry` / `len`, rebuilt and written through one of the writers
/// (`ArchiveIndexBuilder::build`, `ArchiveIndex::build`, `CascFormat::build`, `ArchiveIndex::write_to`), parsed and
/// verified against the edited model (removed keys gone, replaced keys carry the new value).
#[allow(clippy::too_many_arguments, clippy::too_many_lines)]
fn extend_index(ctx: &Ctx, case: &Case, t: &mut Tally, rng: &mut Rng, parsed: &ArchiveIndex, mut model: BTreeMap<Vec<u8>, Vec<Val>>, ks: usize, ob: usize, dup: bool) {
    let sel = case.idx / IDX_EXT_EVERY;
    let path = sel % 4;
    let clear_first = (sel / 4) % 3 == 2;
    let ph = match path {
        0 => "after-edit|",
        1 => "after-edit+ArchiveIndex::build|",
        2 => "after-edit+CascFormat|",
        _ => "after-edit+write_to|",
    };
    let cfg = format!("key_size={ks}|offset_bytes={ob}");
    let bviol = |api: &str, rel: &str, witness: Value| {
        viol(ctx, case, &format!("C03|archive_index|ArchiveIndexBuilder::{api}|{rel}"), "an editing operation of ArchiveIndexBuilder disagrees with the model of what the builder holds", json!({"witness": witness, "config": cfg}));
    };
    let count = |m: &BTreeMap<Vec<u8>, Vec<Val>>| -> usize { m.values().map(Vec::len).sum() };
    let mut b = ArchiveIndexBuilder::from_archive_index(parsed);
    t.o("archive_index.edit.from_archive_index", 1);
    if b.len() != count(&model) || b.is_empty() != model.is_empty() {
        bviol("from_archive_index", "len!=parsed-index", json!({"len": b.len(), "is_empty": b.is_empty(), "expected": count(&model)}));
        return;
    }
    let max_off = (1u64 << (8 * ob as u32)) - 1;
    let mut add_calls = 0u64;
    let mut add = |b: &mut ArchiveIndexBuilder, rng: &mut Rng, key: &[u8], v: Val| {
        add_calls += 1;
        if ks == 16 && v.1 <= u64::from(u32::MAX) && rng.chance(1, 3) {
            b.add_entry_old(crate::common::k16(key), v.0, v.1 as u32);
        } else if ks == 16 && rng.bool() {
            b.add_entry_full(crate::common::k16(key), v.0, v.1);
        } else {
            b.add_entry(key.to_vec(), v.0, v.1);
        }
    };
    if clear_first {
        b.clear();
        t.o("archive_index.edit.clear", 1);
        if b.len() != 0 || !b.is_empty() || model.keys().take(8).any(|k| b.has_entry(k)) {
            bviol("clear", "entries-left", json!({"len": b.len()}));
            return;
        }
        let mut all: Vec<(Vec<u8>, Val)> = model.iter().flat_map(|(k, vs)| vs.iter().map(move |v| (k.clone(), *v))).collect();
        rng.shuffle(&mut all);
        for (k, v) in all {
            add(&mut b, rng, &k, v);
        }
    }
    // presence queries (full-length keys)
    let keys: Vec<Vec<u8>> = model.keys().cloned().collect();
    let mut n_q = 0u64;
    for k in keys.iter().step_by((keys.len() / 30).max(1)) {
        n_q += 2;
        let f = b.find_entry(k).map(entry_val);
        if !b.has_entry(k) || !f.is_some_and(|v| model[k].contains(&v)) {
            bviol("has_entry/find_entry", "present-key-not-found", json!({"key": hex::encode(k), "has_entry": b.has_entry(k), "find_entry": f}));
        }
        if let Some(a) = absent_key(rng, &model, ks) {
            if b.has_entry(&a) || b.find_entry(&a).is_some() {
                bviol("has_entry/find_entry", "absent-key-found", json!({"key": hex::encode(&a)}));
            }
        }
    }
    // removals
    let share = [0u64, 8, 4, 2][rng.usize_below(4)];
    let mut removed: Vec<Vec<u8>> = Vec::new();
    if share != 0 && !keys.is_empty() {
        let mut picks: Vec<Vec<u8>> = Vec::new();
        if rng.bool() {
            picks.push(keys[0].clone());
        }
        if rng.bool() {
            picks.push(keys[keys.len() - 1].clone());
        }
        for k in &keys {
            if rng.chance(1, share) {
                picks.push(k.clone());
            }
        }
        picks.sort_unstable();
        picks.dedup();
        rng.shuffle(&mut picks);
        for k in picks {
            let before = b.len();
            let r = if ks == 16 && rng.bool() { b.remove_entry_full(&crate::common::k16(&k)) } else { b.remove_entry(&k) };
            let had = model.remove(&k).map_or(0, |v| v.len());
            if !r || before - b.len() != had {
                bviol("remove_entry", "present-key-not-removed", json!({"key": hex::encode(&k), "returned": r, "entries_removed": before - b.len(), "entries_of_key": had}));
            }
            removed.push(k);
        }
    }
    for _ in 0..4 {
        if let Some(a) = absent_key(rng, &model, ks) {
            let before = b.len();
            if b.remove_entry(&a) || b.len() != before {
                bviol("remove_entry", "absent-key-removed-something", json!({"key": hex::encode(&a), "entries_removed": before - b.len()}));
            }
        }
    }
    // replacements (remove + add with a new value) and additions
    let mut replaced = 0u64;
    let survivors: Vec<Vec<u8>> = model.keys().cloned().collect();
    for k in &survivors {
        if rng.chance(1, 8) {
            if !b.remove_entry(k) {
                bviol("remove_entry", "present-key-not-removed", json!({"key": hex::encode(k), "returned": false}));
            }
            let v: Val = (size32_nonzero(rng), offset_of(rng, ob).min(max_off));
            add(&mut b, rng, k, v);
            model.insert(k.clone(), vec![v]);
            replaced += 1;
        }
    }
    let rpb = 4096 / (ks + 4 + ob);
    let adds = match rng.below(4) {
        0 => 0,
        1 => rng.urange(1, 3),
        2 => rng.urange(4, 40),
        _ => rng.urange(rpb / 2, rpb + 2),
    };
    let mut added = 0u64;
    for i in 0..adds {
        let k = if i == 0 && !removed.is_empty() && rng.bool() { Some(removed[0].clone()) } else { absent_key(rng, &model, ks) };
        let Some(k) = k else { continue };
        let all_zero = k.iter().all(|&x| x == 0);
        let v: Val = (size32_nonzero(rng), offset_of(rng, ob).min(max_off));
        if all_zero && v.1 == 0 && v.0 == 0 {
            continue;
        }
        if dup && rng.chance(1, 4) {
            // a second entry for a present key (find_all defines the result)
            if let Some(pk) = model.keys().next().cloned() {
                add(&mut b, rng, &pk, v);
                let e = model.entry(pk).or_default();
                e.push(v);
                e.sort_unstable();
                added += 1;
                continue;
            }
        }
        if model.contains_key(&k) {
            continue;
        }
        add(&mut b, rng, &k, v);
        model.insert(k, vec![v]);
        added += 1;
    }
    if b.len() != count(&model) || b.is_empty() != model.is_empty() {
        bviol("len", "!=model-after-edits", json!({"len": b.len(), "expected": count(&model)}));
    }
    for k in removed.iter().take(30) {
        n_q += 1;
        if b.has_entry(k) != model.contains_key(k) {
            bviol("has_entry", "!=model-after-remove", json!({"key": hex::encode(k), "in_model": model.contains_key(k)}));
        }
    }
    t.o("archive_index.edit.presence_queries", n_q);
    t.o("archive_index.edit.removed", removed.len() as u64);
    t.o("archive_index.edit.replaced", replaced);
    t.o("archive_index.edit.added", added);
    // build and write through the selected writer
    let mut buf = Cursor::new(Vec::new());
    let index = match b.build(&mut buf) {
        Ok(ix) => ix,
        Err(_) => {
            t.o("archive_index.edit.builder_refused", 1);
            return;
        }
    };
    t.o("archive_index.edit.add_calls", add_calls);
    let written: Result<Vec<u8>, String> = match path {
        0 => Ok(buf.into_inner()),
        1 => {
            let mut w = Cursor::new(Vec::new());
            index.build(&mut w).map(|()| w.into_inner()).map_err(|e| err_class(&e))
        }
        2 => <ArchiveIndex as CascFormat>::build(&index).map_err(|_| "Err".to_string()),
        _ => {
            let mut w = Cursor::new(Vec::new());
            index.write_to(&mut w).map(|()| w.into_inner()).map_err(|e| err_class(&e))
        }
    };
    let wname = ["ArchiveIndexBuilder::build", "ArchiveIndex::build", "CascFormat", "write_to"][path as usize];
    t.o(&format!("archive_index.edit.writer.{wname}"), 1);
    let bytes = match written {
        Ok(b) => b,
        Err(_) => {
            t.o("archive_index.edit.writer_refused", 1);
            return;
        }
    };
    let n = count(&model);
    let info = json!({"entries": n, "distinct_keys": model.len(), "records_per_block": rpb, "blocks": n.div_ceil(rpb), "bytes": bytes.len(), "removed": removed.len(), "replaced": replaced, "added": added, "writer": wname});
    let layout = if ks == 16 && ob == 4 { "default-layout" } else { "other-layout" };
    let reparsed = if path == 2 { <ArchiveIndex as CascFormat>::parse(&bytes).map_err(|_| "Err".to_string()) } else { ArchiveIndex::parse(Cursor::new(&bytes[..])).map_err(|e| err_class(&e)) };
    let reparsed = match reparsed {
        Ok(p) => p,
        Err(cls) => {
            viol(ctx, case, &format!("C03|archive_index|{ph}built-output-misparsed|parse-error|{layout}"), "ArchiveIndex::parse rejects the written output of an edited / re-written index", json!({"error_class": cls, "config": cfg, "info": info}));
            return;
        }
    };
    t.o("archive_index.edit.structures", 1);
    if verify_index(ctx, case, t, rng, &reparsed, &bytes, &model, ks, ob, dup, ph, &info) {
        let mut gone = 0u64;
        for k in &removed {
            if !model.contains_key(k) {
                gone += 1;
                if reparsed.binary_search_key(k).is_some() || !reparsed.find_all_key_matches(k).is_empty() {
                    viol(ctx, case, &format!("C03|archive_index|{ph}binary_search_key|removed-key-found"), "a key removed with remove_entry still resolves after rebuild", json!({"key": hex::encode(k), "config": cfg, "info": info}));
                }
            }
        }
        t.o("archive_index.edit.removed_key_probes", gone);
    }
}

type GVal = (u32, u16, u32); // size, archive index, offset

pub fn run_group(ctx: &Ctx, case: &Case, t: &mut Tally) {
    let mut rng = case.rng(ctx);
    let mode = case.s("mode").to_string();
    let n = case.u("n");
    let mut model: BTreeMap<Vec<u8>, GVal> = BTreeMap::new();
    let mut buf = Cursor::new(Vec::new());
    t.o("archive_group.structures", 1);
    let build_ok = match mode.as_str() {
        "builder" => {
            let keys = gen_keyset(&mut rng, n, 16);
            let mut b = if case.idx % 2 == 0 { ArchiveGroupBuilder::new() } else { ArchiveGroupBuilder::default() };
            for k in &keys {
                let size = size32_nonzero(&mut rng);
                let off = match rng.below(5) {
                    0 => 0,
                    1 => u32::MAX,
                    _ => rng.next_u32(),
                };
                if case.b("hash_assign") {
                    let d = md5::compute(k).0;
                    let ai = u16::from_be_bytes([d[0], d[1]]);
                    model.insert(k.clone(), (size, ai, off));
                    b.add_entry_with_hash_assignment(k.clone(), off, size);
                } else {
                    let ai = match rng.below(5) {
                        0 => 0,
                        1 => u16::MAX,
                        _ => rng.next_u32() as u16,
                    };
                    model.insert(k.clone(), (size, ai, off));
                    b.add_entry(ArchiveGroupEntry::new(k.clone(), ai, off, size));
                }
            }
            b.build(&mut buf).is_ok()
        }
        _ => {
            // several source indices with overlapping keys; the first source that has a key wins (documented de-duplication)
            let srcs = case.u("sources").max(1);
            let pool = gen_keyset(&mut rng, n, 16);
            let mut indices: Vec<(u16, ArchiveIndex)> = Vec::new();
            let mut used_ai: Vec<u16> = Vec::new();
            for s in 0..srcs {
                let mut ai = rng.next_u32() as u16;
                while used_ai.contains(&ai) {
                    ai = ai.wrapping_add(1);
                }
                used_ai.push(ai);
                let mut ib = ArchiveIndexBuilder::new();
                for (i, k) in pool.iter().enumerate() {
                    // every key is in at least one source; about a third are in several
                    let member = i % srcs == s || rng.chance(1, 3);
                    if member {
                        let size = size32_nonzero(&mut rng);
                        let off = rng.next_u32();
                        ib.add_entry(k.clone(), size, u64::from(off));
                        model.entry(k.clone()).or_insert((size, ai, off));
                    }
                }
                let mut ibuf = Cursor::new(Vec::new());
                match ib.build(&mut ibuf) {
                    Ok(ix) => indices.push((ai, ix)),
                    Err(_) => {
                        t.o("archive_group.source_builder_refused", 1);
                        return;
                    }
                }
            }
            if mode == "merged" {
                let refs: Vec<(u16, &ArchiveIndex)> = indices.iter().map(|(a, i)| (*a, i)).collect();
                build_merged(&refs, &mut buf).is_ok()
            } else {
                let mut b = ArchiveGroupBuilder::new();
                for (ai, ix) in &indices {
                    b.add_archive(*ai, ix);
                }
                b.build(&mut buf).is_ok()
            }
        }
    };
    if !build_ok {
        t.o("archive_group.builder_refused", 1);
        return;
    }
    let bytes = buf.into_inner();
    let rpb = 157usize;
    let blocks = model.len().div_ceil(rpb);
    if blocks >= 2 || model.len() % rpb <= 1 && !model.is_empty() {
        ctx.eval_nontrivial(case.hash());
    } else {
        ctx.eval();
    }
    let info = json!({"entries": model.len(), "blocks": blocks, "bytes": bytes.len(), "mode": mode});
    let group = match ArchiveGroup::parse(&mut Cursor::new(&bytes[..])) {
        Ok(g) => g,
        Err(e) => {
            viol(ctx, case, &format!("C03|archive_group|built-output-misparsed|{mode}"), "ArchiveGroup::parse rejects the output of the archive-group builder", json!({"error": e.to_string(), "error_class": err_class(&e), "info": info}));
            return;
        }
    };
    let mut scan: BTreeMap<Vec<u8>, Vec<GVal>> = BTreeMap::new();
    for e in &group.entries {
        scan.entry(e.encoding_key.clone()).or_default().push((e.size, e.archive_index, e.offset));
    }
    let same = scan.len() == model.len() && model.iter().all(|(k, v)| scan.get(k).is_some_and(|s| s.len() == 1 && s[0] == *v));
    if !same {
        let key = model.iter().find(|(k, v)| scan.get(*k).is_none_or(|s| s.len() != 1 || s[0] != **v)).map(|(k, _)| k.clone()).or_else(|| scan.keys().find(|k| !model.contains_key(*k)).cloned()).unwrap_or_default();
        viol(ctx, case, &format!("C03|archive_group|built-output-misparsed|{mode}"), "entries of the parsed archive group differ from what was inserted", json!({"key": hex::encode(&key), "inserted": model.get(&key), "parsed": scan.get(&key), "parsed_entries": group.entries.len(), "info": info}));
        return;
    }
    // second parser over the same bytes: the generic index with TOC search
    let index = ArchiveIndex::parse(Cursor::new(&bytes[..])).ok();
    // the 6-byte composite offset of a parsed entry splits back into the inserted (archive, offset) pair, and the
    // generic parser yields exactly the entry `IndexEntry::new_archive_group` makes of the inserted values
    let step = (group.entries.len() / 300).max(1);
    let mut n_id = 0u64;
    for e in group.entries.iter().step_by(step) {
        let Some(&(size, ai, off)) = model.get(&e.encoding_key) else { continue };
        n_id += 1;
        let split = ArchiveGroupEntry::parse_combined_offset(&e.combined_offset()).ok();
        if split != Some((ai, off)) {
            viol(ctx, case, "C03|archive_group|combined_offset+parse_combined_offset|!=inserted", "the 6-byte composite offset of a parsed entry does not split back into the inserted archive index and offset", json!({"key": hex::encode(&e.encoding_key), "expected": [u64::from(ai), u64::from(off)], "got": split.map(|(a, o)| [u64::from(a), u64::from(o)]), "info": info}));
        }
        if let Some(ix) = &index {
            let want = IndexEntry::new_archive_group(e.encoding_key.clone(), size, ai, off);
            if ix.binary_search_key(&e.encoding_key) != Some(&want) {
                viol(ctx, case, "C03|archive_group|ArchiveIndex::parse|entry!=new_archive_group(inserted)", "the generic index parser reads an archive-group record differently from the inserted values", json!({"key": hex::encode(&e.encoding_key), "info": info}));
            }
        }
    }
    t.o("archive_group.composite_offset_identities", n_id);
    let mut inserted: Vec<Vec<u8>> = model.keys().cloned().collect();
    if inserted.len() > 3000 {
        rng.shuffle(&mut inserted);
        // keep block-boundary keys: first and last of the sorted set are re-added by neg_probes' min/max handling
        inserted.truncate(3000);
    }
    let mut probes = inserted.clone();
    probes.extend(neg_probes(&mut rng, &inserted, 16));
    rng.shuffle(&mut probes);
    let mut lookups = 0u64;
    for p in &probes {
        let expect = model.get(p).copied();
        let got = group.find_entry(p).map(|e| (e.size, e.archive_index, e.offset));
        lookups += 1;
        if got != expect {
            let rel = match (expect.is_some(), got.is_some()) {
                (true, false) => "inserted-key-not-found",
                (false, true) => "absent-key-found",
                _ => "wrong-value",
            };
            viol(ctx, case, &format!("C03|archive_group|find_entry|{rel}|{mode}"), "ArchiveGroup::find_entry disagrees with the inserted mapping", json!({"key": hex::encode(p), "expected": expect, "got": got, "info": info}));
        }
        if let Some(ix) = &index {
            let g2 = ix.binary_search_key(p).map(|e| (e.size, e.archive_index.unwrap_or(0), e.offset as u32));
            lookups += 1;
            if g2 != expect {
                let rel = match (expect.is_some(), g2.is_some()) {
                    (true, false) => "inserted-key-not-found",
                    (false, true) => "absent-key-found",
                    _ => "wrong-value",
                };
                viol(ctx, case, &format!("C03|archive_group|ArchiveIndex::binary_search_key|{rel}|{mode}"), "TOC binary search over the archive-group bytes disagrees with the inserted mapping", json!({"key": hex::encode(p), "expected": expect, "got": g2, "info": info}));
            }
        }
    }
    t.o("archive_group.lookups", lookups);
    t.o("archive_group.entries_inserted", model.len() as u64);
    t.o(&format!("archive_group.mode.{mode}"), 1);
}
