//! Root manifest V1-V4: RootBuilder -> bytes -> RootFile::parse -> resolve_by_id / resolve_by_hash /
//! resolve_by_path / get_entries_* vs model and a linear scan over the parsed blocks.

use crate::common::{Case, Tally, viol};
use cascette_crypto::{ContentKey, FileDataId};
use cascette_formats::root::{ContentFlags, LocaleFlags, RootBuilder, RootFile, RootVersion, calculate_name_hash};
use serde_json::{Value, json};
use std::collections::{BTreeMap, BTreeSet};
use vh::{Ctx, Rng};

pub const LOCALE_BITS: [u32; 16] = [
    0x1, 0x2, 0x4, 0x10, 0x20, 0x40, 0x80, 0x100, 0x200, 0x400, 0x800, 0x1000, 0x2000, 0x4000, 0x8000, 0x1_0000,
];
const CONTENT_BITS: [u64; 13] = [
    ContentFlags::INSTALL,
    ContentFlags::LOAD_ON_WINDOWS,
    ContentFlags::LOAD_ON_MACOS,
    ContentFlags::X86_32,
    ContentFlags::X86_64,
    ContentFlags::LOW_VIOLENCE,
    ContentFlags::DO_NOT_LOAD,
    ContentFlags::UPDATE_PLUGIN,
    ContentFlags::ARM64,
    ContentFlags::ENCRYPTED,
    ContentFlags::UNCOMMON_RESOLUTION,
    ContentFlags::BUNDLE,
    ContentFlags::NO_COMPRESSION,
];

pub fn version_of(s: &str) -> RootVersion {
    match s {
        "V1" => RootVersion::V1,
        "V2" => RootVersion::V2,
        "V3" => RootVersion::V3,
        _ => RootVersion::V4,
    }
}

pub fn cases(quick: bool) -> Vec<Case> {
    let mut v = Vec::new();
    let mut idx = 0u64;
    let mut push = |p: Value| {
        v.push(Case::new("root", idx, p));
        idx += 1;
    };
    let totals: Vec<usize> = if quick { (0..=20).chain([31, 32, 33, 50, 64, 98, 99, 100, 101, 128, 150, 255, 256, 300]).collect() } else { (0..=120).chain([128, 150, 199, 200, 255, 256, 257, 299, 300]).collect() };
    let reps = if quick { 12 } else { 40 };
    for _rep in 0..reps {
    for ver in ["V1", "V2", "V3", "V4"] {
        for &total in &totals {
            for named in ["all", "none", "1..4", "5..9", "ge10"] {
                if ver == "V1" && named != "all" {
                    continue; // V1 records always carry a name hash
                }
                for layout in ["single", "multi"] {
                    push(json!({"version":ver,"total":total,"named":named,"layout":layout}));
                }
            }
        }
    }
    }
    v
}

#[derive(Clone, Debug, PartialEq, Eq, PartialOrd, Ord)]
pub struct Rec {
    pub fdid: u32,
    pub ckey: [u8; 16],
    pub hash: Option<u64>,
    pub locale: u32,
    pub content: u64,
}

pub struct Built {
    pub bytes: Vec<u8>,
    pub recs: Vec<Rec>,
    /// path strings given to `add_file` (record index -> path)
    pub paths: BTreeMap<usize, String>,
    pub blocks: Vec<(u32, u64)>,
    pub named_count: usize,
}

fn gen_path(rng: &mut Rng, i: usize, normalized: bool) -> String {
    let dirs = ["Interface", "World", "Sound", "DBFilesClient", "Creature", "interface/AddOns", "world/maps/Azeroth"];
    let exts = ["blp", "m2", "db2", "ogg", "wdt"];
    let sep = if rng.bool() { "/" } else { "\\" };
    let p = format!("{}{sep}Icons{sep}File_{i}_{:x}.{}", rng.pick(&dirs), rng.next_u32(), rng.pick(&exts));
    if normalized { p.to_uppercase().replace('/', "\\") } else { p }
}

/// Build a root manifest. `named`: "all" | "none" | "1..4" | "5..9" | "ge10". `layout`: "single" (every
/// FileDataID in exactly one block) | "multi" (some FileDataIDs in two blocks with disjoint locale masks).
pub fn build_root(rng: &mut Rng, version: RootVersion, total: usize, named: &str, layout: &str, normalized_paths: bool) -> Option<Built> {
    let v1 = version == RootVersion::V1;
    let named_target = match named {
        _ if v1 => total,
        "all" => total,
        "none" => 0,
        "1..4" => rng.urange(1, 4).min(total),
        "5..9" => rng.urange(5, 9).min(total),
        _ => if total >= 10 { rng.urange(10, total) } else { total },
    };
    let unnamed_target = total - named_target;
    // block layout: named blocks then unnamed blocks, each with its own exclusive locale bits
    let nb_named = if named_target == 0 { 0 } else { rng.urange(1, 2).min(named_target) };
    let nb_unnamed = if unnamed_target == 0 { 0 } else { rng.urange(1, 2).min(unnamed_target) };
    let mut lbits = LOCALE_BITS.to_vec();
    rng.shuffle(&mut lbits);
    let mut blocks: Vec<(u32, u64)> = Vec::new();
    for b in 0..nb_named + nb_unnamed {
        let take = rng.urange(1, 3);
        let mut loc = 0u32;
        for _ in 0..take {
            if let Some(x) = lbits.pop() {
                loc |= x;
            }
        }
        let mut content = 0u64;
        for _ in 0..rng.urange(0, 3) {
            content |= *rng.pick(&CONTENT_BITS);
        }
        if version == RootVersion::V4 && rng.bool() {
            content |= 1u64 << rng.urange(32, 39);
        }
        if b >= nb_named && !v1 {
            content |= ContentFlags::NO_NAME_HASH;
        }
        blocks.push((loc, content));
    }
    // FileDataIDs ascending with assorted gaps
    let mut fdids: Vec<u32> = Vec::with_capacity(total);
    let mut cur: u64 = match rng.below(10) {
        0 | 1 => 0,
        2 => 1,
        // ids around the sign bit of the 32-bit delta encoding and in the upper half of the id space
        3 => 0x8000_0000 - rng.below(600),
        4 => 0x8000_0000,
        5 => 0x7fff_ffff,
        6 => 0xf000_0000 + rng.below(1_000_000),
        _ => rng.below(5_000_000),
    };
    for _ in 0..total {
        fdids.push(cur as u32);
        cur += match rng.below(6) {
            0 | 1 => 1,
            2 => 2,
            3 => rng.range(3, 300),
            4 => rng.range(300, 100_000),
            _ => 1,
        };
    }
    if total > 0 && rng.chance(1, 8) {
        // largest representable id
        let last = total - 1;
        if fdids[..last].iter().all(|&f| f != u32::MAX) {
            fdids[last] = u32::MAX;
        }
    }
    let mut recs: Vec<Rec> = Vec::new();
    let mut paths: BTreeMap<usize, String> = BTreeMap::new();
    let mut builder = RootBuilder::new(version);
    let mut order: Vec<usize> = (0..total).collect();
    rng.shuffle(&mut order);
    let mut used_hashes: BTreeSet<u64> = BTreeSet::new();
    // which records are named: the first `named_target` of a shuffled order
    let mut is_named = vec![false; total];
    for &i in order.iter().take(named_target) {
        is_named[i] = true;
    }
    rng.shuffle(&mut order);
    for &i in &order {
        let named_rec = is_named[i];
        let block = if named_rec { rng.usize_below(nb_named) } else { nb_named + rng.usize_below(nb_unnamed) };
        let (loc, content) = blocks[block];
        let ckey: [u8; 16] = match rng.below(12) {
            0 => [0u8; 16],
            1 => [0xff; 16],
            _ => rng.array::<16>(),
        };
        let mut second: Option<(usize, [u8; 16])> = None;
        if layout == "multi" && rng.chance(1, 3) {
            // same FileDataID in another block of the same kind (named/unnamed) -> disjoint locale masks
            let (lo, hi) = if named_rec { (0, nb_named) } else { (nb_named, nb_named + nb_unnamed) };
            if hi - lo >= 2 {
                let other = lo + (block - lo + 1) % (hi - lo);
                second = Some((other, rng.array::<16>()));
            }
        }
        let fdid = fdids[i];
        let hash: Option<u64> = if named_rec {
            if rng.chance(3, 4) {
                let mut p = gen_path(rng, i, normalized_paths);
                let mut h = calculate_name_hash(&p);
                while !used_hashes.insert(h) {
                    p.push('x');
                    h = calculate_name_hash(&p);
                }
                paths.insert(recs.len(), p.clone());
                builder.add_file(FileDataId::new(fdid), ContentKey::from_bytes(ckey), Some(&p), LocaleFlags::new(loc), ContentFlags::new(content));
                Some(h)
            } else {
                let mut h = match rng.below(6) {
                    0 => 0,
                    1 => u64::MAX,
                    _ => rng.next_u64(),
                };
                while !used_hashes.insert(h) {
                    h = rng.next_u64();
                }
                builder.add_file_with_hash(FileDataId::new(fdid), ContentKey::from_bytes(ckey), Some(h), LocaleFlags::new(loc), ContentFlags::new(content));
                Some(h)
            }
        } else {
            builder.add_file(FileDataId::new(fdid), ContentKey::from_bytes(ckey), None, LocaleFlags::new(loc), ContentFlags::new(content));
            None
        };
        recs.push(Rec { fdid, ckey, hash, locale: loc, content });
        if let Some((ob, ck2)) = second {
            let (l2, c2) = blocks[ob];
            builder.add_file_with_hash(FileDataId::new(fdid), ContentKey::from_bytes(ck2), hash, LocaleFlags::new(l2), ContentFlags::new(c2));
            recs.push(Rec { fdid, ckey: ck2, hash, locale: l2, content: c2 });
        }
    }
    let named_count = recs.iter().filter(|r| r.hash.is_some()).count();
    match builder.build() {
        Ok(bytes) => Some(Built { bytes, recs, paths, blocks, named_count }),
        Err(_) => None,
    }
}

fn bucket_total(n: usize) -> &'static str {
    match n {
        0..=15 => "lt16",
        16..=99 => "16..99",
        _ => "ge100",
    }
}
fn bucket_named(n: usize) -> &'static str {
    match n {
        0 => "0",
        1..=4 => "1..4",
        5..=9 => "5..9",
        _ => "ge10",
    }
}

fn matches(locale: u32, content: u64, ql: u32, qc: u64) -> bool {
    (locale & ql) != 0 && (content & qc) == qc
}

pub fn run(ctx: &Ctx, case: &Case, t: &mut Tally) {
    let mut rng = case.rng(ctx);
    let ver_s = case.s("version").to_string();
    let version = version_of(&ver_s);
    let total = case.u("total");
    t.o("root.structures", 1);
    let Some(built) = build_root(&mut rng, version, total, case.s("named"), case.s("layout"), false) else {
        t.o("root.builder_refused", 1);
        return;
    };
    let n_records = built.recs.len();
    let class = format!("{ver_s}|total_files={}|named_files={}", bucket_total(n_records), bucket_named(built.named_count));
    let info = json!({"records": n_records, "named": built.named_count, "blocks": built.blocks.len(), "bytes": built.bytes.len(), "header_hex": hex::encode(&built.bytes[..built.bytes.len().min(24)])});
    if built.blocks.len() >= 2 || (16..100).contains(&n_records) {
        ctx.eval_nontrivial(case.hash());
    } else {
        ctx.eval();
    }
    t.o(&format!("root.version.{ver_s}"), 1);
    t.o(&format!("root.total.{}", bucket_total(n_records)), 1);
    let parsed = match RootFile::parse(&built.bytes) {
        Ok(p) => p,
        Err(e) => {
            viol(ctx, case, &format!("C03|root|built-output-misparsed|{class}"), "RootFile::parse rejects (or misreads) the output of RootBuilder", json!({"error": e.to_string(), "info": info}));
            return;
        }
    };
    // level 1: linear scan over parsed blocks == inserted records
    let mut scan: Vec<Rec> = Vec::new();
    for b in &parsed.blocks {
        for r in &b.records {
            scan.push(Rec { fdid: r.file_data_id.get(), ckey: *r.content_key.as_bytes(), hash: r.name_hash, locale: b.locale_flags().value(), content: b.content_flags().value });
        }
    }
    let mut a = scan.clone();
    a.sort();
    let mut m = built.recs.clone();
    m.sort();
    if a != m {
        let first = m.iter().find(|r| !a.contains(r));
        viol(ctx, case, &format!("C03|root|built-output-misparsed|{class}"), "records of the parsed root manifest differ from what was inserted", json!({"parsed_version": format!("{:?}", parsed.version), "parsed_records": a.len(), "first_missing": first.map(|r| json!({"fdid": r.fdid, "ckey": hex::encode(r.ckey), "hash": r.hash, "locale": r.locale, "content": r.content})), "info": info}));
        return;
    }
    // level 2
    let mut by_fdid: BTreeMap<u32, Vec<&Rec>> = BTreeMap::new();
    let mut by_hash: BTreeMap<u64, Vec<&Rec>> = BTreeMap::new();
    for r in &built.recs {
        by_fdid.entry(r.fdid).or_default().push(r);
        if let Some(h) = r.hash {
            by_hash.entry(h).or_default().push(r);
        }
    }
    let used_locales: u32 = built.blocks.iter().fold(0, |a, b| a | b.0);
    let free_locale = LOCALE_BITS.iter().copied().find(|b| used_locales & b == 0).unwrap_or(0x8000_0000);
    let mut lookups = 0u64;
    let queries = |r: &Rec, rng: &mut Rng| -> Vec<(u32, u64)> {
        let one_l = LOCALE_BITS.iter().copied().filter(|b| r.locale & b != 0).last().unwrap_or(r.locale);
        let one_c = (0..40).map(|i| 1u64 << i).find(|b| r.content & b != 0).unwrap_or(0);
        let absent_c = CONTENT_BITS.iter().copied().find(|b| r.content & b == 0).unwrap_or(1 << 20);
        let other = *rng.pick(&LOCALE_BITS);
        vec![(r.locale, 0), (LocaleFlags::ALL, 0), (one_l, r.content), (one_l, one_c), (free_locale, 0), (r.locale, absent_c), (other, 0), (r.locale | free_locale, r.content), (r.locale, r.content | absent_c), (LocaleFlags::ALL, r.content | absent_c)]
    };
    let check = |ctx: &Ctx, api: &str, keydesc: Value, cands: Option<&Vec<&Rec>>, ql: u32, qc: u64, got: Option<[u8; 16]>| {
        let acceptable: Vec<[u8; 16]> = cands.map(|v| v.iter().filter(|r| matches(r.locale, r.content, ql, qc)).map(|r| r.ckey).collect()).unwrap_or_default();
        let ok = match got {
            None => acceptable.is_empty(),
            Some(k) => acceptable.contains(&k),
        };
        if !ok {
            let rel = match (acceptable.is_empty(), got.is_some()) {
                (false, false) => "inserted-key-not-found",
                (true, true) => "absent-key-found",
                _ => "wrong-value",
            };
            viol(ctx, case, &format!("C03|root|{api}|{rel}|{class}"), "root lookup disagrees with the inserted records (first entry whose flags match)", json!({"key": keydesc, "query_locale": ql, "query_content": qc, "acceptable": acceptable.iter().map(hex::encode).collect::<Vec<_>>(), "got": got.map(hex::encode), "info": info}));
        }
    };
    for (i, r) in built.recs.iter().enumerate() {
        for (ql, qc) in queries(r, &mut rng) {
            let got = parsed.resolve_by_id(FileDataId::new(r.fdid), LocaleFlags::new(ql), ContentFlags::new(qc)).map(|k| *k.as_bytes());
            lookups += 1;
            check(ctx, "resolve_by_id", json!({"fdid": r.fdid}), by_fdid.get(&r.fdid), ql, qc, got);
            if let Some(h) = r.hash {
                let got = parsed.resolve_by_hash(h, LocaleFlags::new(ql), ContentFlags::new(qc)).map(|k| *k.as_bytes());
                lookups += 1;
                check(ctx, "resolve_by_hash", json!({"hash": h}), by_hash.get(&h), ql, qc, got);
            }
            if let Some(p) = built.paths.get(&i) {
                let got = parsed.resolve_by_path(p, LocaleFlags::new(ql), ContentFlags::new(qc)).map(|k| *k.as_bytes());
                lookups += 1;
                check(ctx, "resolve_by_path", json!({"path": p}), r.hash.and_then(|h| by_hash.get(&h)), ql, qc, got);
            }
        }
        // all entries of the id
        let mut got: Vec<([u8; 16], u32, u64)> = parsed.get_entries_by_id(FileDataId::new(r.fdid)).map(|v| v.iter().map(|e| (*e.content_key.as_bytes(), e.locale_flags.value(), e.content_flags.value)).collect()).unwrap_or_default();
        got.sort_unstable();
        let mut exp: Vec<([u8; 16], u32, u64)> = by_fdid.get(&r.fdid).map(|v| v.iter().map(|r| (r.ckey, r.locale, r.content)).collect()).unwrap_or_default();
        exp.sort_unstable();
        lookups += 1;
        if got != exp {
            viol(ctx, case, &format!("C03|root|get_entries_by_id|!=inserted|{class}"), "get_entries_by_id differs from the inserted entries of the FileDataID", json!({"fdid": r.fdid, "expected": exp.len(), "got": got.len(), "info": info}));
        }
        if let Some(p) = built.paths.get(&i) {
            let n_got = parsed.get_entries_by_path(p).map_or(0, Vec::len);
            let n_exp = r.hash.and_then(|h| by_hash.get(&h)).map_or(0, Vec::len);
            lookups += 1;
            if n_got != n_exp {
                viol(ctx, case, &format!("C03|root|get_entries_by_path|!=inserted|{class}"), "get_entries_by_path differs from the inserted entries of the path", json!({"path": p, "expected": n_exp, "got": n_got, "info": info}));
            }
        }
    }
    // negative probes: neighbours of inserted ids and hashes, random ids/hashes/paths
    let mut neg_ids: Vec<u32> = Vec::new();
    for r in built.recs.iter().take(200) {
        neg_ids.push(r.fdid.wrapping_add(1));
        neg_ids.push(r.fdid.wrapping_sub(1));
    }
    neg_ids.extend([0, 1, u32::MAX, rng.next_u32(), rng.next_u32()]);
    for id in neg_ids {
        for (ql, qc) in [(LocaleFlags::ALL, 0u64), (used_locales.max(1), 0)] {
            let got = parsed.resolve_by_id(FileDataId::new(id), LocaleFlags::new(ql), ContentFlags::new(qc)).map(|k| *k.as_bytes());
            lookups += 1;
            check(ctx, "resolve_by_id", json!({"fdid": id, "probe": "negative"}), by_fdid.get(&id), ql, qc, got);
        }
        let present = parsed.get_entries_by_id(FileDataId::new(id)).is_some_and(|v| !v.is_empty());
        if present != by_fdid.contains_key(&id) {
            viol(ctx, case, &format!("C03|root|get_entries_by_id|presence-differs|{class}"), "get_entries_by_id reports entries for an id that was not inserted (or none for one that was)", json!({"fdid": id, "info": info}));
        }
    }
    let mut neg_hashes: Vec<u64> = Vec::new();
    for r in built.recs.iter().filter_map(|r| r.hash).take(200) {
        neg_hashes.push(r.wrapping_add(1));
        neg_hashes.push(r.wrapping_sub(1));
        neg_hashes.push(r.swap_bytes());
    }
    neg_hashes.extend([0, u64::MAX, rng.next_u64()]);
    for h in neg_hashes {
        let got = parsed.resolve_by_hash(h, LocaleFlags::new(LocaleFlags::ALL), ContentFlags::new(0)).map(|k| *k.as_bytes());
        lookups += 1;
        check(ctx, "resolve_by_hash", json!({"hash": h, "probe": "negative"}), by_hash.get(&h), LocaleFlags::ALL, 0, got);
    }
    for (i, p) in built.paths.iter().take(100) {
        for variant in [format!("{p}.bak"), p[..p.len() - 1].to_string(), format!("x{p}")] {
            let h = calculate_name_hash(&variant);
            let got = parsed.resolve_by_path(&variant, LocaleFlags::new(LocaleFlags::ALL), ContentFlags::new(0)).map(|k| *k.as_bytes());
            lookups += 1;
            check(ctx, "resolve_by_path", json!({"path": variant, "probe": "negative", "of_record": i}), by_hash.get(&h), LocaleFlags::ALL, 0, got);
        }
    }
    let (nf, nn) = parsed.lookup_stats();
    if nf != by_fdid.len() || nn != by_hash.len() {
        viol(ctx, case, &format!("C03|root|lookup_stats|!=inserted|{class}"), "lookup tables hold a different number of ids / name hashes than inserted", json!({"fdid_count": nf, "name_count": nn, "expected": [by_fdid.len(), by_hash.len()], "info": info}));
    }
    t.o("root.lookups", lookups);
    t.o("root.records_inserted", n_records as u64);
    if ctx.want_sample() && built.blocks.len() >= 3 {
        ctx.sample(json!({"family":"root","params":case.params,"info":info}));
    }
}
