//! Root manifest V1-V4: RootBuilder -> bytes -> RootFile::parse -> resolve_by_id / resolve_by_hash /
//! resolve_by_path / get_entries_* vs model and a linear scan over the parsed blocks.

use crate::common::{Case, Tally, viol};
use cascette_crypto::{ContentKey, FileDataId};
use cascette_formats::CascFormat;
use cascette_formats::root::{ContentFlags, LocaleFlags, RootBuilder, RootFile, RootHeader, RootHeaderInfo, RootMagic, RootVersion, calculate_name_hash};
use serde_json::{Value, json};
use std::collections::{BTreeMap, BTreeSet};
use vh::{Ctx, Rng};

pub const LOCALE_BITS: [u32; 16] = [
    0x1, 0x2, 0x4, 0x10, 0x20, 0x40, 0x80, 0x100, 0x200, 0x400, 0x800, 0x1000, 0x2000, 0x4000, 0x8000, 0x1_0000,
];
const CONTENT_BITS: [u64; 13] = [
    ContentFlags::INSTALL,
    ContentFlags::LOAD_ON_WINDOWS,
    ContentFlags::LOAD_ON_MACOS,
    ContentFlags::X86_32,
    ContentFlags::X86_64,
    ContentFlags::LOW_VIOLENCE,
    ContentFlags::DO_NOT_LOAD,
    ContentFlags::UPDATE_PLUGIN,
    ContentFlags::ARM64,
    ContentFlags::ENCRYPTED,
    ContentFlags::UNCOMMON_RESOLUTION,
    ContentFlags::BUNDLE,
    ContentFlags::NO_COMPRESSION,
];

pub fn version_of(s: &str) -> RootVersion {
    match s {
        "V1" => RootVersion::V1,
        "V2" => RootVersion::V2,
        "V3" => RootVersion::V3,
        _ => RootVersion::V4,
    }
}

pub fn cases(quick: bool) -> Vec<Case> {
    let mut v = Vec::new();
    let mut idx = 0u64;
    let mut push = |p: Value| {
        v.push(Case::new("root", idx, p));
        idx += 1;
    };
    let totals: Vec<usize> = if quick { (0..=20).chain([31, 32, 33, 50, 64, 98, 99, 100, 101, 128, 150, 255, 256, 300]).collect() } else { (0..=120).chain([128, 150, 199, 200, 255, 256, 257, 299, 300]).collect() };
    let reps = if quick { 12 } else { 40 };
    for _rep in 0..reps {
    for ver in ["V1", "V2", "V3", "V4"] {
        for &total in &totals {
            for named in ["all", "none", "1..4", "5..9", "ge10"] {
                if ver == "V1" && named != "all" {
                    continue; // V1 records always carry a name hash
                }
                for layout in ["single", "multi"] {
                    push(json!({"version":ver,"total":total,"named":named,"layout":layout}));
                }
            }
        }
    }
    }
    v
}

#[derive(Clone, Debug, PartialEq, Eq, PartialOrd, Ord)]
pub struct Rec {
    pub fdid: u32,
    pub ckey: [u8; 16],
    pub hash: Option<u64>,
    pub locale: u32,
    pub content: u64,
}

pub struct Built {
    pub bytes: Vec<u8>,
    pub recs: Vec<Rec>,
    /// path strings given to `add_file` (record index -> path)
    pub paths: BTreeMap<usize, String>,
    pub blocks: Vec<(u32, u64)>,
    pub named_count: usize,
}

fn gen_path(rng: &mut Rng, i: usize, normalized: bool) -> String {
    let dirs = ["Interface", "World", "Sound", "DBFilesClient", "Creature", "interface/AddOns", "world/maps/Azeroth"];
    let exts = ["blp", "m2", "db2", "ogg", "wdt"];
    let sep = if rng.bool() { "/" } else { "\\" };
    let p = format!("{}{sep}Icons{sep}File_{i}_{:x}.{}", rng.pick(&dirs), rng.next_u32(), rng.pick(&exts));
    if normalized { p.to_uppercase().replace('/', "\\") } else { p }
}

/// Build a root manifest. `named`: "all" | "none" | "1..4" | "5..9" | "ge10". `layout`: "single" (every
/// FileDataID in exactly one block) | "multi" (some FileDataIDs in two blocks with disjoint locale masks).
pub fn build_root(rng: &mut Rng, version: RootVersion, total: usize, named: &str, layout: &str, normalized_paths: bool) -> Option<Built> {
    let v1 = version == RootVersion::V1;
    let named_target = match named {
        _ if v1 => total,
        "all" => total,
        "none" => 0,
        "1..4" => rng.urange(1, 4).min(total),
        "5..9" => rng.urange(5, 9).min(total),
        _ => if total >= 10 { rng.urange(10, total) } else { total },
    };
    let unnamed_target = total - named_target;
    // block layout: named blocks then unnamed blocks, each with its own exclusive locale bits
    let nb_named = if named_target == 0 { 0 } else { rng.urange(1, 2).min(named_target) };
    let nb_unnamed = if unnamed_target == 0 { 0 } else { rng.urange(1, 2).min(unnamed_target) };
    let mut lbits = LOCALE_BITS.to_vec();
    rng.shuffle(&mut lbits);
    let hash_array_for_unnamed = rng.chance(1, 4);
    let mut blocks: Vec<(u32, u64)> = Vec::new();
    for b in 0..nb_named + nb_unnamed {
        let take = rng.urange(1, 3);
        let mut loc = 0u32;
        for _ in 0..take {
            if let Some(x) = lbits.pop() {
                loc |= x;
            }
        }
        let mut content = 0u64;
        for _ in 0..rng.urange(0, 3) {
            content |= *rng.pick(&CONTENT_BITS);
        }
        if version == RootVersion::V4 && rng.bool() {
            content |= 1u64 << rng.urange(32, 39);
        }
        // blocks of files that were added without a path normally carry NO_NAME_HASH; in one build out of four they do
        // not (the caller chooses the content flags): the block then has a name-hash array although none of its files
        // has a name, also when the whole manifest has no named file
        if b >= nb_named && !v1 && !hash_array_for_unnamed {
            content |= ContentFlags::NO_NAME_HASH;
        }
        blocks.push((loc, content));
    }
    // FileDataIDs ascending with assorted gaps
    let mut fdids: Vec<u32> = Vec::with_capacity(total);
    let mut cur: u64 = match rng.below(10) {
        0 | 1 => 0,
        2 => 1,
        // ids around the sign bit of the 32-bit delta encoding and in the upper half of the id space
        3 => 0x8000_0000 - rng.below(600),
        4 => 0x8000_0000,
        5 => 0x7fff_ffff,
        6 => 0xf000_0000 + rng.below(1_000_000),
        _ => rng.below(5_000_000),
    };
    for _ in 0..total {
        fdids.push(cur as u32);
        cur += match rng.below(6) {
            0 | 1 => 1,
            2 => 2,
            3 => rng.range(3, 300),
            4 => rng.range(300, 100_000),
            _ => 1,
        };
    }
    if total > 0 && rng.chance(1, 8) {
        // largest representable id
        let last = total - 1;
        if fdids[..last].iter().all(|&f| f != u32::MAX) {
            fdids[last] = u32::MAX;
        }
    }
    let mut recs: Vec<Rec> = Vec::new();
    let mut paths: BTreeMap<usize, String> = BTreeMap::new();
    let mut builder = RootBuilder::new(version);
    let mut order: Vec<usize> = (0..total).collect();
    rng.shuffle(&mut order);
    let mut used_hashes: BTreeSet<u64> = BTreeSet::new();
    // which records are named: the first `named_target` of a shuffled order
    let mut is_named = vec![false; total];
    for &i in order.iter().take(named_target) {
        is_named[i] = true;
    }
    rng.shuffle(&mut order);
    for &i in &order {
        let named_rec = is_named[i];
        let block = if named_rec { rng.usize_below(nb_named) } else { nb_named + rng.usize_below(nb_unnamed) };
        let (loc, content) = blocks[block];
        let ckey: [u8; 16] = match rng.below(12) {
            0 => [0u8; 16],
            1 => [0xff; 16],
            _ => rng.array::<16>(),
        };
        let mut second: Option<(usize, [u8; 16])> = None;
        if layout == "multi" && rng.chance(1, 3) {
            // same FileDataID in another block of the same kind (named/unnamed) -> disjoint locale masks
            let (lo, hi) = if named_rec { (0, nb_named) } else { (nb_named, nb_named + nb_unnamed) };
            if hi - lo >= 2 {
                let other = lo + (block - lo + 1) % (hi - lo);
                second = Some((other, rng.array::<16>()));
            }
        }
        let fdid = fdids[i];
        let hash: Option<u64> = if named_rec {
            if rng.chance(3, 4) {
                let mut p = gen_path(rng, i, normalized_paths);
                let mut h = calculate_name_hash(&p);
                while !used_hashes.insert(h) {
                    p.push('x');
                    h = calculate_name_hash(&p);
                }
                paths.insert(recs.len(), p.clone());
                builder.add_file(FileDataId::new(fdid), ContentKey::from_bytes(ckey), Some(&p), LocaleFlags::new(loc), ContentFlags::new(content));
                Some(h)
            } else {
                let mut h = match rng.below(6) {
                    0 => 0,
                    1 => u64::MAX,
                    _ => rng.next_u64(),
                };
                while !used_hashes.insert(h) {
                    h = rng.next_u64();
                }
                builder.add_file_with_hash(FileDataId::new(fdid), ContentKey::from_bytes(ckey), Some(h), LocaleFlags::new(loc), ContentFlags::new(content));
                Some(h)
            }
        } else {
            builder.add_file(FileDataId::new(fdid), ContentKey::from_bytes(ckey), None, LocaleFlags::new(loc), ContentFlags::new(content));
            None
        };
        recs.push(Rec { fdid, ckey, hash, locale: loc, content });
        if let Some((ob, ck2)) = second {
            let (l2, c2) = blocks[ob];
            builder.add_file_with_hash(FileDataId::new(fdid), ContentKey::from_bytes(ck2), hash, LocaleFlags::new(l2), ContentFlags::new(c2));
            recs.push(Rec { fdid, ckey: ck2, hash, locale: l2, content: c2 });
        }
    }
    let named_count = recs.iter().filter(|r| r.hash.is_some()).count();
    match builder.build() {
        Ok(bytes) => Some(Built { bytes, recs, paths, blocks, named_count }),
        Err(_) => None,
    }
}

fn bucket_total(n: usize) -> &'static str {
    match n {
        0..=15 => "lt16",
        16..=99 => "16..99",
        _ => "ge100",
    }
}
fn bucket_named(n: usize) -> &'static str {
    match n {
        0 => "0",
        1..=4 => "1..4",
        5..=9 => "5..9",
        _ => "ge10",
    }
}

fn matches(locale: u32, content: u64, ql: u32, qc: u64) -> bool {
    (locale & ql) != 0 && (content & qc) == qc
}

pub fn run(ctx: &Ctx, case: &Case, t: &mut Tally) {
    let mut rng = case.rng(ctx);
    let ver_s = case.s("version").to_string();
    let version = version_of(&ver_s);
    let total = case.u("total");
    t.o("root.structures", 1);
    let Some(built) = build_root(&mut rng, version, total, case.s("named"), case.s("layout"), false) else {
        t.o("root.builder_refused", 1);
        return;
    };
    let n_records = built.recs.len();
    let class = format!("{ver_s}|total_files={}|named_files={}", bucket_total(n_records), bucket_named(built.named_count));
    let info = json!({"records": n_records, "named": built.named_count, "blocks": built.blocks.len(), "bytes": built.bytes.len(), "header_hex": hex::encode(&built.bytes[..built.bytes.len().min(24)])});
    if built.blocks.len() >= 2 || (16..100).contains(&n_records) {
        ctx.eval_nontrivial(case.hash());
    } else {
        ctx.eval();
    }
    t.o(&format!("root.version.{ver_s}"), 1);
    t.o(&format!("root.total.{}", bucket_total(n_records)), 1);
    let parsed = match RootFile::parse(&built.bytes) {
        Ok(p) => p,
        Err(e) => {
            viol(ctx, case, &format!("C03|root|built-output-misparsed|{class}"), "RootFile::parse rejects (or misreads) the output of RootBuilder", json!({"error": e.to_string(), "info": info}));
            return;
        }
    };
    if !verify_root(ctx, case, t, &mut rng, &parsed, &built.recs, &built.paths, &class, "", &info) {
        return;
    }
    if ctx.want_sample() && built.blocks.len() >= 3 {
        ctx.sample(json!({"family":"root","params":case.params,"info":info}));
    }
    if case.idx % ROOT_EXT_EVERY == 0 {
        extend_root(ctx, case, t, &mut rng, version, parsed, &built);
    }
}

/// The listed header ambiguity keeps its one signature whatever path produced the manifest.
fn misparse_sig(ph: &str, class: &str) -> String {
    if class == "V2|total_files=16..99|named_files=1..4" { format!("C03|root|built-output-misparsed|{class}") } else { format!("C03|root|{ph}built-output-misparsed|{class}") }
}

/// Level 1 (linear scan over the parsed blocks == inserted records) and level 2 (every lookup flavour vs the
/// records) on one parsed manifest; `ph` names the path that produced it ("" = RootBuilder -> bytes -> parse).
#[allow(clippy::too_many_arguments, clippy::too_many_lines)]
fn verify_root(ctx: &Ctx, case: &Case, t: &mut Tally, rng: &mut Rng, parsed: &RootFile, recs: &[Rec], paths: &BTreeMap<usize, String>, class: &str, ph: &str, info: &Value) -> bool {
    let n_records = recs.len();
    // level 1: linear scan over parsed blocks == inserted records
    let mut scan: Vec<Rec> = Vec::new();
    for b in &parsed.blocks {
        for r in &b.records {
            scan.push(Rec { fdid: r.file_data_id.get(), ckey: *r.content_key.as_bytes(), hash: r.name_hash, locale: b.locale_flags().value(), content: b.content_flags().value });
        }
    }
    // a block without NO_NAME_HASH has a hash slot for every record: for a file that was added WITHOUT a path the value
    // of that slot is not determined by anything the caller passed, so it is left open (compared as "no name")
    let scan_raw = scan.clone();
    let open: std::collections::BTreeSet<(u32, [u8; 16], u32, u64)> = recs.iter().filter(|r| r.hash.is_none() && r.content & ContentFlags::NO_NAME_HASH == 0).map(|r| (r.fdid, r.ckey, r.locale, r.content)).collect();
    if !open.is_empty() {
        t.o("root.unnamed_records_in_blocks_with_a_name_hash_array", open.len() as u64);
        for r in &mut scan {
            if r.hash.is_some() && open.contains(&(r.fdid, r.ckey, r.locale, r.content)) {
                r.hash = None;
            }
        }
    }
    let named_by_caller = recs.iter().filter(|r| r.hash.is_some()).count();
    let mut a = scan.clone();
    a.sort();
    let mut m = recs.to_vec();
    m.sort();
    if a != m {
        let first = m.iter().find(|r| !a.contains(r));
        viol(ctx, case, &misparse_sig(ph, class), "records of the parsed root manifest differ from what was inserted", json!({"parsed_version": format!("{:?}", parsed.version), "parsed_records": a.len(), "first_missing": first.map(|r| json!({"fdid": r.fdid, "ckey": hex::encode(r.ckey), "hash": r.hash, "locale": r.locale, "content": r.content})), "info": info}));
        return false;
    }
    // level 2 — with the open hash slots filled in as the manifest has them: whatever value such a slot holds, every
    // lookup flavour must then treat it like any other name hash of the manifest (consistency of the lookups with the
    // linear scan), while the header's count of named files stays what the caller named
    let adopted: Vec<Rec>;
    let recs: &[Rec] = if open.is_empty() {
        recs
    } else {
        adopted = recs
            .iter()
            .map(|r| {
                let mut r = r.clone();
                if r.hash.is_none() && open.contains(&(r.fdid, r.ckey, r.locale, r.content)) {
                    r.hash = scan_raw.iter().find(|x| (x.fdid, x.ckey, x.locale, x.content) == (r.fdid, r.ckey, r.locale, r.content)).and_then(|x| x.hash);
                }
                r
            })
            .collect();
        &adopted
    };
    let mut by_fdid: BTreeMap<u32, Vec<&Rec>> = BTreeMap::new();
    let mut by_hash: BTreeMap<u64, Vec<&Rec>> = BTreeMap::new();
    for r in recs {
        by_fdid.entry(r.fdid).or_default().push(r);
        if let Some(h) = r.hash {
            by_hash.entry(h).or_default().push(r);
        }
    }
    let used_locales: u32 = recs.iter().fold(0, |a, r| a | r.locale);
    let free_locale = LOCALE_BITS.iter().copied().find(|b| used_locales & b == 0).unwrap_or(0x8000_0000);
    let mut lookups = 0u64;
    let queries = |r: &Rec, rng: &mut Rng| -> Vec<(u32, u64)> {
        let one_l = LOCALE_BITS.iter().copied().filter(|b| r.locale & b != 0).last().unwrap_or(r.locale);
        let one_c = (0..40).map(|i| 1u64 << i).find(|b| r.content & b != 0).unwrap_or(0);
        let absent_c = CONTENT_BITS.iter().copied().find(|b| r.content & b == 0).unwrap_or(1 << 20);
        let other = *rng.pick(&LOCALE_BITS);
        vec![(r.locale, 0), (LocaleFlags::ALL, 0), (one_l, r.content), (one_l, one_c), (free_locale, 0), (r.locale, absent_c), (other, 0), (r.locale | free_locale, r.content), (r.locale, r.content | absent_c), (LocaleFlags::ALL, r.content | absent_c)]
    };
    let check = |ctx: &Ctx, api: &str, keydesc: Value, cands: Option<&Vec<&Rec>>, ql: u32, qc: u64, got: Option<[u8; 16]>| {
        let acceptable: Vec<[u8; 16]> = cands.map(|v| v.iter().filter(|r| matches(r.locale, r.content, ql, qc)).map(|r| r.ckey).collect()).unwrap_or_default();
        let ok = match got {
            None => acceptable.is_empty(),
            Some(k) => acceptable.contains(&k),
        };
        if !ok {
            let rel = match (acceptable.is_empty(), got.is_some()) {
                (false, false) => "inserted-key-not-found",
                (true, true) => "absent-key-found",
                _ => "wrong-value",
            };
            viol(ctx, case, &format!("C03|root|{ph}{api}|{rel}|{class}"), "root lookup disagrees with the inserted records (first entry whose flags match)", json!({"key": keydesc, "query_locale": ql, "query_content": qc, "acceptable": acceptable.iter().map(hex::encode).collect::<Vec<_>>(), "got": got.map(hex::encode), "info": info}));
        }
    };
    for (i, r) in recs.iter().enumerate() {
        for (ql, qc) in queries(r, rng) {
            let got = parsed.resolve_by_id(FileDataId::new(r.fdid), LocaleFlags::new(ql), ContentFlags::new(qc)).map(|k| *k.as_bytes());
            lookups += 1;
            check(ctx, "resolve_by_id", json!({"fdid": r.fdid}), by_fdid.get(&r.fdid), ql, qc, got);
            if let Some(h) = r.hash {
                let got = parsed.resolve_by_hash(h, LocaleFlags::new(ql), ContentFlags::new(qc)).map(|k| *k.as_bytes());
                lookups += 1;
                check(ctx, "resolve_by_hash", json!({"hash": h}), by_hash.get(&h), ql, qc, got);
            }
            if let Some(p) = paths.get(&i) {
                let got = parsed.resolve_by_path(p, LocaleFlags::new(ql), ContentFlags::new(qc)).map(|k| *k.as_bytes());
                lookups += 1;
                check(ctx, "resolve_by_path", json!({"path": p}), r.hash.and_then(|h| by_hash.get(&h)), ql, qc, got);
            }
        }
        // all entries of the id
        let mut got: Vec<([u8; 16], u32, u64)> = parsed.get_entries_by_id(FileDataId::new(r.fdid)).map(|v| v.iter().map(|e| (*e.content_key.as_bytes(), e.locale_flags.value(), e.content_flags.value)).collect()).unwrap_or_default();
        got.sort_unstable();
        let mut exp: Vec<([u8; 16], u32, u64)> = by_fdid.get(&r.fdid).map(|v| v.iter().map(|r| (r.ckey, r.locale, r.content)).collect()).unwrap_or_default();
        exp.sort_unstable();
        lookups += 1;
        if got != exp {
            viol(ctx, case, &format!("C03|root|{ph}get_entries_by_id|!=inserted|{class}"), "get_entries_by_id differs from the inserted entries of the FileDataID", json!({"fdid": r.fdid, "expected": exp.len(), "got": got.len(), "info": info}));
        }
        if let Some(p) = paths.get(&i) {
            let n_got = parsed.get_entries_by_path(p).map_or(0, Vec::len);
            let n_exp = r.hash.and_then(|h| by_hash.get(&h)).map_or(0, Vec::len);
            lookups += 1;
            if n_got != n_exp {
                viol(ctx, case, &format!("C03|root|{ph}get_entries_by_path|!=inserted|{class}"), "get_entries_by_path differs from the inserted entries of the path", json!({"path": p, "expected": n_exp, "got": n_got, "info": info}));
            }
        }
    }
    // negative probes: neighbours of inserted ids and hashes, random ids/hashes/paths
    let mut neg_ids: Vec<u32> = Vec::new();
    for r in recs.iter().take(200) {
        neg_ids.push(r.fdid.wrapping_add(1));
        neg_ids.push(r.fdid.wrapping_sub(1));
    }
    neg_ids.extend([0, 1, u32::MAX, rng.next_u32(), rng.next_u32()]);
    for id in neg_ids {
        for (ql, qc) in [(LocaleFlags::ALL, 0u64), (used_locales.max(1), 0)] {
            let got = parsed.resolve_by_id(FileDataId::new(id), LocaleFlags::new(ql), ContentFlags::new(qc)).map(|k| *k.as_bytes());
            lookups += 1;
            check(ctx, "resolve_by_id", json!({"fdid": id, "probe": "negative"}), by_fdid.get(&id), ql, qc, got);
        }
        let present = parsed.get_entries_by_id(FileDataId::new(id)).is_some_and(|v| !v.is_empty());
        if present != by_fdid.contains_key(&id) {
            viol(ctx, case, &format!("C03|root|{ph}get_entries_by_id|presence-differs|{class}"), "get_entries_by_id reports entries for an id that was not inserted (or none for one that was)", json!({"fdid": id, "info": info}));
        }
    }
    let mut neg_hashes: Vec<u64> = Vec::new();
    for r in recs.iter().filter_map(|r| r.hash).take(200) {
        neg_hashes.push(r.wrapping_add(1));
        neg_hashes.push(r.wrapping_sub(1));
        neg_hashes.push(r.swap_bytes());
    }
    neg_hashes.extend([0, u64::MAX, rng.next_u64()]);
    for h in neg_hashes {
        let got = parsed.resolve_by_hash(h, LocaleFlags::new(LocaleFlags::ALL), ContentFlags::new(0)).map(|k| *k.as_bytes());
        lookups += 1;
        check(ctx, "resolve_by_hash", json!({"hash": h, "probe": "negative"}), by_hash.get(&h), LocaleFlags::ALL, 0, got);
    }
    for (i, p) in paths.iter().take(100) {
        for variant in [format!("{p}.bak"), p[..p.len() - 1].to_string(), format!("x{p}")] {
            let h = calculate_name_hash(&variant);
            let got = parsed.resolve_by_path(&variant, LocaleFlags::new(LocaleFlags::ALL), ContentFlags::new(0)).map(|k| *k.as_bytes());
            lookups += 1;
            check(ctx, "resolve_by_path", json!({"path": variant, "probe": "negative", "of_record": i}), by_hash.get(&h), LocaleFlags::ALL, 0, got);
        }
    }
    let (nf, nn) = parsed.lookup_stats();
    if nf != by_fdid.len() || nn != by_hash.len() {
        viol(ctx, case, &format!("C03|root|{ph}lookup_stats|!=inserted|{class}"), "lookup tables hold a different number of ids / name hashes than inserted", json!({"fdid_count": nf, "name_count": nn, "expected": [by_fdid.len(), by_hash.len()], "info": info}));
    }
    // count accessors and the record iterator (a linear-scan API of the manifest itself)
    let named = named_by_caller;
    let mut it: Vec<(u32, [u8; 16], Option<u64>)> = parsed.iter_records().map(|r| (r.file_data_id.get(), *r.content_key.as_bytes(), r.name_hash)).collect();
    it.sort_unstable();
    let mut want: Vec<(u32, [u8; 16], Option<u64>)> = recs.iter().map(|r| (r.fdid, r.ckey, r.hash)).collect();
    want.sort_unstable();
    // with open hash slots "how many files are named" has two defensible answers (those the caller named / those that
    // occupy a hash slot) and rebuilds move from one to the other: not compared then
    let named_ok = !open.is_empty() || parsed.named_files() as usize == named;
    if parsed.total_files() as usize != n_records || !named_ok || it != want {
        viol(ctx, case, &format!("C03|root|{ph}total_files/named_files/iter_records|!=inserted|{class}"), "file counts or the record iterator of the parsed manifest differ from the inserted records", json!({"total_files": parsed.total_files(), "named_files": parsed.named_files(), "iter_records": it.len(), "expected": [n_records, named], "info": info}));
    }
    t.o("root.lookups", lookups);
    if ph.is_empty() {
        t.o("root.records_inserted", n_records as u64);
    } else {
        t.o(&format!("root.{}lookups", ph.replace('|', ".")), lookups);
    }
    true
}

/// Every `ROOT_EXT_EVERY`-th manifest also goes through the header variants, the `CascFormat` entry points and the
/// editing operations of `RootBuilder`.
const ROOT_EXT_EVERY: u64 = 3;

fn ver_name(v: RootVersion) -> &'static str {
    match v {
        RootVersion::V1 => "V1",
        RootVersion::V2 => "V2",
        RootVersion::V3 => "V3",
        RootVersion::V4 => "V4",
    }
}

fn class_of(v: RootVersion, recs: &[Rec]) -> String {
    format!("{}|total_files={}|named_files={}", ver_name(v), bucket_total(recs.len()), bucket_named(recs.iter().filter(|r| r.hash.is_some()).count()))
}

/// Same blocks under another header the format allows: `MFST` magic (big-endian header fields), the extended
/// header for V2 block data (version field 1 or 2), header sizes 24 / 28 with padding. Returns (variant, bytes).
fn rehead(rng: &mut Rng, version: RootVersion, bytes: &[u8], total: u32, named: u32) -> Option<(&'static str, Vec<u8>)> {
    let info = RootHeaderInfo { total_files: total, named_files: named };
    let (strip, variants): (usize, &[&'static str]) = match version {
        RootVersion::V1 => return None,
        RootVersion::V2 => (12, &["MFST-classic", "TSFM-ext20-v1", "TSFM-ext20-v2", "MFST-ext24-v2", "TSFM-ext28-v1", "MFST-ext22-v2"]),
        _ => (20, &["MFST-ext20", "TSFM-ext24", "MFST-ext24", "TSFM-ext28", "TSFM-ext22"]),
    };
    let variant = *rng.pick(variants);
    let magic = if variant.starts_with("MFST") { RootMagic::Mfst } else { RootMagic::Tsfm };
    let vfield = match version {
        RootVersion::V2 => if variant.ends_with("v1") { 1 } else { 2 },
        RootVersion::V3 => 3,
        _ => 4,
    };
    let header_size: u32 = if variant.contains("ext20") { 20 } else if variant.contains("ext22") { 22 } else if variant.contains("ext24") { 24 } else { 28 };
    let header = if variant == "MFST-classic" { RootHeader::V2 { magic, info } } else { RootHeader::V3V4 { magic, header_size, version: vfield, info, padding: rng.next_u32() } };
    let mut out = std::io::Cursor::new(Vec::new());
    header.write(&mut out).ok()?;
    let mut out = out.into_inner();
    if variant != "MFST-classic" && out.len() < header_size as usize {
        out.resize(header_size as usize, 0); // header bytes past the first padding word: skipped by readers
    }
    out.extend_from_slice(bytes.get(strip..)?);
    Some((variant, out))
}

#[allow(clippy::too_many_lines)]
fn extend_root(ctx: &Ctx, case: &Case, t: &mut Tally, rng: &mut Rng, version: RootVersion, mut parsed: RootFile, built: &Built) {
    let sel = case.idx / ROOT_EXT_EVERY;
    let base_info = json!({"records": built.recs.len(), "named": built.named_count, "blocks": built.blocks.len()});
    // ---- (a) header variants over the same blocks
    if sel % 3 == 0 {
        let class = class_of(version, &built.recs);
        if let Some((variant, bytes)) = rehead(rng, version, &built.bytes, built.recs.len() as u32, built.named_count as u32) {
            if variant == "MFST-classic" && class == "V2|total_files=16..99|named_files=1..4" {
                t.o("root.header_variant.skipped_listed_ambiguity", 1);
            } else {
                t.o(&format!("root.header_variant.{variant}"), 1);
                let info = json!({"base": base_info, "header_variant": variant, "header_hex": hex::encode(&bytes[..bytes.len().min(32)])});
                match RootFile::parse(&bytes) {
                    Ok(p) => {
                        t.o(&format!("root.header_variant.parsed_as.{}", ver_name(p.version)), 1);
                        verify_root(ctx, case, t, rng, &p, &built.recs, &built.paths, &format!("{class}|header={variant}"), "header-variant|", &info);
                    }
                    Err(e) => viol(ctx, case, &format!("C03|root|header-variant|built-output-misparsed|{class}|header={variant}"), "RootFile::parse rejects builder-written blocks under another header layout of the same version", json!({"error": e.to_string(), "info": info})),
                }
            }
        }
    }
    // ---- (b) CascFormat entry points: parse -> build (through add_file_in_block) -> parse
    if sel % 3 == 1 {
        let class = class_of(version, &built.recs);
        let info = json!({"base": base_info, "path": "CascFormat::parse -> CascFormat::build -> CascFormat::parse"});
        let r = <RootFile as CascFormat>::parse(&built.bytes).and_then(|p| <RootFile as CascFormat>::build(&p)).and_then(|b| <RootFile as CascFormat>::parse(&b));
        t.o("root.casc_format_roundtrips", 1);
        match r {
            Ok(p) => {
                verify_root(ctx, case, t, rng, &p, &built.recs, &built.paths, &class, "CascFormat|", &info);
            }
            Err(e) => viol(ctx, case, &misparse_sig("CascFormat|", &class), "the CascFormat parse/build/parse chain fails on a RootBuilder-produced manifest", json!({"error": e.to_string(), "info": info})),
        }
    }
    // ---- (c) lookup tables rebuilt in place answer like the freshly parsed ones
    if sel % 3 == 2 {
        parsed.rebuild_lookups();
        t.o("root.rebuild_lookups", 1);
        verify_root(ctx, case, t, rng, &parsed, &built.recs, &built.paths, &class_of(version, &built.recs), "rebuild_lookups|", &base_info);
    }
    t.o(if parsed.validate().is_ok() { "root.validate_ok" } else { "root.validate_err" }, 1);

    // ---- (d) editing operations on a builder made from the parsed manifest
    let mut model: Vec<(Rec, Option<String>)> = built.recs.iter().enumerate().map(|(i, r)| (r.clone(), built.paths.get(&i).cloned())).collect();
    let mut b = RootBuilder::from_root_file(&parsed);
    t.o("root.edit.from_root_file", 1);
    let bviol = |api: &str, rel: &str, witness: Value| {
        viol(ctx, case, &format!("C03|root|RootBuilder::{api}|{rel}"), "an editing / query operation of RootBuilder disagrees with the model of what the builder holds", json!({"witness": witness, "base": base_info}));
    };
    let lf = LocaleFlags::new;
    let cf = ContentFlags::new;
    let fid = FileDataId::new;
    let blocks_of = |m: &[(Rec, Option<String>)]| -> BTreeMap<(u32, u64), usize> {
        let mut bm = BTreeMap::new();
        for (r, _) in m {
            *bm.entry((r.locale, r.content)).or_insert(0usize) += 1;
        }
        bm
    };
    let check_state = |b: &RootBuilder, m: &[(Rec, Option<String>)], when: &str| -> bool {
        let bm = blocks_of(m);
        let mut stats: Vec<(u32, u64, usize)> = b.block_stats().into_iter().map(|(l, c, n)| (l.value(), c.value, n)).collect();
        stats.sort_unstable();
        let want: Vec<(u32, u64, usize)> = bm.iter().map(|((l, c), n)| (*l, *c, *n)).collect();
        if b.file_count() != m.len() || b.block_count() != bm.len() || stats != want {
            bviol("file_count/block_count/block_stats", &format!("!=model|{when}"), json!({"file_count": b.file_count(), "block_count": b.block_count(), "expected": [m.len(), bm.len()]}));
            return false;
        }
        true
    };
    if b.version() != version && parsed.version != version {
        t.o("root.edit.version_detected_differs", 1);
    }
    if !check_state(&b, &model, "after-from_root_file") {
        return;
    }
    if (sel / 3) % 4 == 3 {
        // start over: clear and put everything back through add_file_in_block
        b.clear();
        t.o("root.edit.clear", 1);
        if b.file_count() != 0 || b.block_count() != 0 || model.iter().take(8).any(|(r, _)| b.has_file(fid(r.fdid))) {
            bviol("clear", "entries-left", json!({"file_count": b.file_count()}));
            return;
        }
        let mut order: Vec<usize> = (0..model.len()).collect();
        rng.shuffle(&mut order);
        for i in order {
            let r = &model[i].0;
            b.add_file_in_block(fid(r.fdid), ContentKey::from_bytes(r.ckey), r.hash, lf(r.locale), cf(r.content));
        }
    }
    // queries before the edits
    let ids: Vec<u32> = {
        let mut v: Vec<u32> = model.iter().map(|(r, _)| r.fdid).collect();
        v.sort_unstable();
        v.dedup();
        v
    };
    let query = |b: &RootBuilder, m: &[(Rec, Option<String>)], id: u32, when: &str| {
        let of: Vec<&Rec> = m.iter().map(|(r, _)| r).filter(|r| r.fdid == id).collect();
        let has = b.has_file(fid(id));
        let found = b.find_file(fid(id)).map(|k| *k.as_bytes());
        let mut all: Vec<(u32, u64, [u8; 16])> = b.find_all_entries(fid(id)).into_iter().map(|(l, c, k)| (l.value(), c.value, *k.as_bytes())).collect();
        all.sort_unstable();
        let mut want: Vec<(u32, u64, [u8; 16])> = of.iter().map(|r| (r.locale, r.content, r.ckey)).collect();
        want.sort_unstable();
        let found_ok = match found {
            None => of.is_empty(),
            Some(k) => of.iter().any(|r| r.ckey == k),
        };
        if has == of.is_empty() || !found_ok || all != want {
            bviol("has_file/find_file/find_all_entries", &format!("!=model|{when}"), json!({"fdid": id, "has_file": has, "find_file": found.map(hex::encode), "find_all_entries": all.len(), "model_entries": want.len()}));
        }
        for r in &of {
            if !b.has_file_in_block(fid(id), lf(r.locale), cf(r.content)) {
                bviol("has_file_in_block", &format!("false-for-present-entry|{when}"), json!({"fdid": id, "locale": r.locale, "content": r.content}));
            }
        }
    };
    let mut n_q = 0u64;
    for id in ids.iter().step_by((ids.len() / 25).max(1)) {
        n_q += 2;
        query(&b, &model, *id, "before-edits");
        let absent = id.wrapping_add(1);
        query(&b, &model, absent, "before-edits");
    }
    // ---- removals
    let share = [0u64, 8, 4, 2][rng.usize_below(4)];
    let mut removed_ids: Vec<u32> = Vec::new();
    if share != 0 {
        let mut picks: Vec<u32> = Vec::new();
        if rng.bool() {
            picks.extend(ids.first());
        }
        if rng.bool() {
            picks.extend(ids.last());
        }
        picks.extend(ids.iter().filter(|_| rng.chance(1, share)));
        picks.sort_unstable();
        picks.dedup();
        rng.shuffle(&mut picks);
        for id in picks {
            let entries: Vec<(u32, u64)> = model.iter().filter(|(r, _)| r.fdid == id).map(|(r, _)| (r.locale, r.content)).collect();
            if entries.len() >= 2 && rng.bool() {
                // only one of the blocks that hold the id
                let (l, c) = entries[rng.usize_below(entries.len())];
                let r = b.remove_file_from_block(fid(id), lf(l), cf(c));
                model.retain(|(m, _)| !(m.fdid == id && m.locale == l && m.content == c));
                if !r {
                    bviol("remove_file_from_block", "returns-false-for-present-entry", json!({"fdid": id, "locale": l, "content": c}));
                }
                t.o("root.edit.remove_file_from_block", 1);
            } else {
                let r = b.remove_file(fid(id));
                model.retain(|(m, _)| m.fdid != id);
                removed_ids.push(id);
                if !r {
                    bviol("remove_file", "returns-false-for-present-id", json!({"fdid": id}));
                }
            }
        }
    }
    for _ in 0..4 {
        let id = if !ids.is_empty() && rng.bool() { rng.pick(&ids).wrapping_add(1) } else { rng.next_u32() };
        if model.iter().all(|(r, _)| r.fdid != id) {
            if b.remove_file(fid(id)) {
                bviol("remove_file", "returns-true-for-absent-id", json!({"fdid": id}));
            }
            if b.remove_file_from_block(fid(id), lf(LocaleFlags::ENUS), cf(0)) {
                bviol("remove_file_from_block", "returns-true-for-absent-id", json!({"fdid": id}));
            }
        }
    }
    // an id that is present, asked for in a block that does not hold it
    if let Some((r, _)) = model.first() {
        let other = (r.locale ^ 0x4000_0000, r.content);
        if model.iter().all(|(m, _)| !(m.fdid == r.fdid && (m.locale, m.content) == other)) && (b.remove_file_from_block(fid(r.fdid), lf(other.0), cf(other.1)) || b.has_file_in_block(fid(r.fdid), lf(other.0), cf(other.1))) {
            bviol("remove_file_from_block/has_file_in_block", "true-for-block-without-the-id", json!({"fdid": r.fdid}));
        }
    }
    // ---- content-key updates (every entry of the id)
    let mut updated = 0u64;
    let live_ids: Vec<u32> = {
        let mut v: Vec<u32> = model.iter().map(|(r, _)| r.fdid).collect();
        v.sort_unstable();
        v.dedup();
        v
    };
    for id in &live_ids {
        if rng.chance(1, 8) {
            let nk = rng.array::<16>();
            let n = b.update_file(fid(*id), ContentKey::from_bytes(nk));
            let mut want = 0usize;
            for (r, _) in &mut model {
                if r.fdid == *id {
                    r.ckey = nk;
                    want += 1;
                }
            }
            updated += 1;
            if n != want {
                bviol("update_file", "updated-count!=entries-of-id", json!({"fdid": id, "returned": n, "entries": want}));
            }
        }
    }
    let absent_id = live_ids.last().map_or(7, |l| l.wrapping_add(3));
    if model.iter().all(|(r, _)| r.fdid != absent_id) && b.update_file(fid(absent_id), ContentKey::from_bytes([1; 16])) != 0 {
        bviol("update_file", "updated-count!=entries-of-id", json!({"fdid": absent_id, "entries": 0}));
    }
    if rng.bool() {
        b.optimize_blocks();
        t.o("root.edit.optimize_blocks", 1);
    }
    // ---- additions: new ids in existing blocks (same kind: named / unnamed) or in a new block
    let v1 = version == RootVersion::V1;
    let used_locales: u32 = model.iter().fold(0, |a, (r, _)| a | r.locale);
    let mut used_hashes: BTreeSet<u64> = model.iter().filter_map(|(r, _)| r.hash).collect();
    let existing_blocks: Vec<(u32, u64)> = blocks_of(&model).keys().copied().collect();
    let free_bit = LOCALE_BITS.iter().copied().find(|x| used_locales & x == 0);
    let adds = match rng.below(4) {
        0 => 0,
        1 => rng.urange(1, 3),
        _ => rng.urange(4, 40),
    };
    let mut next_id: u64 = match rng.below(3) {
        0 => u64::from(live_ids.last().copied().unwrap_or(0)) + 1,
        1 => u64::from(live_ids.first().copied().unwrap_or(1000) / 2),
        _ => rng.below(0xffff_0000),
    };
    let mut added = 0u64;
    for i in 0..adds {
        while next_id <= u64::from(u32::MAX) && model.iter().any(|(r, _)| u64::from(r.fdid) == next_id) {
            next_id += 1;
        }
        if next_id > u64::from(u32::MAX) {
            break;
        }
        let id = if i == 0 && !removed_ids.is_empty() && rng.bool() { removed_ids[0] } else { next_id as u32 };
        if model.iter().any(|(r, _)| r.fdid == id) {
            continue;
        }
        next_id += rng.range(1, 50);
        let (loc, content) = if let (true, Some(fb)) = (existing_blocks.is_empty() || rng.chance(1, 4), free_bit) {
            let unnamed = !v1 && rng.bool();
            (fb, if unnamed { ContentFlags::NO_NAME_HASH | ContentFlags::INSTALL } else { ContentFlags::LOAD_ON_WINDOWS })
        } else if existing_blocks.is_empty() {
            break;
        } else {
            *rng.pick(&existing_blocks)
        };
        let named_block = v1 || content & ContentFlags::NO_NAME_HASH == 0;
        let ckey = rng.array::<16>();
        let mut path: Option<String> = None;
        let hash: Option<u64> = if named_block {
            if rng.bool() {
                let mut p = gen_path(rng, 100_000 + i, false);
                let mut h = calculate_name_hash(&p);
                while !used_hashes.insert(h) {
                    p.push('y');
                    h = calculate_name_hash(&p);
                }
                b.add_file(fid(id), ContentKey::from_bytes(ckey), Some(&p), lf(loc), cf(content));
                path = Some(p);
                Some(h)
            } else {
                let mut h = rng.next_u64();
                while !used_hashes.insert(h) {
                    h = rng.next_u64();
                }
                if rng.bool() {
                    b.add_file_in_block(fid(id), ContentKey::from_bytes(ckey), Some(h), lf(loc), cf(content));
                } else {
                    b.add_file_with_hash(fid(id), ContentKey::from_bytes(ckey), Some(h), lf(loc), cf(content));
                }
                Some(h)
            }
        } else {
            b.add_file_in_block(fid(id), ContentKey::from_bytes(ckey), None, lf(loc), cf(content));
            None
        };
        model.push((Rec { fdid: id, ckey, hash, locale: loc, content }, path));
        added += 1;
    }
    // ---- the builder must hold exactly the edited model
    check_state(&b, &model, "after-edits");
    for id in removed_ids.iter().take(25) {
        n_q += 1;
        query(&b, &model, *id, "after-edits");
    }
    for id in live_ids.iter().step_by((live_ids.len() / 15).max(1)) {
        n_q += 1;
        query(&b, &model, *id, "after-edits");
    }
    t.o(if b.validate().is_ok() { "root.edit.builder_validate_ok" } else { "root.edit.builder_validate_err" }, 1);
    let _ = b.estimate_size();
    // ---- format conversion where every record is representable in the target version
    let mut out_version = version;
    if rng.chance(1, 3) {
        let all_named = model.iter().all(|(r, _)| r.hash.is_some());
        let low_flags = model.iter().all(|(r, _)| r.content < (1u64 << 32));
        let targets: Vec<RootVersion> = [RootVersion::V1, RootVersion::V2, RootVersion::V3, RootVersion::V4]
            .into_iter()
            .filter(|tv| *tv != version)
            .filter(|tv| match tv {
                RootVersion::V1 => all_named && low_flags && model.iter().all(|(r, _)| r.content & ContentFlags::NO_NAME_HASH == 0),
                RootVersion::V4 => true,
                _ => low_flags,
            })
            // a V1 manifest has no NO_NAME_HASH blocks and only named records: every target can hold it
            .collect();
        if !targets.is_empty() {
            out_version = *rng.pick(&targets);
            b.set_version(out_version);
            t.o(&format!("root.edit.set_version.{}->{}", ver_name(version), ver_name(out_version)), 1);
            if b.version() != out_version {
                bviol("set_version/version", "version-not-set", json!({"wanted": ver_name(out_version)}));
            }
        }
    }
    t.o("root.edit.presence_queries", n_q);
    t.o("root.edit.removed_ids", removed_ids.len() as u64);
    t.o("root.edit.updated_ids", updated);
    t.o("root.edit.added", added);
    let bytes = match b.build() {
        Ok(x) => x,
        Err(_) => {
            t.o(if model.is_empty() { "root.edit.builder_refused_empty" } else { "root.edit.builder_refused" }, 1);
            return;
        }
    };
    let recs: Vec<Rec> = model.iter().map(|(r, _)| r.clone()).collect();
    let paths: BTreeMap<usize, String> = model.iter().enumerate().filter_map(|(i, (_, p))| p.clone().map(|p| (i, p))).collect();
    let class = class_of(out_version, &recs);
    let info = json!({"base": base_info, "records": recs.len(), "named": recs.iter().filter(|r| r.hash.is_some()).count(), "removed_ids": removed_ids.len(), "updated_ids": updated, "added": added, "converted_to": if out_version == version { Value::Null } else { json!(ver_name(out_version)) }, "header_hex": hex::encode(&bytes[..bytes.len().min(24)])});
    let reparsed = match RootFile::parse(&bytes) {
        Ok(p) => p,
        Err(e) => {
            viol(ctx, case, &misparse_sig("after-edit|", &class), "RootFile::parse rejects (or misreads) the output of an edited RootBuilder", json!({"error": e.to_string(), "info": info}));
            return;
        }
    };
    t.o("root.edit.structures", 1);
    if verify_root(ctx, case, t, rng, &reparsed, &recs, &paths, &class, "after-edit|", &info) {
        let mut gone = 0u64;
        for id in &removed_ids {
            if recs.iter().all(|r| r.fdid != *id) {
                gone += 1;
                if reparsed.resolve_by_id(fid(*id), lf(LocaleFlags::ALL), cf(0)).is_some() || reparsed.get_entries_by_id(fid(*id)).is_some_and(|v| !v.is_empty()) {
                    viol(ctx, case, &format!("C03|root|after-edit|resolve_by_id|removed-id-found|{class}"), "a FileDataID removed with remove_file still resolves after rebuild", json!({"fdid": id, "info": info}));
                }
            }
        }
        t.o("root.edit.removed_id_probes", gone);
    }
}
